------------------------------- MODULE ListLib -------------------------------
(***************************************************************************)
(* Abstract specification of the Lua 5.1 table library on lists            *)
(* (property C18).  A list is a sequence xs of non-nil values: the table t *)
(* with t[i] = xs[i] for 1 <= i <= n = Len(xs) and nil elsewhere.          *)
(*                                                                         *)
(* Values are tagged tuples  <<"n",i>>  <<"s",x>>  <<"b",TRUE>>  <<"t",id>>*)
(* <<"nil">>.  An operation is a record with field op:                     *)
(*   ins_end(v)   table.insert(t, v)          ins(pos,v) table.insert(t,pos,v)*)
(*   rem_end      table.remove(t)             rem(pos)   table.remove(t,pos) *)
(*   set(i,v)     t[i] = v   (1<=i<=n, v~=nil | i=n, v=nil | i=n+1)          *)
(*   sort(cmp)    table.sort(t [,lt])                                        *)
(* Queries: concat(sep,i,j), unpack(i,j), maxn, getn.  Optional arguments   *)
(* are value tokens, <<"nil">> = absent.                                    *)
(* Besides the list the table may hold numeric keys outside it (ex, a set of  *)
(* <<key, value>> pairs): <<"n",i>> with i < 1 or i > n+1 ("beyond a hole"),   *)
(* <<"f",i>> = i+0.5, <<"p",e>> = 2^e.  They are visible to rawget, to explicit *)
(* concat/unpack ranges and to maxn (the largest positive numeric key of the    *)
(* whole table).  While a key beyond a hole exists #t has several borders, so   *)
(* list calls are outside the domain until it is cleared (setx(k, nil)).        *)
(* fill(n,a,m) stands for  for k=1,n do t[k] = (a*k)%m end  on an empty list.    *)
(* insert and remove accept EVERY integer position as ltablib.c does (the    *)
(* property's statement covers 1..n+1 / 1..n; outside it the reference       *)
(* transcription decides).  Unspecified choices are explicit: insert at      *)
(* pos <= 0 (see Posts); the result of sort is ANY admissible permutation.   *)
(***************************************************************************)
EXTENDS Integers, Sequences, FiniteSets, TLC

Nil == <<"nil">>
IsNum(v) == v[1] = "n"
IsStr(v) == v[1] = "s"
IsObj(v) == v[1] = "t"

At(xs, i) == IF i >= 1 /\ i <= Len(xs) THEN xs[i] ELSE Nil
Elems(xs) == {xs[i] : i \in 1..Len(xs)}

(* ---- numeric keys outside the list ---------------------------------------- *)
ExGet(ex, k) == IF \E p \in ex : p[1] = k THEN (CHOOSE p \in ex : p[1] = k)[2] ELSE Nil
ExSet(ex, k, v) == {p \in ex : p[1] # k} \cup (IF v = Nil THEN {} ELSE {<<k, v>>})
(* t[i] for any integer i *)
TAt(xs, ex, i) == IF i >= 1 /\ i <= Len(xs) THEN xs[i] ELSE ExGet(ex, <<"n", i>>)
(* positive integer keys behind the list: they make #t ambiguous *)
HoleKeys(ex) == {p[1] : p \in {q \in ex : q[1][1] = "n" /\ q[1][2] >= 1}}
(* a key that setx may use with the list xs *)
IsExtraKey(xs, k) ==
    CASE k[1] = "n" -> k[2] < 1 \/ k[2] > Len(xs) + 1
      [] k[1] \in {"f", "p"} -> TRUE
      [] OTHER -> FALSE
KeyPositive(k) == CASE k[1] = "n" -> k[2] > 0 [] k[1] = "f" -> k[2] >= 0 [] OTHER -> TRUE
(* numeric order of key tokens: n i = i, f i = i + 0.5, p e = 2^e (e >= 31) *)
KeyOrd(k) == IF k[1] = "n" THEN 2 * k[2] ELSE 2 * k[2] + 1
KeyLt(a, b) ==
    IF a[1] = "p" THEN b[1] = "p" /\ a[2] < b[2]
    ELSE IF b[1] = "p" THEN TRUE
    ELSE KeyOrd(a) < KeyOrd(b)
IsList(xs) == \A i \in 1..Len(xs) : xs[i] # Nil

InsertAt(xs, pos, v) == SubSeq(xs, 1, pos - 1) \o <<v>> \o SubSeq(xs, pos, Len(xs))
RemoveAt(xs, pos) == SubSeq(xs, 1, pos - 1) \o SubSeq(xs, pos + 1, Len(xs))

(* ---- the domain of the property: calls that keep t a list -------------- *)
ListDomain(xs, o) ==
    LET n == Len(xs) IN
    CASE o.op = "ins_end" -> TRUE
      [] o.op = "ins"     -> (o.v = Nil => o.pos >= n + 1)     \* every integer position (the statement's core: 1..n+1)
      [] o.op = "insx"    -> TRUE                             \* table.insert with more than three arguments
      [] o.op = "rem_end" -> TRUE
      [] o.op = "rem"     -> TRUE                             \* every integer position (the statement's core: 1..n)
      [] o.op = "set"     -> \/ (o.i >= 1 /\ o.i <= n /\ o.v # Nil)
                             \/ (o.i = n /\ n >= 1 /\ o.v = Nil)
                             \/ o.i = n + 1
      [] o.op = "sort"    -> TRUE
      [] o.op = "fill"    -> n = 0 /\ o.n >= 0 /\ o.m >= 1 /\ o.a >= 0
      [] OTHER            -> FALSE
InDomain(xs, ex, o) ==
    IF o.op = "setx" THEN IsExtraKey(xs, o.k)
    ELSE HoleKeys(ex) = {} /\ ListDomain(xs, o)

(* ---- effect ------------------------------------------------------------- *)
InList(xs, pos) == pos >= 1 /\ pos <= Len(xs)
Post(xs, o) ==
    LET n == Len(xs) IN
    CASE o.op = "ins_end" -> (IF o.v = Nil THEN xs ELSE Append(xs, o.v))
      [] o.op = "ins"     -> (IF o.v = Nil \/ o.pos > n + 1 THEN xs ELSE InsertAt(xs, o.pos, o.v))
      [] o.op = "rem_end" -> (IF n = 0 THEN xs ELSE SubSeq(xs, 1, n - 1))
      [] o.op = "rem"     -> (IF InList(xs, o.pos) THEN RemoveAt(xs, o.pos) ELSE xs)   \* tremove: outside 1..n nothing happens
      [] o.op = "set"     -> (IF o.i = n + 1 THEN (IF o.v = Nil THEN xs ELSE Append(xs, o.v))
                              ELSE IF o.v = Nil THEN SubSeq(xs, 1, n - 1)
                              ELSE [xs EXCEPT ![o.i] = o.v])
      [] o.op = "fill"    -> [k \in 1..o.n |-> <<"n", (o.a * k) % o.m>>]
      [] o.op \in {"setx", "insx"} -> xs
PostEx(xs, ex, o) ==
    CASE o.op = "setx" -> ExSet(ex, o.k, o.v)
      [] o.op = "ins" /\ o.pos > Len(xs) + 1 -> ExSet(ex, <<"n", o.pos>>, o.v)   \* tinsert: e = pos, nothing to shift, t[pos] = v
      [] OTHER -> ex

(* table.insert(t, pos, v) with pos <= 0, literally as tinsert's loop does it:  *)
(*   for (i = n+1; i > pos; i--) t[i] = t[i-1];  t[pos] = v                      *)
(* t[1] receives the old t[0]: if that is nil the list is gone (t[1] = nil, the  *)
(* old elements sit at 2..n+1 behind a hole), otherwise it grows by t[0].        *)
InsLowLiteral(xs, ex, pos, v) ==
    LET n == Len(xs)
        old(k) == TAt(xs, ex, k)
        keep == {p \in ex : ~(p[1][1] = "n" /\ p[1][2] >= pos /\ p[1][2] <= 0)}
        low == {<<<<"n", k>>, old(k - 1)>> : k \in {j \in (pos + 1)..0 : old(j - 1) # Nil}}
        up == IF old(0) = Nil THEN {<<<<"n", i + 1>>, xs[i]>> : i \in 1..n} ELSE {}
    IN [xs |-> IF old(0) = Nil THEN <<>> ELSE <<old(0)>> \o xs,
        ex |-> keep \cup low \cup up \cup {<<<<"n", pos>>, v>>}]
(* ... or without any shift, as insert does for every other position outside the list *)
InsLowNoShift(xs, ex, pos, v) == [xs |-> xs, ex |-> ExSet(ex, <<"n", pos>>, v)]

(* The admissible post-states <<first, ...>>.  One for every call except        *)
(* insert at pos <= 0: there the shift of t[0] into t[1] is an artefact of the   *)
(* reference loop that breaks the list (the manual only says "shifting up other  *)
(* elements to open space, if necessary"; later Lua versions reject such pos),   *)
(* so the specification leaves the choice between the literal loop and a plain   *)
(* store open - and admits nothing else (no element may be lost or moved).       *)
Posts(xs, ex, o) ==
    IF o.op = "ins" /\ o.pos <= 0
    THEN <<InsLowLiteral(xs, ex, o.pos, o.v), InsLowNoShift(xs, ex, o.pos, o.v)>>
    ELSE <<[xs |-> Post(xs, o), ex |-> PostEx(xs, ex, o)]>>

(* calls that must raise an error (and change nothing) *)
ExpectErr(o) == o.op = "insx"

(* ---- results: the set of admissible result tuples ------------------------ *)
Results(xs, o) ==
    CASE o.op = "rem_end" -> (IF Len(xs) = 0 THEN {<<>>} ELSE {<<xs[Len(xs)]>>})     \* tremove: pos = 0 is outside 1..0
      [] o.op = "rem"     -> (IF InList(xs, o.pos) THEN {<<xs[o.pos]>>} ELSE {<<>>})   \* no values at all
      [] OTHER            -> {<<>>}

(* ---- queries -------------------------------------------------------------- *)
Opt(a, d) == IF a = Nil THEN d ELSE a[2]
Concatable(v) == IsNum(v) \/ IsStr(v)
Str(v) == IF IsNum(v) THEN ToString(v[2]) ELSE v[2]

(* table[i]..sep..table[i+1] ... sep..table[j]; "" when i > j; an element   *)
(* that is neither string nor number (incl. nil outside the list) is an     *)
(* error naming the first such index.                                       *)
RECURSIVE ConcatRange(_, _, _, _, _)
ConcatRange(xs, ex, sep, i, j) ==
    IF i > j THEN [err |-> FALSE, s |-> "", at |-> 0]
    ELSE LET v == TAt(xs, ex, i) IN
         IF ~Concatable(v) THEN [err |-> TRUE, s |-> "", at |-> i]
         ELSE IF i = j THEN [err |-> FALSE, s |-> Str(v), at |-> 0]
         ELSE LET r == ConcatRange(xs, ex, sep, i + 1, j) IN
              IF r.err THEN r ELSE [err |-> FALSE, s |-> Str(v) \o sep \o r.s, at |-> 0]

Concat(xs, ex, sep, i, j) == ConcatRange(xs, ex, Opt(sep, ""), Opt(i, 1), Opt(j, Len(xs)))

(* list[i], list[i+1], ..., list[j] *)
Unpack(xs, ex, i, j) ==
    LET a == Opt(i, 1)
        b == Opt(j, Len(xs))
    IN IF a > b THEN <<>> ELSE [k \in 1..(b - a + 1) |-> TAt(xs, ex, a + k - 1)]

(* maxn: the largest positive numeric key of the whole table (a key token), 0 if none *)
MaxN(xs, ex) ==
    LET ks == {p[1] : p \in {q \in ex : KeyPositive(q[1])}} \cup {<<"n", Len(xs)>>}
    IN CHOOSE k \in ks : \A l \in ks : l = k \/ KeyLt(l, k)
GetN(xs) == Len(xs)

(***************************************************************************)
(* Digest of a join that is too long to build as a TLC string: its length   *)
(* and two polynomial hashes  h = (h*31 + byte) mod P  over its bytes.  Only *)
(* for ranges of non-negative integers; sep is a sequence of byte codes.     *)
(* Halves are combined (h1 * 31^len2 + h2), so the recursion depth is log n.  *)
(***************************************************************************)
P1 == 32749
P2 == 32719
DEmpty == [len |-> 0, h1 |-> 0, h2 |-> 0, w1 |-> 1, w2 |-> 1]
DByte(b) == [len |-> 1, h1 |-> b % P1, h2 |-> b % P2, w1 |-> 31, w2 |-> 31]
DCat(a, b) == [len |-> a.len + b.len,
               h1 |-> (a.h1 * b.w1 + b.h1) % P1, h2 |-> (a.h2 * b.w2 + b.h2) % P2,
               w1 |-> (a.w1 * b.w1) % P1, w2 |-> (a.w2 * b.w2) % P2]
RECURSIVE DNat(_)
DNat(k) == IF k < 10 THEN DByte(48 + k) ELSE DCat(DNat(k \div 10), DByte(48 + (k % 10)))
RECURSIVE DBytes(_, _)
DBytes(bs, i) == IF i > Len(bs) THEN DEmpty ELSE DCat(DByte(bs[i]), DBytes(bs, i + 1))
(* digest of xs[i] sep xs[i+1] ... sep xs[j] followed by sep when trail *)
RECURSIVE DJoin(_, _, _, _, _, _)
DJoin(xs, ex, dsep, i, j, trail) ==
    IF i = j THEN (IF trail THEN DCat(DNat(TAt(xs, ex, i)[2]), dsep) ELSE DNat(TAt(xs, ex, i)[2]))
    ELSE LET mid == (i + j) \div 2
         IN DCat(DJoin(xs, ex, dsep, i, mid, TRUE), DJoin(xs, ex, dsep, mid + 1, j, trail))
(* concat(t, sep, i, j) as a digest.  err: some t[k] in the range is neither string nor  *)
(* number; sup: the digest is defined (every t[k] is a non-negative integer)            *)
ConcatDigest(xs, ex, sepbytes, i, j) ==
    LET a == Opt(i, 1)
        b == Opt(j, Len(xs))
    IN IF a > b THEN [err |-> FALSE, sup |-> TRUE, d |-> DEmpty]
       ELSE IF \E k \in a..b : ~Concatable(TAt(xs, ex, k)) THEN [err |-> TRUE, sup |-> TRUE, d |-> DEmpty]
       ELSE IF \E k \in a..b : ~IsNum(TAt(xs, ex, k)) \/ TAt(xs, ex, k)[2] < 0 THEN [err |-> FALSE, sup |-> FALSE, d |-> DEmpty]
       ELSE [err |-> FALSE, sup |-> TRUE, d |-> DJoin(xs, ex, DBytes(sepbytes, 1), a, b, FALSE)]

(***************************************************************************)
(* Sort.  A comparator is a record [kind, j]; keys maps object ids to the  *)
(* number the by-key comparators look at.  Base(c,a,b) is what the          *)
(* comparator answers for the pair: "T", "F" or "E" (raises an error).      *)
(*   lt    no comparator (the < operator)      ltf   function(a,b) return a<b end  *)
(*   ltnil table.sort(t, nil): an explicit nil comparator is the < operator     *)
(*   gt    function(a,b) return a>b end        lt0   returns 0 / nil instead of true / false *)
(*   bykey function(a,b) return a.k<b.k end    mt    no comparator, elements share __lt on .k *)
(*   true / false / none  constant true, constant false, returns nothing   *)
(*   alt   alternates true,false,... by call number (no base relation)      *)
(*   errat like ltf but the j-th call raises an error                       *)
(***************************************************************************)
TF(b) == IF b THEN "T" ELSE "F"
StrRank(s) == CASE s = "a" -> 1 [] s = "b" -> 2 [] s = "c" -> 3 [] s = "d" -> 4 [] s = "e" -> 5

LuaLt(a, b, keys, mt) ==
    IF IsNum(a) /\ IsNum(b) THEN TF(a[2] < b[2])
    ELSE IF IsStr(a) /\ IsStr(b) THEN TF(StrRank(a[2]) < StrRank(b[2]))
    ELSE IF mt /\ IsObj(a) /\ IsObj(b) THEN TF(keys[a[2]] < keys[b[2]])
    ELSE "E"

HasBase(c) == c.kind # "alt"

Base(c, a, b, keys) ==
    CASE c.kind \in {"lt", "ltnil", "ltf", "lt0", "errat"} -> LuaLt(a, b, keys, FALSE)
      [] c.kind = "gt"    -> LuaLt(b, a, keys, FALSE)
      [] c.kind = "mt"    -> LuaLt(a, b, keys, TRUE)
      [] c.kind = "bykey" -> (IF IsObj(a) /\ IsObj(b) THEN TF(keys[a[2]] < keys[b[2]]) ELSE "E")
      [] c.kind = "true"  -> "T"
      [] c.kind \in {"false", "none"} -> "F"

(* the answer of the k-th call *)
CallRes(c, k, a, b, keys) ==
    CASE c.kind = "alt"   -> TF(k % 2 = 1)
      [] c.kind = "errat" -> (IF k = c.j THEN "E" ELSE Base(c, a, b, keys))
      [] OTHER            -> Base(c, a, b, keys)

(* the base relation is a strict weak order on the element set E *)
IsSWO(c, E, keys) ==
    /\ HasBase(c)
    /\ \A a, b \in E : Base(c, a, b, keys) # "E"
    /\ LET lt(a, b) == Base(c, a, b, keys) = "T"
           inc(a, b) == ~lt(a, b) /\ ~lt(b, a)
       IN /\ \A a \in E : ~lt(a, a)
          /\ \A a, b, d \in E : lt(a, b) /\ lt(b, d) => lt(a, d)
          /\ \A a, b, d \in E : inc(a, b) /\ inc(b, d) => inc(a, d)

Count(xs, v) == Cardinality({i \in 1..Len(xs) : xs[i] = v})
IsPerm(xs, ys) ==
    /\ Len(xs) = Len(ys)
    /\ \A v \in Elems(xs) \cup Elems(ys) : Count(xs, v) = Count(ys, v)

Ordered(ys, c, keys) ==
    \A i, j \in 1..Len(ys) : i < j => Base(c, ys[j], ys[i], keys) # "T"

(* calls: sequence of <<a, b, r>> (the comparator calls that were logged)   *)
CallsFromList(xs, calls) == \A k \in 1..Len(calls) : calls[k][1] \in Elems(xs) /\ calls[k][2] \in Elems(xs)
(* every logged answer is the one the comparator's definition gives          *)
LogFaithful(c, calls, keys) ==
    \A k \in 1..Len(calls) : calls[k][3] = CallRes(c, k, calls[k][1], calls[k][2], keys)
(* nothing failed and nothing deviated from the base relation                *)
CallsConsistent(c, calls, keys) ==
    HasBase(c) /\ \A k \in 1..Len(calls) : calls[k][3] = Base(c, calls[k][1], calls[k][2], keys)

(* lt behaved as a strict weak order during this run *)
WellBehaved(xs, c, calls, keys) == IsSWO(c, Elems(xs), keys) /\ CallsConsistent(c, calls, keys)

(* first reason why the observed sort run is not admissible, or "".  The      *)
(* property: lt is called only with elements of t; a run that returns leaves a *)
(* permutation; if lt behaved as a strict weak order the run returns and the   *)
(* permutation is ordered; otherwise it may also end in a Lua error (nothing   *)
(* is said about the contents then).                                           *)
SortWhy(xs, c, calls, out, ys, keys) ==
    CASE out \notin {"ok", "error"}      -> "sort:outcome"    \* crash, hang
      [] ~CallsFromList(xs, calls)       -> "sort:args"       \* lt called with a non-element
      [] out = "ok" /\ ~IsPerm(xs, ys)   -> "sort:perm"       \* not a permutation of the elements
      [] WellBehaved(xs, c, calls, keys) /\ out # "ok"    -> "sort:error"
      [] WellBehaved(xs, c, calls, keys) /\ ~Ordered(ys, c, keys) -> "sort:order"
      [] OTHER -> ""

SortOK(xs, c, calls, out, ys, keys) == SortWhy(xs, c, calls, out, ys, keys) = ""
=============================================================================
