------------------------------ MODULE ListRef -------------------------------
(***************************************************************************)
(* Model check of the ListLib specification (property C18) and export of  *)
(* operation histories.                                                    *)
(*                                                                         *)
(* The table is carried twice: m, the abstract map of module Table (C09),  *)
(* manipulated by element-wise transcriptions of the reference library    *)
(* (ltablib.c / lbaselib.c of Lua 5.1.5: rawgeti/rawseti loops that start  *)
(* from ANY border of m), and xs, the sequence of module ListLib.  TLC      *)
(* checks that after every history of in-domain calls m is exactly the     *)
(* list view of xs with a unique border, that results agree and that all   *)
(* queries agree for all argument combinations; a reference insertion sort *)
(* over m with logged comparator calls must be admitted by ListLib!SortOK, *)
(* and for total orders SortOK admits exactly one value sequence.          *)
(* With Gen = TRUE the same state graph is exported as histories.          *)
(***************************************************************************)
EXTENDS ListLib, Json

CONSTANTS Vals,        \* non-nil values (set)
          ValSeq,      \* Fresh: the value used at history depth k is ValSeq[k]
          Fresh,       \* TRUE: one value per depth (exhaustive export), FALSE: any of Vals
          MaxLen,      \* bound on the list length
          MaxHist,     \* bound on the history length
          SortKinds,   \* comparator records explored by the Sort action
          Seps,        \* separator tokens for the concat law
          XKeys,       \* numeric keys outside 0..MaxLen+2 that setx may use (hash part: 1.5, 2^40, negative)
          XVals,       \* values stored under keys outside the list
          MaxEx,       \* bound on the number of keys outside the list (0: none)
          FillNs,      \* lengths used by the fill action ({}: none)
          Gen          \* "no" | "all" (one GEN line per transition) | "full" (only histories of length MaxHist)

IKeys == {<<"n", i>> : i \in 0..(MaxLen + 2)}
AllKeys == IKeys \cup XKeys
T == INSTANCE Table WITH Keys <- AllKeys, Vals <- Vals

VARIABLES m, xs, ex, res, hist
vars == <<m, xs, ex, res, hist>>
view == <<m, xs, ex, res>>

Geti(mm, i) == T!Lookup(mm, <<"n", i>>)
Seti(mm, i, v) == T!Store(mm, <<"n", i>>, v)
Borders(mm) == {b \in 0..(MaxLen + 1) : T!IsBorder(mm, b)}

(* ---- ltablib.c, lbaselib.c (Lua 5.1.5), element by element ---------------- *)

(* tinsert: e = aux_getn+1; if pos > e then e = pos;                         *)
(*          for (i = e; i > pos; i--) t[i] = t[i-1];   t[pos] = v             *)
RECURSIVE MoveUp(_, _, _)
MoveUp(mm, i, pos) == IF i > pos THEN MoveUp(Seti(mm, i, Geti(mm, i - 1)), i - 1, pos) ELSE mm
RefInsertEnd(mm, e0, v) == Seti(mm, e0 + 1, v)
RefInsert(mm, e0, pos, v) ==
    LET e == IF pos > e0 + 1 THEN pos ELSE e0 + 1 IN Seti(MoveUp(mm, e, pos), pos, v)

(* tremove: if (!(1 <= pos && pos <= e)) return 0; result = t[pos];          *)
(*          for ( ; pos < e; pos++) t[pos] = t[pos+1];   t[e] = nil           *)
RECURSIVE MoveDown(_, _, _)
MoveDown(mm, pos, e) == IF pos < e THEN MoveDown(Seti(mm, pos, Geti(mm, pos + 1)), pos + 1, e) ELSE mm
RefRemove(mm, e, pos) ==
    IF ~(1 <= pos /\ pos <= e) THEN [m |-> mm, res |-> <<>>]
    ELSE [m |-> Seti(MoveDown(mm, pos, e), e, Nil), res |-> <<Geti(mm, pos)>>]

(* tconcat: for (; i < last; i++) { addfield(i); add sep }  if (i == last) addfield(i) *)
RECURSIVE RefConcatLoop(_, _, _, _, _)
RefConcatLoop(mm, sep, i, last, acc) ==
    IF i < last
    THEN (IF ~Concatable(Geti(mm, i)) THEN [err |-> TRUE, s |-> ""]
          ELSE RefConcatLoop(mm, sep, i + 1, last, acc \o Str(Geti(mm, i)) \o sep))
    ELSE IF i = last
    THEN (IF ~Concatable(Geti(mm, i)) THEN [err |-> TRUE, s |-> ""]
          ELSE [err |-> FALSE, s |-> acc \o Str(Geti(mm, i))])
    ELSE [err |-> FALSE, s |-> acc]
RefConcat(mm, e, sep, i, j) == RefConcatLoop(mm, Opt(sep, ""), Opt(i, 1), Opt(j, e), "")

(* luaB_unpack: if (i > e) return 0; push t[i]; while (i++ < e) push t[i]      *)
RECURSIVE RefUnpackLoop(_, _, _, _)
RefUnpackLoop(mm, i, e, acc) == IF i < e THEN RefUnpackLoop(mm, i + 1, e, Append(acc, Geti(mm, i + 1))) ELSE acc
RefUnpack(mm, e0, i, j) ==
    LET a == Opt(i, 1)
        e == Opt(j, e0)
    IN IF a > e THEN <<>> ELSE RefUnpackLoop(mm, a, e, <<Geti(mm, a)>>)

(* maxn: lua_next over the whole table, the largest positive numeric key, 0 if none *)
RefMaxN(mm) ==
    LET ks == {k \in DOMAIN mm : mm[k] # Nil /\ KeyPositive(k)}
    IN IF ks = {} THEN <<"n", 0>> ELSE CHOOSE k \in ks : \A l \in ks : l = k \/ KeyLt(l, k)

(* for k=1,n do t[k] = (a*k)%m end *)
RECURSIVE RefFill(_, _, _, _, _)
RefFill(mm, k, n, a, md) == IF k > n THEN mm ELSE RefFill(Seti(mm, k, <<"n", (a * k) % md>>), k + 1, n, a, md)

(* a reference sort over m (insertion sort through rawgeti/rawseti) that     *)
(* logs every comparator call; a failing comparator aborts it                *)
RECURSIVE SortInner(_, _, _)
SortInner(st, c, j) ==
    IF j > 1 /\ st.out = "ok"
    THEN LET a == Geti(st.m, j)
             b == Geti(st.m, j - 1)
             r == CallRes(c, Len(st.calls) + 1, a, b, <<>>)
             cl == Append(st.calls, <<a, b, r>>)
         IN IF r = "T" THEN SortInner([m |-> Seti(Seti(st.m, j, b), j - 1, a), calls |-> cl, out |-> "ok"], c, j - 1)
            ELSE IF r = "F" THEN [m |-> st.m, calls |-> cl, out |-> "ok"]
            ELSE [m |-> st.m, calls |-> cl, out |-> "error"]
    ELSE st
RECURSIVE SortOuter(_, _, _, _)
SortOuter(st, c, i, n) ==
    IF i > n \/ st.out # "ok" THEN st ELSE SortOuter(SortInner(st, c, i), c, i + 1, n)
RefSort(mm, e, c) == SortOuter([m |-> mm, calls |-> <<>>, out |-> "ok"], c, 2, e)

ListOf(mm, n) == [i \in 1..n |-> Geti(mm, i)]

(* ---- the state machine ------------------------------------------------------ *)
Init ==
    /\ m = T!EmptyMap
    /\ xs = <<>>
    /\ ex = {}
    /\ res = TRUE
    /\ hist = <<>>

VN == Vals \cup {Nil}
NewVals == IF Fresh THEN {ValSeq[Len(hist) + 1], Nil} ELSE VN

Record(o) == /\ Len(hist) < MaxHist
             /\ hist' = Append(hist, o)

Mutate(o, ref) ==
    LET c == Posts(xs, ex, o)[1] IN        \* the reference is the literal transcription: first admissible post-state
    /\ InDomain(xs, ex, o)
    /\ Len(c.xs) <= MaxLen
    /\ Cardinality(c.ex) <= MaxEx
    /\ m' = ref.m
    /\ xs' = c.xs
    /\ ex' = c.ex
    /\ res' = (ref.res \in Results(xs, o))
    /\ Record(o)

(* positions explored: beyond both ends of the list; below 0 only where the key universe has -1 *)
MinPos == IF <<"n", 0 - 1>> \in AllKeys THEN 0 - 1 ELSE 0
InsPos == IF MaxEx > 0 THEN MinPos..(MaxLen + 2) ELSE 1..(MaxLen + 1)
RemPos == IF MaxEx > 0 THEN MinPos..(MaxLen + 2) ELSE 1..MaxLen

InsEnd == \E v \in NewVals, e \in Borders(m) :
    Mutate([op |-> "ins_end", v |-> v], [m |-> RefInsertEnd(m, e, v), res |-> <<>>])
Ins == \E v \in NewVals, pos \in {q \in InsPos : q <= Len(xs) + (IF MaxEx > 0 THEN 2 ELSE 1)}, e \in Borders(m) :
    Mutate([op |-> "ins", pos |-> pos, v |-> v], [m |-> RefInsert(m, e, pos, v), res |-> <<>>])
RemEnd == \E e \in Borders(m) :
    Mutate([op |-> "rem_end"], RefRemove(m, e, e))
Rem == \E pos \in {q \in RemPos : q <= Len(xs) + (IF MaxEx > 0 THEN 1 ELSE 0)}, e \in Borders(m) :
    Mutate([op |-> "rem", pos |-> pos], RefRemove(m, e, pos))
Set == \E v \in NewVals, i \in 1..(MaxLen + 1) :
    Mutate([op |-> "set", i |-> i, v |-> v], [m |-> Seti(m, i, v), res |-> <<>>])
Sort == \E c \in SortKinds, e \in Borders(m) :
    LET r == RefSort(m, e, c) IN
    /\ InDomain(xs, ex, [op |-> "sort"])
    /\ ex' = ex
    /\ m' = r.m
    /\ xs' = ListOf(r.m, e)
    /\ res' = SortOK(xs, c, r.calls, r.out, ListOf(r.m, e), <<>>)
    /\ Record([op |-> "sort", cmp |-> c])

Fill == \E n \in FillNs :
    Mutate([op |-> "fill", n |-> n, a |-> 1, m |-> 4], [m |-> RefFill(m, 1, n, 1, 4), res |-> <<>>])
(* t[k] = v for a numeric key outside the list *)
SetX == \E k \in AllKeys, v \in XVals \cup {Nil} :
    LET o == [op |-> "setx", k |-> k, v |-> v] IN
    /\ MaxEx > 0
    /\ InDomain(xs, ex, o)
    /\ Cardinality(PostEx(xs, ex, o)) <= MaxEx
    /\ m' = T!Store(m, k, v)
    /\ ex' = PostEx(xs, ex, o)
    /\ xs' = xs
    /\ res' = TRUE
    /\ Record(o)

(* table.insert(t, pos, v, extra): tinsert raises "wrong number of arguments to 'insert'" *)
InsX == \E v \in NewVals \ {Nil}, pos \in 1..2 :
    /\ MaxEx > 0
    /\ Mutate([op |-> "insx", pos |-> pos, v |-> v], [m |-> m, res |-> <<>>])

Next == InsEnd \/ Ins \/ RemEnd \/ Rem \/ Set \/ Sort \/ Fill \/ SetX \/ InsX

(* random export (TLC -simulate): the kind of call is drawn first so that the *)
(* mix of calls does not depend on how many argument combinations a kind has  *)
SimNext ==      \* each RandomElement is a fresh draw: 1/6, 1/6, 1/6, 1/6, 1/4, 1/12
    CASE HoleKeys(ex) # {} -> SetX        \* list calls are outside the domain until the key beyond the hole is cleared
      [] RandomElement(1..6) = 1 -> InsEnd
      [] RandomElement(1..5) = 1 -> (IF RandomElement(1..8) = 1 THEN InsX ELSE Ins)
      [] RandomElement(1..4) = 1 -> (IF xs = <<>> THEN InsEnd ELSE RemEnd)
      [] RandomElement(1..3) = 1 -> (IF xs = <<>> THEN Ins ELSE Rem)
      [] RandomElement(1..4) # 1 -> (IF RandomElement(1..4) = 1 THEN SetX ELSE Set)
      [] OTHER -> Sort
SimSpec == Init /\ [][SimNext]_vars
Spec == Init /\ [][Next]_vars

(* ---- what TLC checks ----------------------------------------------------------- *)
(* m is the list view of xs: t[i] = xs[i] on 1..n, nil elsewhere; the border is unique *)
ListView ==
    /\ IsList(xs)
    /\ \A i \in (0 - 1)..(MaxLen + 2) : Geti(m, i) = TAt(xs, ex, i)
    /\ \A k \in XKeys : T!Lookup(m, k) = ExGet(ex, k)
    /\ Len(xs) \in Borders(m)
    /\ (HoleKeys(ex) = {} => Borders(m) = {Len(xs)})
(* results of the reference call are admitted by ListLib; sort runs are admitted by SortOK *)
ResultsAgree == res

OptInts == {Nil} \cup {<<"n", i>> : i \in (0 - 1)..(MaxLen + 2)}
SepBytes(sep) == IF sep = Nil THEN <<>> ELSE <<44>>      \* Seps holds nil and ","
(* an independent, linear definition of the digest: the bytes of the join, hashed left to right *)
RECURSIVE NatBytes(_)
NatBytes(k) == IF k < 10 THEN <<48 + k>> ELSE Append(NatBytes(k \div 10), 48 + (k % 10))
RECURSIVE JoinBytes(_, _, _)
JoinBytes(sb, a, b) ==
    IF a > b THEN <<>>
    ELSE NatBytes(TAt(xs, ex, a)[2]) \o (IF a < b THEN sb \o JoinBytes(sb, a + 1, b) ELSE <<>>)
RECURSIVE Roll(_, _, _, _)
Roll(bs, k, h, p) == IF k > Len(bs) THEN h ELSE Roll(bs, k + 1, (h * 31 + bs[k]) % p, p)
QueriesAgree ==
    /\ RefMaxN(m) = MaxN(xs, ex)
    /\ HoleKeys(ex) = {} =>
        \A e \in Borders(m) :
          /\ e = GetN(xs)
          /\ \A i, j \in OptInts :
               /\ RefUnpack(m, e, i, j) = Unpack(xs, ex, i, j)
               /\ \A sep \in Seps :
                    LET a == RefConcat(m, e, sep, i, j)
                        b == Concat(xs, ex, sep, i, j)
                        d == ConcatDigest(xs, ex, SepBytes(sep), i, j)
                    IN /\ a.err = b.err /\ (~a.err => a.s = b.s)
                       /\ d.err = b.err
                       /\ (~d.err /\ d.sup =>
                             LET bs == JoinBytes(SepBytes(sep), Opt(i, 1), Opt(j, e))
                             IN /\ d.d.len = Len(b.s) /\ d.d.len = Len(bs)    \* the digest counts the bytes of the join
                                /\ d.d.h1 = Roll(bs, 1, 0, P1) /\ d.d.h2 = Roll(bs, 1, 0, P2))

(* sort laws on every reachable list: for a comparator that is a strict weak *)
(* order, SortOK admits a permutation iff it is ordered; for a total order on *)
(* the values exactly one value sequence is admitted (the reference result); *)
(* losing or duplicating an element and crashing are never admitted           *)
PermsOf(s) == {[i \in 1..Len(s) |-> s[p[i]]] : p \in Permutations(1..Len(s))}
SortLaws ==
    \A c \in SortKinds :
      LET r == RefSort(m, Len(xs), c)
          ys0 == ListOf(r.m, Len(xs))
          swo == IsSWO(c, Elems(xs), <<>>)
          adm == {ys \in PermsOf(xs) : SortOK(xs, c, <<>>, "ok", ys, <<>>)}
      IN /\ SortOK(xs, c, r.calls, r.out, ys0, <<>>)
         /\ LogFaithful(c, r.calls, <<>>)
         /\ (WellBehaved(xs, c, r.calls, <<>>) => r.out = "ok" /\ ys0 \in adm)
         /\ (swo => adm = {ys \in PermsOf(xs) : Ordered(ys, c, <<>>)} /\ adm # {})
         /\ (swo /\ c.kind \in {"lt", "ltf", "gt", "lt0", "errat"} => \A ys \in adm : ys = ys0 \/ r.out # "ok")
         /\ (~swo => adm = PermsOf(xs) /\ \A ys \in adm : SortOK(xs, c, <<>>, "error", ys, <<>>))
         /\ ~SortOK(xs, c, <<>>, "crash", ys0, <<>>)
         /\ (~swo /\ Len(xs) >= 1 => SortOK(xs, c, <<>>, "error", Tail(ys0), <<>>))   \* after an error nothing is promised
         /\ (Len(xs) >= 1 => ~SortOK(xs, c, <<>>, "ok", Tail(ys0), <<>>))
         /\ (Len(xs) >= 2 /\ xs[1] # xs[2] => ~SortOK(xs, c, <<>>, "ok", [xs EXCEPT ![1] = xs[2]], <<>>))
         /\ (Len(xs) >= 1 => ~SortOK(xs, c, <<<<Nil, xs[1], "F">>>>, "ok", ys0, <<>>))

(* ---- GEN ------------------------------------------------------------------------- *)
GenPrint ==
    CASE Gen = "all"  -> PrintT("GEN " \o ToJson([h |-> hist']))
      [] Gen = "full" -> (Len(hist') = MaxHist => PrintT("GEN " \o ToJson([h |-> hist'])))
      [] OTHER -> TRUE
=============================================================================
