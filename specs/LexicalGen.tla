----------------------------- MODULE LexicalGen -----------------------------
(***************************************************************************)
(* Expected results for the conformance runs of property C16, computed by  *)
(* TLC from module Lexical; one "GEN <json>" line per case.                 *)
(*   Mode "lit":  every byte string s up to MaxLen over StrAlpha, written   *)
(*                in every literal form that denotes it                     *)
(*   Mode "src":  literal SOURCE texts: every sequence of up to MaxLen      *)
(*                atoms (escapes, line breaks, brackets, raw bytes) between *)
(*                each pair of delimiters, with what it denotes             *)
(*   Mode "num":  every byte string up to MaxLen over NumAlpha with its     *)
(*                value for each number reader                              *)
(*   Mode "file": the inputs listed in File, one JSON record per line:      *)
(*                {id, k: "num", s} numeral candidate, {id, k: "lit", t}    *)
(*                literal source text                                       *)
(***************************************************************************)
EXTENDS Lexical, TLC, Json

CONSTANTS Mode, MaxLen, File, NChunks

StrAlpha == {0, 10, 13, 34, 39, 48, 92, 93, 97, 255}
NumAlpha == {48, 49, 57, 120, 88, 97, 102, 101, 69, 46, 45, 43, 32, 95}

Atoms == <<
    <<92, 97>>, <<92, 98>>, <<92, 102>>, <<92, 110>>, <<92, 114>>, <<92, 116>>, <<92, 118>>,
    <<92, 92>>, <<92, 34>>, <<92, 39>>,
    <<92, 10>>, <<92, 13>>, <<92, 13, 10>>, <<92, 10, 13>>,
    <<92, 48>>, <<92, 48, 48>>, <<92, 48, 48, 48>>, <<92, 49, 48>>, <<92, 57>>, <<92, 49, 50, 51>>,
    <<92, 50, 53, 53>>, <<92, 50, 53, 54>>, <<92, 57, 57, 57>>,
    <<92, 120>>, <<92, 122>>, <<92>>, <<92, 255>>, <<92, 0>>,
    <<48>>, <<52>>, <<97>>, <<32>>, <<10>>, <<13>>, <<13, 10>>, <<34>>, <<39>>,
    <<93>>, <<93, 93>>, <<93, 61, 93>>, <<91>>, <<91, 91>>, <<91, 61, 91>>, <<61>>,
    <<0>>, <<255>>, <<45, 45>> >>

Delims == << <<"dq", <<34>>, <<34>> >>, <<"sq", <<39>>, <<39>> >>,
             <<"l0", <<91, 91>>, <<93, 93>> >>, <<"l1", <<91, 61, 91>>, <<93, 61, 93>> >> >>

(* Mode "nc": long brackets of level 0..3 whose body holds a near-closer - "]" and 0..3 "=", with or      *)
(* without a second "]" (closers of lower and higher level, and the unterminated one of equal level) -   *)
(* directly before each kind of line end, before other text and at the end of the body, after each kind  *)
(* of body start.  The literals that end early (kind "partial") are dropped by the check.                *)
NcEnds == << <<>>, <<10>>, <<13>>, <<13, 10>>, <<10, 13>>, <<10, 10>>, <<13, 13>>, <<120>>, <<61>> >>
NcStarts == << <<>>, <<97>>, <<10>>, <<13, 10>>, <<10, 97>>, <<93>> >>
NcTails == << <<>>, <<98>>, <<10>>, <<13>>, <<93>> >>
NcCase(lvl, k, br, e, p, q) ==
    LET body == NcStarts[p] \o <<93>> \o Rep(61, k) \o (IF br THEN <<93>> ELSE <<>>) \o NcEnds[e] \o NcTails[q]
        full == LongOpen(lvl) \o body \o LongClose(lvl)
        r == Denote(full)
    IN [t |-> full, kind |-> r.kind, v |-> r.val]

Data == IF Mode = "file" THEN ndJsonDeserialize(File) ELSE <<>>

VARIABLE st     \* <<"w", s>> walking strings; <<"root">>, <<"chunk", c>>, <<"item", i>> in file mode

AlphaOf == CASE Mode = "lit" -> StrAlpha [] Mode = "num" -> NumAlpha
             [] Mode = "src" -> 1..Len(Atoms) [] OTHER -> {}

Init == st = IF Mode = "file" THEN <<"root">> ELSE IF Mode = "nc" THEN <<"ncroot">> ELSE <<"w", <<>>>>
Next == \/ /\ st[1] = "w"
           /\ Len(st[2]) < MaxLen
           /\ \E c \in AlphaOf : st' = <<"w", Append(st[2], c)>>
        \/ /\ st[1] = "ncroot"
           /\ \E lvl \in 0..3, k \in 0..3 : st' = <<"nc", lvl, k>>
        \/ /\ st[1] = "root"
           /\ \E c \in 0..(NChunks - 1) : st' = <<"chunk", c>>
        \/ /\ st[1] = "chunk"
           /\ \E i \in {j \in 1..Len(Data) : j % NChunks = st[2]} : st' = <<"item", i>>
Spec == Init /\ [][Next]_st

Bases == <<2, 8, 16, 36>>
NumCase(s) == [s |-> s, n |-> Numeral(s), lx |-> LexNumeral(s),
               b |-> [i \in 1..Len(Bases) |-> NumeralBase(s, Bases[i])]]

Denotes(text, v) == LET r == Denote(text) IN r.kind = "ok" /\ r.val = v

SrcText(ix) == Flat([i \in 1..Len(ix) |-> Atoms[ix[i]]])
SrcCase(ix) ==
    LET body == SrcText(ix) IN
    [i \in 1..Len(Delims) |->
        LET full == Delims[i][2] \o body \o Delims[i][3]
            r == Denote(full)
        IN [t |-> full, kind |-> r.kind, v |-> r.val]]

GenPrint ==
    CASE st[1] = "w" /\ Mode = "lit" ->
            PrintT("GEN " \o ToJson([s |-> st[2],
                forms |-> [F \in {G \in Forms : Denotes(Render(G, st[2]), st[2])} |-> Render(F, st[2])]]))
      [] st[1] = "w" /\ Mode = "num" -> PrintT("GEN " \o ToJson(NumCase(st[2])))
      [] st[1] = "w" /\ Mode = "src" -> PrintT("GEN " \o ToJson([c |-> SrcCase(st[2])]))
      [] st[1] = "nc" ->
            PrintT("GEN " \o ToJson([c |-> [x \in {<<br, e, p, q>> : br \in BOOLEAN, e \in 1..Len(NcEnds), p \in 1..Len(NcStarts),
                                                     q \in 1..Len(NcTails)} |->
                                             NcCase(st[2], st[3], x[1], x[2], x[3], x[4])]]))
      [] st[1] = "item" ->
            LET d == Data[st[2]] IN
            IF d.k = "tnb" THEN PrintT("GEN " \o ToJson([id |-> d.id, r |-> ToNumberStr(d.s, d.b)]))
            ELSE IF d.k = "tnn" THEN PrintT("GEN " \o ToJson([id |-> d.id, r |-> ToNumberNum(d.n, d.b)]))
            ELSE IF d.k = "lit"
            THEN LET r == Denote(d.t) IN PrintT("GEN " \o ToJson([id |-> d.id, kind |-> r.kind, v |-> r.val]))
            ELSE PrintT("GEN " \o ToJson([id |-> d.id] @@ NumCase(d.s)))
      [] OTHER -> TRUE
=============================================================================
