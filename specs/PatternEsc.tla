----------------------------- MODULE PatternEsc -----------------------------
(***************************************************************************)
(* C14: bounded-exhaustive scope dedicated to '%' escapes.  For every byte *)
(* x of PAlpha (class letters and non-class letters of both cases, digits, *)
(* punctuation, bytes >= 128) the patterns "%x" and a fixed list of shapes *)
(* around it, outside and inside sets, are judged against every subject of *)
(* at most one byte of SAlpha (which contains x, its other-case twin and   *)
(* neutral bytes).  The laws and the export of PatternMC are instantiated  *)
(* on that pattern.                                                        *)
(***************************************************************************)
EXTENDS Integers, Sequences, TLC, Json

CONSTANTS PAlpha,    \* escaped bytes x
          SAlpha,    \* subject bytes
          MaxP,      \* number of shapes used (a prefix of Shapes)
          MaxS

VARIABLE st          \* <<>>, <<x>>, <<x, shape>>

E(x) == <<37, x>>
Shapes(x) == << E(x) \o <<43>>,                    \* %x+
                <<91>> \o E(x) \o <<93>>,          \* [%x]
                <<91, 94>> \o E(x) \o <<93>>,      \* [^%x]
                <<94>> \o E(x) \o <<63, 36>>,      \* ^%x?$
                E(x) \o <<45>>,                    \* %x-
                <<91>> \o E(x) \o <<35, 93>> >>    \* [%x#]
NShapes == IF MaxP < 6 THEN MaxP ELSE 6

EscPat == IF st = <<>> THEN <<>>
          ELSE IF Len(st) = 1 THEN E(st[1])
          ELSE Shapes(st[1])[st[2]]

M == INSTANCE PatternMC WITH First <- PAlpha, pat <- EscPat

Init == st = <<>>
Next == \/ st = <<>> /\ \E x \in PAlpha : st' = <<x>>
        \/ Len(st) = 1 /\ \E k \in 1..NShapes : st' = <<st[1], k>>
Spec == Init /\ [][Next]_st

LawWellFormed == M!LawWellFormed
LawRegular == M!LawRegular
LawCaptures == M!LawCaptures
LawDrivers == M!LawDrivers

GenPrint ==
    /\ st = <<>> => PrintT("hdr " \o ToJson(M!Header))
    /\ PrintT("gen " \o ToJson([p |-> EscPat,
                                r |-> [j \in 1..Len(M!SubjSeq) |-> M!Code(M!SubjSeq[j], EscPat)]]))
=============================================================================
