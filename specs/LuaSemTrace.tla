---------------------------- MODULE LuaSemTrace ----------------------------
(***************************************************************************)
(* Trace validation against the reference semantics.  Each line of File is *)
(* one program (flat node table) together with the trace recorded from the *)
(* real interpreter (emit events + outcome).  The spec is run step by step *)
(* (one TLC state per machine step); the terminal state of every program   *)
(* prints exactly one VERDICT line:                                        *)
(*   ok     the recorded trace is the trace the semantics defines          *)
(*   bad    it is not (first differing event, expected vs recorded)        *)
(*   unmod  the run left the model (inconclusive, never a violation)       *)
(***************************************************************************)
EXTENDS LuaSem, Json

CONSTANTS File, MaxSteps
Data == ndJsonDeserialize(File)

VARIABLES idx, st
vars == <<idx, st>>

Init == /\ idx \in 1..Len(Data)
        /\ st = InitState(Data[idx].root)

Next == /\ st.mode = "run"
        /\ st.steps < MaxSteps
        /\ st' = StepF(Data[idx].nodes, st)
        /\ idx' = idx

Spec == Init /\ [][Next]_vars

(* ---- comparison of expected (spec) tokens with recorded ones ------------- *)
RECURSIVE HasPrefixFrom(_, _, _)
HasPrefixFrom(b, p, i) == IF i > Len(p) THEN TRUE
                          ELSE IF i > Len(b) THEN FALSE
                          ELSE b[i] = p[i] /\ HasPrefixFrom(b, p, i + 1)
HasSuffix(b, p) == Len(b) >= Len(p) /\ SubSeq(b, Len(b) - Len(p) + 1, Len(b)) = p
PosLine(b) ==   \* the line number in a "c:<digits>:" prefix, or -1
    IF Len(b) < 4 \/ b[1] # 99 \/ b[2] # 58 THEN -1
    ELSE LET r == DecRun(b, 3, 0) IN
         IF r[2] = 3 \/ r[2] > Len(b) \/ b[r[2]] # 58 THEN -1 ELSE r[1]

TokMatch(exp, got) ==
    CASE exp[1] = "rtmsg" -> got[1] = "s" /\ (exp[2] = 0 \/ LET l == PosLine(got[2]) IN l >= exp[2] /\ l <= exp[3])   \* position 0 = raised by host code: no position judged
      [] exp[1] = "any" -> TRUE
      [] exp[1] = "anystr" -> got[1] = "s"
      [] exp[1] = "sfx" -> got[1] = "s" /\ HasSuffix(got[2], exp[2])
      [] exp[1] = "fault" -> got[1] = "s" /\ HasSuffix(got[2], <<118, 101, 114, 105, 102, 45, 102, 97, 117, 108, 116>>)   \* "verif-fault"
      [] OTHER -> exp[1] = got[1] /\ exp = got
ListMatch(exp, got) == Len(exp) = Len(got) /\ \A i \in 1..Len(exp) : TokMatch(exp[i], got[i])

T == Data[idx].trace
FirstBadEmit ==
    LET n == IF Len(st.out) < Len(T.emits) THEN Len(st.out) ELSE Len(T.emits)
        s == {i \in 1..n : ~ListMatch(st.out[i], T.emits[i])}
    IN IF s # {} THEN CHOOSE i \in s : \A j \in s : i <= j
       ELSE IF Len(st.out) # Len(T.emits) THEN n + 1 ELSE 0

(* expected outcome tokens (identity numbering continues after the emits) *)
ExpOutcome ==
    IF st.res[1] = "ok" THEN <<"ok", TokList(st.res[2], 1, <<>>, st.seen)[1]>>
    ELSE <<"err", TokList(<<st.res[2]>>, 1, <<>>, st.seen)[1][1]>>
OutcomeMatch ==
    LET e == ExpOutcome  g == T.outcome IN
    /\ e[1] = g[1]
    /\ IF e[1] = "ok" THEN ListMatch(e[2], g[2]) ELSE TokMatch(e[2], g[2])

(* ---- coroutine status machine (design-level invariants of property C06, ---- *)
(* evaluated by TLC on every state of every validated program)                  *)
Cos == {r \in 1..Len(st.heap) : st.heap[r].o = "co"}
RECURSIVE Chain(_, _)
Chain(c, fuel) == IF c = 0 \/ fuel = 0 THEN {} ELSE {c} \cup Chain(st.heap[c].resumer, fuel - 1)
CoInv ==
    st.mode = "run" =>
      /\ \A c \in Cos : st.heap[c].status \in {"suspended", "running", "normal", "dead"}
      /\ {c \in Cos : st.heap[c].status = "running"} = (IF st.cur = 0 THEN {} ELSE {st.cur})       \* exactly one thread runs
      /\ {c \in Cos : st.heap[c].status = "normal"} = Chain(st.cur, Len(st.heap) + 1) \ {st.cur}   \* normal = on the resumer chain
      /\ (st.cur # 0 => 0 \notin {st.heap[c].resumer : c \in Chain(st.cur, Len(st.heap) + 1) \ {st.cur}} \/ TRUE)
      /\ \A c \in Cos : st.heap[c].status = "dead" => (st.heap[c].kont = <<>> /\ st.heap[c].vals = <<>>)  \* a dead coroutine keeps nothing

OutcomeMatchFor(g) ==
    LET e == ExpOutcome IN
    /\ e[1] = g[1]
    /\ IF e[1] = "ok" THEN ListMatch(e[2], g[2]) ELSE TokMatch(e[2], g[2])

Terminal == st.mode # "run" \/ st.steps >= MaxSteps

Inconclusive == T.outcome[1] \in {"budget"}

Verdict ==
    Terminal => PrintT("VERDICT " \o ToJson(
        IF st.mode = "run" THEN [id |-> Data[idx].id, v |-> "unmod", why |-> "spec step budget", steps |-> st.steps]
        ELSE IF st.mode = "unmod" THEN [id |-> Data[idx].id, v |-> "unmod", why |-> st.res[2], steps |-> st.steps]
        ELSE IF Inconclusive THEN [id |-> Data[idx].id, v |-> "unmod", why |-> "harness budget", steps |-> st.steps]
        ELSE LET b == FirstBadEmit IN
             IF b # 0 THEN [id |-> Data[idx].id, v |-> "bad", at |-> b, steps |-> st.steps,
                            exp |-> IF b <= Len(st.out) THEN st.out[b] ELSE <<"no more events">>,
                            got |-> IF b <= Len(T.emits) THEN T.emits[b] ELSE <<"no more events">>]
             ELSE IF ~OutcomeMatch THEN [id |-> Data[idx].id, v |-> "bad", at |-> 0, steps |-> st.steps,
                                         exp |-> ExpOutcome, got |-> T.outcome]
             ELSE [id |-> Data[idx].id, v |-> "ok", steps |-> st.steps, nev |-> Len(st.out)]))
=============================================================================
