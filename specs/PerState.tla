------------------------------ MODULE PerState ------------------------------
(***************************************************************************)
(* Property C13, "states never interfere": every piece of interpreter-     *)
(* owned MUTABLE state that a script can reach or influence belongs to     *)
(* exactly one state (one Global, shared only by that state's own          *)
(* threads).  Two instances are modelled, one for each way a script gets   *)
(* at such state:                                                          *)
(*   by behaviour - the random generator behind math.random/randomseed:    *)
(*                  Seed(s, v) and Random(s) act on rng[s] only;           *)
(*   by reference - objects the interpreter hands to scripts, e.g. the     *)
(*                  marker require() keeps in package.loaded[name] while a *)
(*                  module loads: Mark(s, v) / Look(s) act on the object   *)
(*                  own[s], and the objects of different states are        *)
(*                  different objects.                                     *)
(* The laws: Disjoint (no object is reachable from two states) and AsAlone *)
(* (in EVERY interleaving each state observes exactly what it observes     *)
(* when it runs its own operations alone).  PerStateTrace.tla binds both   *)
(* to the real code with the operators SharedIds and Deviating.            *)
(***************************************************************************)
EXTENDS Integers, Sequences, FiniteSets

(* ---- operators shared with the trace specification ---------------------- *)
(* own: sequence (one entry per state) of sequences of object identities   *)
IdSet(ids) == {ids[i] : i \in 1..Len(ids)}
SharedIdsOf(own) ==
    UNION {UNION {IdSet(own[s]) \cap IdSet(own[t]) : t \in (s + 1)..Len(own)} : s \in 1..Len(own)}
Disjoint(own) == SharedIdsOf(own) = {}

(* runs[i] = [w, fp]: a state that was given parameter w observed fp; solo[w+1]: the same   *)
(* program with the same parameter run alone                                               *)
Deviating(solo, runs) == {i \in 1..Len(runs) : runs[i].fp # solo[runs[i].w + 1]}

(* ---- the design ----------------------------------------------------------- *)
CONSTANTS NStates, Seeds, Marks, MaxOps

Draw(r) == (r[1] * 7 + r[2] * 3 + 1) % 11         \* r = <<seed, draws so far>>
Rng0 == <<0, 0>>

VARIABLES rng,     \* per state: its generator
          own,     \* per state: identity and content of its marker object
          prog,    \* per state: the operations it performed
          seen     \* per state: what it observed
vars == <<rng, own, prog, seen>>

States == 1..NStates
Init == /\ rng = [s \in States |-> Rng0]
        /\ own = [s \in States |-> [id |-> s, mark |-> 0]]
        /\ prog = [s \in States |-> <<>>]
        /\ seen = [s \in States |-> <<>>]

Can(s) == Len(prog[s]) < MaxOps
Seed(s, v) == /\ Can(s)
              /\ rng' = [rng EXCEPT ![s] = <<v, 0>>]
              /\ prog' = [prog EXCEPT ![s] = Append(@, <<"seed", v>>)]
              /\ UNCHANGED <<own, seen>>
Random(s) == /\ Can(s)
             /\ seen' = [seen EXCEPT ![s] = Append(@, Draw(rng[s]))]
             /\ rng' = [rng EXCEPT ![s] = <<@[1], @[2] + 1>>]
             /\ prog' = [prog EXCEPT ![s] = Append(@, <<"random", 0>>)]
             /\ UNCHANGED own
Mark(s, v) == /\ Can(s)
              /\ own' = [own EXCEPT ![s].mark = v]
              /\ prog' = [prog EXCEPT ![s] = Append(@, <<"mark", v>>)]
              /\ UNCHANGED <<rng, seen>>
Look(s) == /\ Can(s)
           /\ seen' = [seen EXCEPT ![s] = Append(@, own[s].mark)]
           /\ prog' = [prog EXCEPT ![s] = Append(@, <<"look", 0>>)]
           /\ UNCHANGED <<rng, own>>

Next == \E s \in States : \/ Random(s) \/ Look(s)
                          \/ \E v \in Seeds : Seed(s, v)
                          \/ \E v \in Marks : Mark(s, v)
Spec == Init /\ [][Next]_vars

(* what a state observes when it performs the operations p alone *)
RECURSIVE Alone(_, _, _, _)
Alone(p, r, m, out) ==
    IF p = <<>> THEN out
    ELSE LET o == Head(p) IN
         CASE o[1] = "seed" -> Alone(Tail(p), <<o[2], 0>>, m, out)
           [] o[1] = "random" -> Alone(Tail(p), <<r[1], r[2] + 1>>, m, Append(out, Draw(r)))
           [] o[1] = "mark" -> Alone(Tail(p), r, o[2], out)
           [] OTHER -> Alone(Tail(p), r, m, Append(out, m))

AsAlone == \A s \in States : seen[s] = Alone(prog[s], Rng0, 0, <<>>)
OwnDisjoint == Disjoint([s \in States |-> <<own[s].id>>])
=============================================================================
