----------------------------- MODULE FramesTrace -----------------------------
(* Validates recorded accessor snapshots (one run per line of File) against   *)
(* the invariants and bracket laws of module Frames; one VERDICT per run.     *)
EXTENDS Frames, TLC, Json

CONSTANT File
Data == ndJsonDeserialize(File)
VARIABLE idx
Init == idx \in 1..Len(Data)
Next == FALSE /\ idx' = idx
Spec == Init /\ [][Next]_idx

Snaps == Data[idx].snaps
Lua(tag) == {i \in 1..Len(Snaps) : Snaps[i].at = "lua" /\ Snaps[i].tag = tag}
Tags == {Snaps[i].tag : i \in {j \in 1..Len(Snaps) : Snaps[j].at = "lua"}}
GoB == {i \in 1..Len(Snaps) : Snaps[i].at = "go-before"}
GoA == {i \in 1..Len(Snaps) : Snaps[i].at = "go-after"}

(* first problem of the run, as <<rule, snapshot index>>, or <<"", 0>> *)
Problem ==
    LET inv == {i \in 1..Len(Snaps) : FirstBroken(Snaps[i]) # ""}
        NextSame(i) == LET S == {j \in (i + 1)..Len(Snaps) : Snaps[j].at = "lua" /\ Snaps[j].tag = Snaps[i].tag}
                       IN IF S = {} THEN 0 ELSE CHOOSE j \in S : \A k \in S : j <= k
        pairs == {i \in 1..Len(Snaps) : Snaps[i].at = "lua" /\ NextSame(i) # 0 /\ SamePlace(Snaps[i], Snaps[NextSame(i)]) # ""}
    IN IF inv # {} THEN LET i == CHOOSE x \in inv : \A y \in inv : x <= y IN <<FirstBroken(Snaps[i]), i>>
       ELSE IF GoB # {} /\ GoA # {} /\ GoBracket(Snaps[CHOOSE x \in GoB : TRUE], Snaps[CHOOSE x \in GoA : TRUE], Data[idx].nres) # ""
            THEN <<GoBracket(Snaps[CHOOSE x \in GoB : TRUE], Snaps[CHOOSE x \in GoA : TRUE], Data[idx].nres), CHOOSE x \in GoA : TRUE>>
       ELSE IF pairs # {} THEN LET i == CHOOSE x \in pairs : \A y \in pairs : x <= y IN <<SamePlace(Snaps[i], Snaps[NextSame(i)]), NextSame(i)>>
       ELSE <<"", 0>>

Verdict == PrintT("VERDICT " \o ToJson([id |-> Data[idx].id, ok |-> Problem[1] = "", rule |-> Problem[1], at |-> Problem[2], n |-> Len(Snaps)]))
=============================================================================
