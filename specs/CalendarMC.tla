----------------------------- MODULE CalendarMC -----------------------------
(***************************************************************************)
(* Mode "mc":  laws of module Calendar checked by TLC on every instant of   *)
(*             a grid (windows around all month boundaries of Years, one    *)
(*             instant per calendar day, anchors), for several offsets.     *)
(* Mode "gen": expected os.date / os.time results for the instants of       *)
(*             GenGrid and ExtraFile in the zone (Offset, ZoneName); one GEN    *)
(*             line per instant, consumed by lib/checks/c16.py.             *)
(* Mode "fmt": expected os.date results for a matrix of formats (every      *)
(*             directive alone, next to literal text, next to %%, and every *)
(*             ordered pair of directives) at the instants of ExtraFile.    *)
(***************************************************************************)
EXTENDS Calendar, FiniteSets, Json

CONSTANTS Mode, OffsetAbs, OffsetWest, ZoneName, ExtraFile, Years
(* the zone is Offset seconds east of UTC (a cfg file cannot hold a negative number) *)
Offset == IF OffsetWest THEN 0 - OffsetAbs ELSE OffsetAbs

(* further instants chosen by the check (seeded random), one JSON record {t} per line *)
Extra == IF ExtraFile = "" THEN {}
         ELSE LET d == ndJsonDeserialize(ExtraFile) IN {d[i].t : i \in 1..Len(d)}

VARIABLE st      \* <<"root">>, <<"chunk", y>> (one per year; 0 = the rest), <<"t", instant>>
(* two levels so that TLC's workers share the instants (initial states are computed by one thread) *)

Midnight(y, m, d) == SecondsOf([year |-> y, month |-> m, day |-> d, hour |-> 0, min |-> 0, sec |-> 0], 0)

(* Mode "mc" *)
MonthWindows(y, w) == UNION {{Midnight(y, m, 1) + d : d \in (0 - w)..w} : m \in 1..12}
DaysOf(y) == {(DayOfJan1(y) + k) * 86400 + 43200 + 17 * ((y * 366 + k) % 3600) : k \in 0..(DaysInYear(y) - 1)}
Anchors == {0, 1, -1, 951782400, 1000000000, 2147483647 - 86400, 86399, 86400, -86400, -2147483647 + 86400}
MCPiece(y) == IF y = 0 THEN Anchors ELSE MonthWindows(y, 2) \cup DaysOf(y)

(* Mode "gen": instants at which some rendered field changes: month starts, noon / 1 o'clock *)
(* (AM/PM, %I), minute and hour carries, on the first of every month                         *)
DayMarks == {-1, 0, 1, 59, 60, 3599, 3600, 43199, 43200, 46799, 46800, 86399}
GenPiece(y) == IF y = 0 THEN {d * 86400 + 3661 * (d % 24) : d \in 0..400} \cup Extra
               ELSE UNION {{Midnight(y, m, 1) - Offset + d : d \in DayMarks} : m \in 1..12}

(* Mode "fmt": the format matrix.  ExtraFile holds one record {t, bind} per instant; bind maps every   *)
(* directive to what the real code rendered for it alone.  A bound text is used only where the        *)
(* property leaves the text open: %c (the locale's layout) and %j %U %W handed back unchanged (not     *)
(* offered); every other directive is rendered by Dir.  A format denotes the concatenation of its      *)
(* pieces: literal text copied, each directive rendered independently of its neighbours.               *)
Bound == IF Mode = "fmt" THEN ndJsonDeserialize(ExtraFile) ELSE <<>>
FmtDirs == <<"a", "A", "b", "B", "c", "d", "H", "I", "j", "m", "M", "p", "S", "U", "w", "W", "x", "X", "y", "Y", "Z", "%",
             "F", "P", "z">>
OpenDir(X, b) == X = "c" \/ (X \in {"j", "U", "W"} /\ b[X] = "%" \o X)
Piece(item, f, b) == IF item[1] = "l" THEN item[2]
                     ELSE IF OpenDir(item[2], b) THEN b[item[2]] ELSE Dir(item[2], f, Offset, ZoneName)
D(X) == <<"d", X>>
L(x) == <<"l", x>>
RECURSIVE FlatSeq(_)
FlatSeq(ss) == IF Len(ss) = 0 THEN <<>> ELSE Head(ss) \o FlatSeq(Tail(ss))
FormatsOf(X) ==
    << <<D(X)>>, <<D(X), L("z")>>, <<D(X), L("-")>>, <<D(X), L(" "), D(X)>>,
       <<L("a"), D(X), L("b"), D(X), L("c")>>, <<D(X), D("%")>>, <<D("%"), D(X)>>, <<D(X), L(" day "), D(X), L("d")>> >>
    \o FlatSeq([k \in 1..Len(FmtDirs) |->
          << <<D(X), D(FmtDirs[k])>>, <<D(X), L("d"), D(FmtDirs[k])>>,
             <<D(X), L("H"), D(FmtDirs[k])>>, <<D(X), L("Y"), D(FmtDirs[k])>> >>])
RECURSIVE FmtText(_)
FmtText(items) == IF Len(items) = 0 THEN ""
                  ELSE (IF Head(items)[1] = "d" THEN "%" \o Head(items)[2] ELSE Head(items)[2]) \o FmtText(Tail(items))

(* instants far outside 32 bits (years <= 0, far future), as <<day number, second of day>>: every month *)
(* boundary and every 37th day of WideYears; Mode "wide" adds the pairs {d, s} of ExtraFile            *)
WideYears == {-200000, -100001, -100000, -9999, -4713, -1001, -1000, -401, -400, -399, -101, -100, -99, -5, -4, -3, -1,
              0, 1, 4, 99, 100, 400, 999, 1000, 1582, 1600, 1899, 1900, 1901, 2038, 2039, 2100, 2400, 9999, 10000,
              99999, 100000, 200000}
WidePiece(y) ==
    UNION {{<<DayOfJan1(y) + DaysBeforeMonth(y, m) - 1, 86399>>, <<DayOfJan1(y) + DaysBeforeMonth(y, m), 0>>,
            <<DayOfJan1(y) + DaysBeforeMonth(y, m), 1>>, <<DayOfJan1(y) + DaysBeforeMonth(y, m), 43200>>,
            <<DayOfJan1(y) + DaysBeforeMonth(y, m) + 27, 86340 + m>>} : m \in 1..12}
    \cup {<<DayOfJan1(y) + 37 * k, 3661 * k>> : k \in 0..9}
WideExtra == IF Mode = "wide" /\ ExtraFile # "" THEN LET d == ndJsonDeserialize(ExtraFile) IN {<<d[i].d, d[i].s>> : i \in 1..Len(d)}
             ELSE {}

Init == st = <<"root">>
Next == \/ /\ st[1] = "root" /\ Mode = "fmt"
           /\ \E i \in 1..Len(Bound), k \in 1..Len(FmtDirs) : st' = <<"fmt", i, k>>
        \/ /\ st[1] = "root" /\ Mode \in {"mc", "gen"}
           /\ \E y \in {0} \cup Years : st' = <<"chunk", y>>
        \/ /\ st[1] = "root" /\ Mode \in {"mc", "wide"}
           /\ \E y \in WideYears : st' = <<"wchunk", y>>
        \/ /\ st[1] = "wchunk"
           /\ \E x \in WidePiece(st[2]) \cup (IF st[2] = 0 THEN WideExtra ELSE {}) : st' = <<"w", x[1], x[2]>>
        \/ /\ st[1] = "chunk"
           /\ \E x \in (IF Mode = "mc" THEN MCPiece(st[2]) ELSE GenPiece(st[2])) : st' = <<"t", x>>
Spec == Init /\ [][Next]_st
IsT == st[1] = "t"
t == st[2]

(********************************* laws ************************************)
Offsets == {0, 18000, -34200}

RoundTrip == (Mode = "mc" /\ IsT) => \A off \in Offsets :
    LET f == Fields(t, off) IN ValidFields(f) /\ SecondsOf(f, off) = t

WideLaw == (Mode = "mc" /\ st[1] = "w") => \A off \in Offsets :
    LET f == FieldsW(st[2], st[3], off) IN ValidFields(f) /\ SecondsOfW(f, off) = <<st[2], st[3]>>

(* the next second is the successor in calendar order *)
Succ(f) ==
    IF f.sec < 59 THEN [f EXCEPT !.sec = f.sec + 1]
    ELSE IF f.min < 59 THEN [f EXCEPT !.sec = 0, !.min = f.min + 1]
    ELSE IF f.hour < 23 THEN [f EXCEPT !.sec = 0, !.min = 0, !.hour = f.hour + 1]
    ELSE LET g == [f EXCEPT !.sec = 0, !.min = 0, !.hour = 0, !.wday = (f.wday % 7) + 1] IN
         IF f.day < DaysInMonth(f.year, f.month) THEN [g EXCEPT !.day = f.day + 1, !.yday = f.yday + 1]
         ELSE IF f.month < 12 THEN [g EXCEPT !.day = 1, !.month = f.month + 1, !.yday = f.yday + 1]
         ELSE [g EXCEPT !.day = 1, !.month = 1, !.year = f.year + 1, !.yday = 1]
SuccLaw == (Mode = "mc" /\ IsT) => \A off \in Offsets : Fields(t + 1, off) = Succ(Fields(t, off))

(* independent closed form (days -> civil date, H. Hinnant) agrees *)
Civil(days) ==
    LET z == days + 719468
        era == z \div 146097
        doe == z - era * 146097
        yoe == (doe - (doe \div 1460) + (doe \div 36524) - (doe \div 146096)) \div 365
        doy == doe - (365 * yoe + (yoe \div 4) - (yoe \div 100))
        mp == (5 * doy + 2) \div 153
        d == doy - ((153 * mp + 2) \div 5) + 1
        m == IF mp < 10 THEN mp + 3 ELSE mp - 9
    IN <<yoe + era * 400 + (IF m <= 2 THEN 1 ELSE 0), m, d>>
CivilLaw == /\ (Mode = "mc" /\ IsT) => LET f == Fields(t, 0) IN Civil(t \div 86400) = <<f.year, f.month, f.day>>
            /\ (Mode = "mc" /\ st[1] = "w") => LET f == FieldsW(st[2], st[3], 0) IN Civil(st[2]) = <<f.year, f.month, f.day>>

AnchorLaw == (Mode = "mc" /\ IsT) =>
    /\ t = 0 => (Fields(t, 0) = [year |-> 1970, month |-> 1, day |-> 1, hour |-> 0, min |-> 0, sec |-> 0,
                                 wday |-> 5, yday |-> 1, isdst |-> FALSE]
                 /\ Dir("c", Fields(t, 0), 0, "UTC") = "Thu Jan  1 00:00:00 1970"
                 /\ Dir("x", Fields(t, 0), 0, "UTC") = "01/01/70"
                 /\ Dir("U", Fields(t, 0), 0, "UTC") = "00" /\ Dir("W", Fields(t, 0), 0, "UTC") = "00"
                 /\ Dir("z", Fields(t, 0), -34200, "X") = "-0930")
    /\ t = 951782400 => (LET f == Fields(t, 0) IN <<f.year, f.month, f.day, f.wday, f.yday>> = <<2000, 2, 29, 3, 60>>)
    /\ t = 1000000000 => (LET f == Fields(t, 0) IN
            <<f.year, f.month, f.day, f.hour, f.min, f.sec, f.wday>> = <<2001, 9, 9, 1, 46, 40, 1>>
            /\ Dir("I", f, 0, "UTC") = "01" /\ Dir("p", f, 0, "UTC") = "AM" /\ Dir("j", f, 0, "UTC") = "252"
            /\ Dir("U", f, 0, "UTC") = "36" /\ Dir("W", f, 0, "UTC") = "36")

(******************************** GEN mode *********************************)
JudgedDirs == (C89Dirs \cup ExtDirs)
(* composite formats: adjacency, literal text, %% next to a directive *)
Comps == << << <<"d", "Y">>, <<"l", "-">>, <<"d", "m">>, <<"l", "-">>, <<"d", "d">>, <<"l", " ">>,
               <<"d", "H">>, <<"l", ":">>, <<"d", "M">>, <<"l", ":">>, <<"d", "S">> >>,
            << <<"d", "H">>, <<"d", "M">>, <<"d", "S">> >>,
            << <<"d", "%">>, <<"d", "d">> >>,
            << <<"d", "d">>, <<"d", "%">> >>,
            << <<"d", "%">>, <<"l", "d">> >>,
            << <<"l", "x">>, <<"d", "d">>, <<"l", "y z">>, <<"d", "p">> >>,
            << <<"d", "%">>, <<"d", "%">>, <<"d", "Y">> >> >>

GenPrint ==
    (Mode = "gen" /\ IsT) =>
        LET lf == Fields(t, Offset)
            uf == Fields(t, 0)
        IN PrintT("GEN " \o ToJson(
            [t |-> t, lf |-> lf, uf |-> uf,
             ld |-> [d \in JudgedDirs |-> Dir(d, lf, Offset, ZoneName)],
             ud |-> [d \in JudgedDirs \ {"Z"} |-> Dir(d, uf, 0, "")],
             comps |-> [i \in 1..Len(Comps) |-> [items |-> Comps[i], out |-> Strftime(Comps[i], lf, Offset, ZoneName)]],
             back |-> SecondsOf(lf, Offset),
             noon |-> SecondsOf([lf EXCEPT !.hour = 12, !.min = 0, !.sec = 0], Offset)]))

WidePrint ==
    (Mode = "wide" /\ st[1] = "w") =>
        LET lf == FieldsW(st[2], st[3], Offset) IN
        PrintT("GEN " \o ToJson([d |-> st[2], s |-> st[3], lf |-> lf, uf |-> FieldsW(st[2], st[3], 0),
                                 back |-> SecondsOfW(lf, Offset)]))

FmtPrint ==
    (Mode = "fmt" /\ st[1] = "fmt") =>
        LET b == Bound[st[2]]
            f == Fields(b.t, Offset)
            F == FormatsOf(FmtDirs[st[3]])
        IN PrintT("GEN " \o ToJson(
            [t |-> b.t, x |-> FmtDirs[st[3]],
             f |-> [j \in 1..Len(F) |-> [text |-> FmtText(F[j]), items |-> F[j],
                                         segs |-> [i \in 1..Len(F[j]) |-> Piece(F[j][i], f, b.bind)]]]]))
=============================================================================
