SPECIFICATION Spec
CONSTANTS
  Mode = "mc"
  OffsetAbs = 0
  OffsetWest = FALSE
  ZoneName = "UTC"
  ExtraFile = ""
INVARIANTS WideLaw RoundTrip SuccLaw CivilLaw AnchorLaw
CHECK_DEADLOCK FALSE
