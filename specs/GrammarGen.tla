----------------------------- MODULE GrammarGen -----------------------------
(* Classifies token sequences (one per line of File, as token strings) with the *)
(* Grammar recogniser; prints one ACC line per accepted sequence.               *)
EXTENDS Grammar, TLC, Json

CONSTANT File
Data == ndJsonDeserialize(File)

VARIABLE idx
Init == idx \in 1..Len(Data)
Next == FALSE /\ idx' = idx
Spec == Init /\ [][Next]_idx

Classify ==
    LET ts == Data[idx].ts IN
    (~Unclassified(ts) /\ Accepts(ts)) => PrintT("ACC " \o ToJson([id |-> Data[idx].id]))

(* sanity of the recogniser itself: known valid / invalid programs *)
Valid == << <<"local", "Name", "=", "Number">>, <<"Name", "(", ")">>, <<"return">>, <<>>,
            <<"Name", ".", "Name", "=", "function", "(", "...", ")", "return", "...", "end">>,
            <<"for", "Name", "=", "Number", ",", "Number", "do", "break", "end">>,
            <<"if", "Name", "then", "elseif", "Name", "then", "else", "end">>,
            <<"Name", "{", "Name", "=", "Number", ";", "[", "Number", "]", "=", "Number", ",", "}">>,
            <<"repeat", "local", "Name", "until", "Name">>, <<"Name", ":", "Name", "String">>,
            <<"(", "Name", ")", "(", ")">>, <<"Name", ",", "Name", "[", "Number", "]", "=", "Number">>,
            <<"local", "function", "Name", "(", "Name", ",", "...", ")", "end">>,
            <<"return", "-", "not", "#", "Name", "..", "String", ";">>,
            <<"while", "true", "do", "do", "break", "end", "end">> >>
Invalid == << <<"Name">>, <<"Name", "=">>, <<"break">>, <<"return", "return">>, <<"(", "Name", ")", "=", "Number">>,
              <<"Name", "(", ")", "=", "Number">>, <<"function", "(", ")", "end">>, <<"local", "Name", "=">>,
              <<"function", "Name", "(", ")", "return", "...", "end">>, <<"Name", "Name">>, <<";">>,
              <<"do", "return", "Name", "(", ")", "Name", "(", ")", "end">>, <<"for", "Name", "do", "end">>,
              <<"if", "Name", "then", "else", "elseif", "Name", "then", "end">> >>
Sanity == /\ \A i \in 1..Len(Valid) : Accepts(Valid[i])
          /\ \A i \in 1..Len(Invalid) : ~Accepts(Invalid[i])
=============================================================================
