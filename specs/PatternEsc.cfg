SPECIFICATION Spec
INVARIANTS LawWellFormed LawRegular LawCaptures LawDrivers GenPrint
CHECK_DEADLOCK FALSE
