SPECIFICATION Spec
CONSTANTS
  Sizes = {0}
  Lays <- MC_ModesLays
  Modes = {"w+", "wb+", "tmp"}
  RCounts = {2}
  WCounts = {17, 200, 5000}
  SOffs = {0}
  VBufs = {"full"}
  MFmts <- MC_None
  VSizes = {16}
  Extra = {"flush"}
  Naive = FALSE
  Gen = TRUE
VIEW genview
ACTION_CONSTRAINT GenPrintG2
CHECK_DEADLOCK FALSE
