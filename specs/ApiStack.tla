------------------------------ MODULE ApiStack ------------------------------
(***************************************************************************)
(* Abstract specification of the Go API value stack (property C10, part 1).*)
(*                                                                         *)
(* Every activation (a running host function, or the top level) owns ONE   *)
(* private list of values.  The API operations are functions on that list: *)
(* positive index i = i-th element, negative index -i = i-th from the end, *)
(* everything else is "outside the list".                                  *)
(*                                                                         *)
(* Three classes of (operation, index) pairs:                              *)
(*   exact     the result list / value is defined below; this covers every *)
(*             valid index AND the out-of-range indices whose behaviour    *)
(*             the API fixes (state_test.go: Get -> nil, Replace/Remove -> *)
(*             no-op, SetTop(-(n+1)) empties the list);                    *)
(*   clamped   no documented meaning but harmless: Insert(v, 0),           *)
(*             Insert(v, i < -n), Insert(v, i > n+1), SetTop(i < -(n+1)).  *)
(*             The result list is unspecified (explicit nondeterminism,    *)
(*             bound to the observed list in TRACE mode) - but it must be  *)
(*             a list of Lua values (every index 1..top holds a value,     *)
(*             never a Go nil) and frame privacy is required;              *)
(*   excluded  programmer errors, never generated: Pop(k > n) (raises      *)
(*             "register underflow"), pseudo-indices, a host function      *)
(*             returning more values than its list holds, Call with fewer  *)
(*             than nargs+1 values.                                        *)
(***************************************************************************)
EXTENDS Integers, Sequences

Nil == <<"nil">>
MultRet == -1

(* position addressed by index i in list l (0 = none) *)
Pos(l, i) == IF i > 0 THEN (IF i <= Len(l) THEN i ELSE 0)
             ELSE IF i < 0 THEN (IF Len(l) + 1 + i >= 1 THEN Len(l) + 1 + i ELSE 0)
             ELSE 0
Valid(l, i) == Pos(l, i) # 0

Get(l, i) == IF Valid(l, i) THEN l[Pos(l, i)] ELSE Nil      \* reads outside the list give nil
GetTop(l) == Len(l)
Push(l, v) == Append(l, v)

PopDefined(l, k) == k >= 0 /\ k <= Len(l)
Pop(l, k) == SubSeq(l, 1, Len(l) - k)

Resize(l, n) == [j \in 1..n |-> IF j <= Len(l) THEN l[j] ELSE Nil]
SetTopExact(l, i) == i >= 0 - (Len(l) + 1)
SetTop(l, i) == IF i >= 0 THEN Resize(l, i) ELSE Resize(l, Len(l) + 1 + i)   \* SetTop(-1) keeps the list

InsertAt(l, v, p) == SubSeq(l, 1, p - 1) \o <<v>> \o SubSeq(l, p, Len(l))
InsertExact(l, i) == (i >= 1 /\ i <= Len(l) + 1) \/ (i < 0 /\ i >= 0 - Len(l))
(* beyond top+1: clamped class; not part of the transcription in ApiStackImpl *)
InsertExcluded(l, i) == i > Len(l) + 1
(* A negative index may be resolved against the list before the insertion   *)
(* (v lands just below the element addressed) or after it (v is the element *)
(* addressed afterwards); the API does not say which, both are admitted.    *)
InsertResults(l, v, i) ==
    IF i >= 1 THEN {InsertAt(l, v, i)}
    ELSE {InsertAt(l, v, Len(l) + 1 + i), InsertAt(l, v, Len(l) + 2 + i)}

RemoveAt(l, p) == SubSeq(l, 1, p - 1) \o SubSeq(l, p + 1, Len(l))
Remove(l, i) == IF Valid(l, i) THEN RemoveAt(l, Pos(l, i)) ELSE l
Replace(l, i, v) == IF Valid(l, i) THEN [l EXCEPT ![Pos(l, i)] = v] ELSE l

(* ---- call contract ------------------------------------------------------ *)
(* results rs adjusted to what the caller asked for *)
Adjust(rs, nret) == IF nret = MultRet THEN rs ELSE Resize(rs, nret)
(* the count a host function returns selects its top-most values *)
ReturnDefined(l, r) == r >= 0 /\ r <= Len(l)
Selected(l, r) == SubSeq(l, Len(l) - r + 1, Len(l))
(* caller's list l holds the function and nargs arguments on top *)
CallDefined(l, nargs) == nargs >= 0 /\ Len(l) >= nargs + 1
ArgsOf(l, nargs) == SubSeq(l, Len(l) - nargs + 1, Len(l))
WithoutCall(l, nargs) == SubSeq(l, 1, Len(l) - nargs - 1)
AfterCall(l, nargs, rs, nret) == WithoutCall(l, nargs) \o Adjust(rs, nret)
(* a failed protected call leaves neither arguments nor partial results *)
AfterFailedCall(l, nargs) == WithoutCall(l, nargs)
(* a Lua callee `function(...) return <first p of ...> end` *)
FirstP(args, p) == Resize(args, p)
=============================================================================
