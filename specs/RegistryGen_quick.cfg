SPECIFICATION Spec
CONSTANTS
  Cfgs <- Gen_Cfgs_quick
  Gen = TRUE
  DepthInView = FALSE
VIEW genview
ACTION_CONSTRAINT GenPrint
CHECK_DEADLOCK FALSE
