----------------------------- MODULE LuaValues -----------------------------
(***************************************************************************)
(* Lua values for the reference semantics (LuaSem).                        *)
(*   <<"nil">>  <<"b",TRUE>>  <<"n",42>>  <<"s",<<104,105>>>>  (bytes)     *)
(*   <<"t",ref>> table  <<"f",ref>> closure  <<"bi","name">> builtin       *)
(*   <<"co",ref>> coroutine  <<"u",ref>> userdata                          *)
(*   <<"rtmsg",lines>> the (implementation-defined) text of a runtime      *)
(*        fault raised at one of lines; matches any string with that       *)
(*        position prefix, and poisons any computation inspecting it.      *)
(* Numbers are integers with |n| < 2^30; anything else is Unmodelled.      *)
(***************************************************************************)
EXTENDS Integers, Sequences, FiniteSets

Nil == <<"nil">>
True == <<"b", TRUE>>
False == <<"b", FALSE>>
Num(i) == <<"n", i>>
Str(b) == <<"s", b>>
Bool(x) == <<"b", x>>

Tag(v) == v[1]
IsNil(v) == v[1] = "nil"
IsNum(v) == v[1] = "n"
IsStr(v) == v[1] = "s"
IsTab(v) == v[1] = "t"
IsFn(v) == v[1] = "f" \/ v[1] = "bi" \/ v[1] = "wf"
IsOpaqueStr(v) == v[1] \in {"rtmsg", "anystr", "fault", "sfx", "any"}   \* "sfx": any string ending in the given bytes; "any": a value the manual does not fix    \* a string whose text is implementation-defined
Truthy(v) == ~(v[1] = "nil" \/ (v[1] = "b" /\ v[2] = FALSE))

Lim == 1073741824          \* 2^30
InRange(i) == i > -Lim /\ i < Lim

(* sequence helpers: the top of a stack is its last element *)
Top(s) == s[Len(s)]
Pop(s) == SubSeq(s, 1, Len(s) - 1)
PopN(s, n) == SubSeq(s, 1, Len(s) - n)
FirstOrNil(vs) == IF Len(vs) = 0 THEN Nil ELSE vs[1]
NthOrNil(vs, i) == IF i >= 1 /\ i <= Len(vs) THEN vs[i] ELSE Nil
(* adjust a value list to exactly n values *)
AdjustN(vs, n) == [i \in 1..n |-> NthOrNil(vs, i)]
(* adjust to a context: all values, or exactly one *)
Adjust(vs, multi) == IF multi THEN vs ELSE <<FirstOrNil(vs)>>

TypeName(v) ==
    CASE v[1] = "nil" -> "nil"
      [] v[1] = "b" -> "boolean"
      [] v[1] = "n" -> "number"
      [] v[1] = "s" -> "string"
      [] v[1] = "rtmsg" -> "string"
      [] v[1] = "anystr" -> "string"
      [] v[1] = "fault" -> "string"
      [] v[1] = "sfx" -> "string"
      [] v[1] = "any" -> "string"
      [] v[1] = "wf" -> "function"
      [] v[1] = "t" -> "table"
      [] v[1] = "f" -> "function"
      [] v[1] = "bi" -> "function"
      [] v[1] = "co" -> "thread"
      [] v[1] = "u" -> "userdata"

(* ---- bytes ------------------------------------------------------------- *)
(* ASCII codes used below *)
C0 == 48  C9 == 57  CMinus == 45  CPlus == 43  CSp == 32  CTab == 9  CNl == 10  CCr == 13
Cx == 120  CX == 88  CDot == 46  Ce == 101  CE == 69  CColon == 58

IsDigit(c) == c >= 48 /\ c <= 57
IsSpace(c) == c = 32 \/ (c >= 9 /\ c <= 13)
IsHexLetter(c) == (c >= 97 /\ c <= 102) \/ (c >= 65 /\ c <= 70)
HexVal(c) == IF IsDigit(c) THEN c - 48 ELSE IF c >= 97 THEN c - 87 ELSE c - 55

INSTANCE LuaNames
Bytes(name) == NameBytes(name)

(* decimal rendering of an integer *)
RECURSIVE DigitsOf(_)
DigitsOf(n) == IF n < 10 THEN <<48 + n>> ELSE Append(DigitsOf(n \div 10), 48 + (n % 10))
IntToBytes(i) == IF i < 0 THEN <<45>> \o DigitsOf(0 - i) ELSE DigitsOf(i)

(* ---- string -> number (luaO_str2d on the integer fragment) ------------- *)
(* result: <<"n",v>>, <<"no">> (definitely not a numeral) or <<"un">>     *)
(* (a numeral outside the integer model: fraction, exponent, too large)   *)
RECURSIVE SkipSp(_, _)
SkipSp(b, i) == IF i <= Len(b) /\ IsSpace(b[i]) THEN SkipSp(b, i + 1) ELSE i
RECURSIVE DecRun(_, _, _)
(* reads digits from i; returns <<value or -1 when too large, next index>> *)
DecRun(b, i, acc) ==
    IF i <= Len(b) /\ IsDigit(b[i])
    THEN DecRun(b, i + 1, IF acc < 0 \/ acc >= Lim \div 10 THEN -1 ELSE acc * 10 + (b[i] - 48))
    ELSE <<acc, i>>
RECURSIVE HexRun(_, _, _)
HexRun(b, i, acc) ==
    IF i <= Len(b) /\ (IsDigit(b[i]) \/ IsHexLetter(b[i]))
    THEN HexRun(b, i + 1, IF acc < 0 \/ acc >= Lim \div 16 THEN -1 ELSE acc * 16 + HexVal(b[i]))
    ELSE <<acc, i>>

StrToNum(b) ==
    LET i0 == SkipSp(b, 1)
        neg == i0 <= Len(b) /\ b[i0] = 45
        i1 == IF i0 <= Len(b) /\ (b[i0] = 45 \/ b[i0] = 43) THEN i0 + 1 ELSE i0
        ishex == i1 + 1 <= Len(b) /\ b[i1] = 48 /\ (b[i1 + 1] = 120 \/ b[i1 + 1] = 88)
        run == IF ishex THEN HexRun(b, i1 + 2, 0) ELSE DecRun(b, i1, 0)
        start == IF ishex THEN i1 + 2 ELSE i1
        iend == SkipSp(b, run[2])
        nodigits == run[2] = start
        maybe == \* looks like a numeral outside the model (fraction/exponent/other forms)
            \E j \in 1..Len(b) : IsDigit(b[j])
    IN IF i0 > Len(b) THEN <<"no">>
       ELSE IF nodigits THEN (IF maybe THEN <<"un">> ELSE <<"no">>)
       ELSE IF iend <= Len(b) THEN
            \* trailing garbage after the digits: a '.', exponent or hex-float could follow
            (IF b[run[2]] = 46 \/ b[run[2]] = 101 \/ b[run[2]] = 69 \/ b[run[2]] = 112 \/ b[run[2]] = 80
                \/ (ishex = FALSE /\ (b[run[2]] = 120 \/ b[run[2]] = 88))
             THEN <<"un">> ELSE <<"no">>)
       ELSE IF run[1] < 0 \/ run[1] >= Lim THEN <<"un">>
       ELSE IF neg /\ ishex THEN <<"un">>      \* "-0x10": strtod-dependent
       ELSE <<"n", IF neg THEN 0 - run[1] ELSE run[1]>>

(* tonumber-style coercion of an arithmetic operand *)
ToNum(v) ==
    CASE v[1] = "n" -> v
      [] v[1] = "s" -> StrToNum(v[2])
      [] IsOpaqueStr(v) -> <<"un">>
      [] OTHER -> <<"no">>

(* tostring-style coercion of a concat operand: <<"s",b>>, <<"no">>, <<"un">> *)
ToStr(v) ==
    CASE v[1] = "s" -> v
      [] v[1] = "n" -> <<"s", IntToBytes(v[2])>>
      [] IsOpaqueStr(v) -> <<"un">>
      [] OTHER -> <<"no">>

(* lexicographic byte order (strcoll in the C locale) *)
RECURSIVE BytesLess(_, _, _)
BytesLess(a, b, i) ==
    IF i > Len(a) THEN i <= Len(b)
    ELSE IF i > Len(b) THEN FALSE
    ELSE IF a[i] < b[i] THEN TRUE
    ELSE IF a[i] > b[i] THEN FALSE
    ELSE BytesLess(a, b, i + 1)

(* ---- integer arithmetic ------------------------------------------------ *)
(* result <<"n",v>> or <<"un">> *)
FloorDiv(a, b) == IF b > 0 THEN (IF a >= 0 THEN a \div b ELSE 0 - ((0 - a + b - 1) \div b))
                  ELSE (IF a <= 0 THEN (0 - a) \div (0 - b) ELSE 0 - ((a + (0 - b) - 1) \div (0 - b)))
MulOK(a, b) == LET aa == IF a < 0 THEN 0 - a ELSE a   bb == IF b < 0 THEN 0 - b ELSE b
               IN aa = 0 \/ bb = 0 \/ aa <= (Lim \div bb)
RECURSIVE IPow(_, _)
(* a^e, saturating at Lim (= outside the model) without overflowing TLC's 32-bit integers *)
IPow(a, e) == IF e = 0 THEN 1
              ELSE LET r == IPow(a, e - 1) IN
                   IF r <= -Lim \/ r >= Lim \/ ~MulOK(r, a) THEN Lim ELSE r * a
Wrap(i) == IF InRange(i) THEN <<"n", i>> ELSE <<"un">>
Arith(op, a, b) ==
    CASE op = "+" -> Wrap(a + b)
      [] op = "-" -> Wrap(a - b)
      [] op = "*" -> (IF MulOK(a, b) THEN Wrap(a * b) ELSE <<"un">>)
      [] op = "/" -> (IF b = 0 THEN <<"un">> ELSE IF FloorDiv(a, b) * b = a THEN Wrap(FloorDiv(a, b)) ELSE <<"un">>)
      [] op = "%" -> (IF b = 0 THEN <<"un">> ELSE Wrap(a - FloorDiv(a, b) * b))
      [] op = "^" -> (IF b < 0 \/ b > 31 THEN <<"un">>
                      ELSE IF a = 0 \/ a = 1 THEN <<"n", IF b = 0 THEN 1 ELSE a>>
                      ELSE LET r == IPow(a, b) IN IF r >= Lim \/ r <= -Lim THEN <<"un">> ELSE Wrap(r))

(* raw equality *)
RawEq(a, b) == IF a[1] # b[1] THEN FALSE ELSE a = b
=============================================================================
