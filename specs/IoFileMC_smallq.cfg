SPECIFICATION Spec
CONSTANTS
  Sizes <- MC_SmallqSizes
  Lays <- MC_SmallLays
  Modes = {"r", "w", "a", "r+", "w+", "a+", "tmp", "out", "in"}
  RCounts = {0, 2, 7}
  WCounts = {0, 2, 6}
  SOffs <- MC_SmallqSOffs
  VBufs = {"no", "full"}
  MFmts <- MC_SmallFmts
  VSizes = {0}
  Extra <- MC_AllExtra
  Naive = TRUE
  Gen = FALSE
VIEW genview
INVARIANTS TypeOK Refines CursorLaws
PROPERTIES ClosedGuard
CHECK_DEADLOCK FALSE
