------------------------------ MODULE TableMC ------------------------------
(* Constant definitions for the TLC runs of TableImpl. *)
EXTENDS TableImpl

V1 == <<"n", 10>>
V2 == <<"b", FALSE>>
MC_Vals == {V1, V2}

(* lowered boundary: lua.MaxArrayIndex = 5, integer keys straddle it *)
Lo_IntKeys == {-1, 0, 1, 2, 3, 4, 5, 6}
Lo_OtherKeys == {<<"f", 1>>, <<"s", "a">>, <<"s", "b">>, <<"b", TRUE>>, <<"b", FALSE>>, <<"t", 1>>}
(* the boolean key of the small universe is false: a key that is itself falsy (a traversal must not take it for "no key") *)
Lo_OtherKeysSmall == {<<"f", 1>>, <<"s", "a">>, <<"b", FALSE>>}

(* default boundary 2^26: keys at and above it live in the hash part *)
Hi_IntKeys == {-1, 0, 1, 2, 3, 4, 67108864, 67108865}
=============================================================================
