------------------------------ MODULE Grammar ------------------------------
(***************************************************************************)
(* Token-level recogniser of the Lua 5.1 grammar (manual section 8) with   *)
(* the context conditions that are compile errors in 5.1 (break outside a  *)
(* loop, `...` outside a vararg function; break/return only as the last    *)
(* statement of a block).  Property C08 is one-directional: every text the *)
(* grammar accepts must be accepted by the loader.  The recogniser is in   *)
(* position-set style: each nonterminal maps a start position to the SET   *)
(* of positions where an instance of it can end.                           *)
(*                                                                         *)
(* Tokens are strings; "Name", "Number", "String" stand for their classes. *)
(* goto/labels are not recognised here (texts containing them are left     *)
(* unclassified; fixed goto programs are covered by C01/C03).              *)
(***************************************************************************)
EXTENDS Integers, Sequences, FiniteSets

BinOps == {"+", "-", "*", "/", "%", "^", "..", "==", "~=", "<", "<=", ">", ">=", "and", "or"}
UnOps == {"-", "not", "#"}

Tok(ts, i) == IF i >= 1 /\ i <= Len(ts) THEN ts[i] ELSE "<eof>"
Is(ts, i, t) == Tok(ts, i) = t
(* positions after an optional token t *)
Opt(ts, S, t) == S \cup {j + 1 : j \in {x \in S : Is(ts, x, t)}}
(* positions after a mandatory token t *)
Eat(ts, S, t) == {j + 1 : j \in {x \in S : Is(ts, x, t)}}

(* least fixpoint of S |-> S \cup F(S), bounded by the input length *)
RECURSIVE Close(_, _, _)
Close(S, F(_), fuel) == LET N == S \cup F(S) IN IF N = S \/ fuel = 0 THEN N ELSE Close(N, F, fuel - 1)

RECURSIVE Exp(_, _, _), Unary(_, _, _), Simple(_, _, _), Suffixed(_, _, _), Primary(_, _, _), Args(_, _, _),
          ExpList(_, _, _), TableCons(_, _, _), Field(_, _, _), FuncBody(_, _), Block(_, _, _), Stat(_, _, _),
          NameList(_, _), IfRest(_, _, _)

(* ctx = <<inLoop, isVararg>> *)

(* namelist ::= Name {',' Name} *)
NameList(ts, i) ==
    IF ~Is(ts, i, "Name") THEN {}
    ELSE Close({i + 1}, LAMBDA S : {j + 2 : j \in {x \in S : Is(ts, x, ",") /\ Is(ts, x + 1, "Name")}}, Len(ts))

(* explist ::= {exp ','} exp *)
ExpList(ts, i, ctx) ==
    Close(Exp(ts, i, ctx), LAMBDA S : UNION {Exp(ts, j + 1, ctx) : j \in {x \in S : Is(ts, x, ",")}}, Len(ts))

(* exp ::= unary {binop unary} *)
Exp(ts, i, ctx) ==
    Close(Unary(ts, i, ctx), LAMBDA S : UNION {Unary(ts, j + 1, ctx) : j \in {x \in S : Tok(ts, x) \in BinOps}}, Len(ts))

Unary(ts, i, ctx) == IF Tok(ts, i) \in UnOps THEN Unary(ts, i + 1, ctx) ELSE Simple(ts, i, ctx)

Simple(ts, i, ctx) ==
    LET t == Tok(ts, i) IN
    IF t \in {"nil", "false", "true", "Number", "String"} THEN {i + 1}
    ELSE IF t = "..." THEN (IF ctx[2] THEN {i + 1} ELSE {})
    ELSE IF t = "function" THEN FuncBody(ts, i + 1)
    ELSE IF t = "{" THEN TableCons(ts, i, ctx)
    ELSE {p[1] : p \in Suffixed(ts, i, ctx)}

(* primaryexp ::= Name | '(' exp ')' ; result: set of <<end, kind>>, kind in var / call / paren *)
Primary(ts, i, ctx) ==
    IF Is(ts, i, "Name") THEN {<<i + 1, "var">>}
    ELSE IF Is(ts, i, "(") THEN {<<j, "paren">> : j \in Eat(ts, Exp(ts, i + 1, ctx), ")")}
    ELSE {}

(* args ::= '(' [explist] ')' | tableconstructor | String *)
Args(ts, i, ctx) ==
    IF Is(ts, i, "String") THEN {i + 1}
    ELSE IF Is(ts, i, "{") THEN TableCons(ts, i, ctx)
    ELSE IF Is(ts, i, "(") THEN (IF Is(ts, i + 1, ")") THEN {i + 2} ELSE {}) \cup Eat(ts, ExpList(ts, i + 1, ctx), ")")
    ELSE {}

(* suffixedexp ::= primaryexp { '.' Name | '[' exp ']' | ':' Name args | args } *)
Suffixed(ts, i, ctx) ==
    LET Ext(S) ==
          {<<p[1] + 2, "var">> : p \in {x \in S : Is(ts, x[1], ".") /\ Is(ts, x[1] + 1, "Name")}}
          \cup UNION {{<<j, "var">> : j \in Eat(ts, Exp(ts, p[1] + 1, ctx), "]")} : p \in {x \in S : Is(ts, x[1], "[")}}
          \cup UNION {{<<j, "call">> : j \in Args(ts, p[1] + 2, ctx)} : p \in {x \in S : Is(ts, x[1], ":") /\ Is(ts, x[1] + 1, "Name")}}
          \cup UNION {{<<j, "call">> : j \in Args(ts, p[1], ctx)} : p \in S}
        all == Close(Primary(ts, i, ctx), Ext, Len(ts))
    (* The grammar of the manual is ambiguous here ("a = a (1).a = nil" could be two statements); Lua resolves it  *)
    (* greedily: after a prefix expression a '(' always opens its argument list (lparser.c primaryexp loop), so a *)
    (* suffixed expression never ends in front of a '('.  ('.', '[', ':', '{' and a String cannot start a        *)
    (* statement, so only '(' needs saying.)                                                                      *)
    IN {p \in all : ~Is(ts, p[1], "(")}

(* field ::= '[' exp ']' '=' exp | Name '=' exp | exp *)
Field(ts, i, ctx) ==
    (IF Is(ts, i, "[") THEN UNION {Exp(ts, j, ctx) : j \in Eat(ts, Eat(ts, Exp(ts, i + 1, ctx), "]"), "=")} ELSE {})
    \cup (IF Is(ts, i, "Name") /\ Is(ts, i + 1, "=") THEN Exp(ts, i + 2, ctx) ELSE {})
    \cup Exp(ts, i, ctx)

(* tableconstructor ::= '{' [field {sep field} [sep]] '}' *)
TableCons(ts, i, ctx) ==
    IF ~Is(ts, i, "{") THEN {}
    ELSE LET IsSep(x) == Is(ts, x, ",") \/ Is(ts, x, ";")
             fields == Close(Field(ts, i + 1, ctx), LAMBDA S : UNION {Field(ts, j + 1, ctx) : j \in {x \in S : IsSep(x)}}, Len(ts))
             withsep == fields \cup {j + 1 : j \in {x \in fields : IsSep(x)}}
         IN Eat(ts, {i + 1} \cup withsep, "}")

(* funcbody ::= '(' [parlist] ')' block end ; parlist ::= namelist [',' '...'] | '...' *)
FuncBody(ts, i) ==
    IF ~Is(ts, i, "(") THEN {}
    ELSE LET nl == NameList(ts, i + 1)
             pars == {<<i + 1, FALSE>>} \cup {<<j, FALSE>> : j \in nl}
                     \cup {<<j + 2, TRUE>> : j \in {x \in nl : Is(ts, x, ",") /\ Is(ts, x + 1, "...")}}
                     \cup (IF Is(ts, i + 1, "...") THEN {<<i + 2, TRUE>>} ELSE {})
         IN UNION {Eat(ts, Block(ts, p[1] + 1, <<FALSE, p[2]>>), "end") : p \in {x \in pars : Is(ts, x[1], ")")}}

(* the part of an if statement after 'then block': {elseif exp then block} [else block] end *)
IfRest(ts, i, ctx) ==
    (IF Is(ts, i, "end") THEN {i + 1} ELSE {})
    \cup (IF Is(ts, i, "else") THEN Eat(ts, Block(ts, i + 1, ctx), "end") ELSE {})
    \cup (IF Is(ts, i, "elseif")
          THEN UNION {UNION {IfRest(ts, k, ctx) : k \in Block(ts, j, ctx)} : j \in Eat(ts, Exp(ts, i + 1, ctx), "then")}
          ELSE {})

Stat(ts, i, ctx) ==
    LET t == Tok(ts, i)  loop == <<TRUE, ctx[2]>> IN
    CASE t = "do" -> Eat(ts, Block(ts, i + 1, ctx), "end")
      [] t = "while" -> UNION {Eat(ts, Block(ts, j, loop), "end") : j \in Eat(ts, Exp(ts, i + 1, ctx), "do")}
      [] t = "repeat" -> UNION {Exp(ts, j, loop) : j \in Eat(ts, Block(ts, i + 1, loop), "until")}
      [] t = "if" -> UNION {UNION {IfRest(ts, k, ctx) : k \in Block(ts, j, ctx)} : j \in Eat(ts, Exp(ts, i + 1, ctx), "then")}
      [] t = "for" ->
           (* numeric: for Name = exp , exp [, exp] do block end *)
           (IF Is(ts, i + 1, "Name") /\ Is(ts, i + 2, "=")
            THEN LET e2 == UNION {Exp(ts, j, ctx) : j \in Eat(ts, Exp(ts, i + 3, ctx), ",")}
                     e3 == e2 \cup UNION {Exp(ts, j, ctx) : j \in Eat(ts, e2, ",")}
                 IN UNION {Eat(ts, Block(ts, j, loop), "end") : j \in Eat(ts, e3, "do")}
            ELSE {})
           \cup  (* generic: for namelist in explist do block end *)
           UNION {UNION {Eat(ts, Block(ts, k, loop), "end") : k \in Eat(ts, ExpList(ts, j, ctx), "do")}
                  : j \in Eat(ts, NameList(ts, i + 1), "in")}
      [] t = "function" ->
           (* funcname ::= Name {'.' Name} [':' Name] *)
           (IF ~Is(ts, i + 1, "Name") THEN {}
            ELSE LET dotted == Close({i + 2}, LAMBDA S : {j + 2 : j \in {x \in S : Is(ts, x, ".") /\ Is(ts, x + 1, "Name")}}, Len(ts))
                     named == dotted \cup {j + 2 : j \in {x \in dotted : Is(ts, x, ":") /\ Is(ts, x + 1, "Name")}}
                 IN UNION {FuncBody(ts, j) : j \in named})
      [] t = "local" ->
           (IF Is(ts, i + 1, "function")
            THEN (IF Is(ts, i + 2, "Name") THEN FuncBody(ts, i + 3) ELSE {})
            ELSE LET nl == NameList(ts, i + 1) IN nl \cup UNION {ExpList(ts, j, ctx) : j \in Eat(ts, nl, "=")})
      [] OTHER ->
           (* functioncall | varlist '=' explist *)
           LET first == Suffixed(ts, i, ctx)
               calls == {p[1] : p \in {x \in first : x[2] = "call"}}
               vars == Close({p[1] : p \in {x \in first : x[2] = "var"}},
                             LAMBDA S : UNION {{p[1] : p \in {x \in Suffixed(ts, j + 1, ctx) : x[2] = "var"}} : j \in {x \in S : Is(ts, x, ",")}},
                             Len(ts))
           IN calls \cup UNION {ExpList(ts, j, ctx) : j \in Eat(ts, vars, "=")}

(* block ::= {stat [';']} [laststat [';']] ; laststat ::= return [explist] | break *)
Block(ts, i, ctx) ==
    LET stats == Close({i}, LAMBDA S : UNION {Opt(ts, Stat(ts, j, ctx), ";") : j \in S}, Len(ts))
        last == UNION {(IF Is(ts, j, "return") THEN Opt(ts, {j + 1} \cup ExpList(ts, j + 1, ctx), ";") ELSE {})
                       \cup (IF Is(ts, j, "break") /\ ctx[1] THEN Opt(ts, {j + 1}, ";") ELSE {})
                       : j \in stats}
    IN stats \cup last

(* the main chunk is a vararg function, not inside a loop *)
Accepts(ts) == (Len(ts) + 1) \in Block(ts, 1, <<FALSE, TRUE>>)
Unclassified(ts) == \E i \in 1..Len(ts) : ts[i] \in {"goto", "::"}
=============================================================================
