------------------------------ MODULE Registry ------------------------------
(***************************************************************************)
(* Abstract specification of the register file (property C12): a list of   *)
(* values with a top and a limit.  Register i (0-based) is r[i + 1].       *)
(*                                                                         *)
(* Values are integers: Nil = 0 (LNil), written values > 0, and Junk = -1   *)
(* for a slot whose content the operation leaves unspecified (the gap a    *)
(* Set / CopyRange / FillNil above top creates: "values beyond top are not *)
(* initialised"); a Junk slot may read as LNil or as an invalid value.     *)
(*                                                                         *)
(* Limit: the register file may grow up to max(RegistrySize,               *)
(* RegistryMaxSize) slots.  An operation that needs more raises the        *)
(* overflow and leaves the list unchanged; one that needs no more must     *)
(* succeed (growth is transparent).                                        *)
(*                                                                         *)
(* Protocol preconditions (what the VM guarantees): Pop on a non-empty     *)
(* list; indices and counts non-negative; CopyRange source and destination *)
(* either do not overlap or the destination is not above the source.       *)
(***************************************************************************)
EXTENDS Integers, Sequences

Nil == 0
Junk == -1
Undef == -1                                    \* observation of an invalid (Go nil) slot

Limit(size, maxSize) == IF maxSize > size THEN maxSize ELSE size

(* first n registers of r, padded with Junk *)
Take(r, n) == [j \in 1..n |-> IF j <= Len(r) THEN r[j] ELSE Junk]
Nils(n) == [j \in 1..n |-> Nil]

CopyLimit(r, limit) == IF limit = -1 \/ limit > Len(r) THEN Len(r) ELSE limit

(* registers an operation needs *)
Required(r, o) ==
    CASE o.op = "push" -> Len(r) + 1
      [] o.op = "pop" -> 0
      [] o.op = "set" -> o.i + 1
      [] o.op = "settop" -> o.n
      [] o.op = "copyrange" -> o.regv + o.n
      [] o.op = "fillnil" -> o.regm + o.n
      [] o.op = "insert" -> IF o.reg >= Len(r) THEN o.reg + 1 ELSE Len(r) + 1

Pre(r, o) ==
    CASE o.op = "push" -> o.v > 0
      [] o.op = "pop" -> Len(r) > 0
      [] o.op = "set" -> o.i >= 0 /\ o.v > 0
      [] o.op = "settop" -> o.n >= 0
      [] o.op = "copyrange" -> /\ o.regv >= 0 /\ o.n >= 0
                               /\ (o.regv <= o.start \/ CopyLimit(r, o.limit) <= o.regv)
      [] o.op = "fillnil" -> o.regm >= 0 /\ o.n >= 0
      [] o.op = "insert" -> o.reg >= 0 /\ o.v > 0
      [] OTHER -> FALSE

SetReg(r, i, v) == IF i < Len(r) THEN [r EXCEPT ![i + 1] = v] ELSE Append(Take(r, i), v)

(* the list after a successful operation *)
Apply(r, o) ==
    CASE o.op = "push" -> Append(r, o.v)
      [] o.op = "pop" -> SubSeq(r, 1, Len(r) - 1)
      [] o.op = "set" -> SetReg(r, o.i, o.v)
      [] o.op = "settop" -> [j \in 1..o.n |-> IF j <= Len(r) THEN r[j] ELSE Nil]
      [] o.op = "copyrange" ->
            LET lim == CopyLimit(r, o.limit)
                vals == [k \in 1..o.n |-> LET src == o.start + k - 1
                                          IN IF src >= lim \/ src < 0 THEN Nil ELSE r[src + 1]]
            IN Take(r, o.regv) \o vals
      [] o.op = "fillnil" -> Take(r, o.regm) \o Nils(o.n)
      [] o.op = "insert" ->
            IF o.reg >= Len(r) THEN SetReg(r, o.reg, o.v)
            ELSE SubSeq(r, 1, o.reg) \o <<o.v>> \o SubSeq(r, o.reg + 1, Len(r))

PopResult(r) == r[Len(r)]

MustOverflow(r, o, lim) == Required(r, o) > lim

(* an observed slot value agrees with the abstract one *)
Match(a, obs) == IF a = Junk THEN obs \in {Nil, Undef} ELSE obs = a

(* IsFull(): may be reported only at or above the configured size, must be at the limit *)
IsFullOK(r, size, lim, full) == (full => Len(r) >= size) /\ (Len(r) >= lim => full)

ObsOK(r, size, lim, o) ==
    /\ o.top = Len(r)
    /\ IsFullOK(r, size, lim, o.full)
    /\ Len(o.raw) = Len(r)
    /\ \A j \in 1..Len(r) : Match(r[j], o.raw[j])

ObsWhy(r, size, lim, o) ==
    CASE o.top # Len(r) -> "Top"
      [] ~IsFullOK(r, size, lim, o.full) -> "IsFull"
      [] Len(o.raw) # Len(r) -> "Top"
      [] OTHER -> "value"
=============================================================================
