----------------------------- MODULE RequireMC -----------------------------
(***************************************************************************)
(* State machine over module Require for TLC (property C20).               *)
(*  MC : the laws below make the semantics of Require a credible oracle    *)
(*       (once-only / cache identity, preload precedence, path order,      *)
(*       loops are errors, what failures leave behind, host registration). *)
(*  GEN: every history up to MaxHist over the operation alphabet selected  *)
(*       by the constants is printed with the observation the semantics    *)
(*       expects for its last operation (one line per transition).         *)
(* Operations are kept compact in hist (behaviour = index into BehT).      *)
(***************************************************************************)
EXTENDS Require, Json

CONSTANTS NNames,    \* number of module names (2 or 3)
          BehIdx,    \* indices into BehT usable by installed loaders
          Srcs,      \* subset of {"L", "H", "F1", "F2"}: Lua preload, host PreloadModule, file in dir 1 / 2
          Extra,     \* TRUE: also unpreload / rmfile / non-compiling file / global assignment / RegisterModule
          MaxHist,
          Gen

Names == SubSeq(<<"a", "b", "c">>, 1, NNames)
NS == SeqSet(Names)
Other(n) == LET i == CHOOSE i \in 1..Len(Names) : Names[i] = n IN Names[(i % Len(Names)) + 1]

B(pre, reqs, post, fail, ret) == [pre |-> pre, reqs |-> reqs, post |-> post, fail |-> fail, ret |-> ret]
R(n, p) == [n |-> n, prot |-> p]

(* the behaviour alphabet of a loader for module n *)
BehT(n) == <<
    B("none", <<>>, "none", FALSE, "tbl"),                      \*  1 returns a value
    B("none", <<>>, "none", FALSE, "none"),                     \*  2 returns nothing
    B("tbl", <<>>, "none", FALSE, "none"),                      \*  3 assigns package.loaded[n] itself
    B("none", <<>>, "none", TRUE, "none"),                      \*  4 fails
    B("none", <<R(Other(n), FALSE)>>, "none", FALSE, "tbl"),    \*  5 requires another module
    B("none", <<R(n, FALSE)>>, "none", FALSE, "tbl"),           \*  6 requires itself
    B("none", <<R(n, TRUE)>>, "none", FALSE, "num"),            \*  7 requires itself under pcall, then succeeds
    B("tbl", <<>>, "none", FALSE, "tbl"),                       \*  8 assigns and returns another value
    B("none", <<>>, "none", FALSE, "false"),                    \*  9 returns false
    B("module", <<>>, "none", FALSE, "none"),                   \* 10 calls module(n)
    B("none", <<R(Other(n), TRUE)>>, "none", TRUE, "none"),     \* 11 requires another module under pcall, then fails
    B("none", <<>>, "nil", FALSE, "none"),                      \* 12 un-marks itself, returns nothing
    B("tbl", <<R(n, FALSE)>>, "none", FALSE, "none"),           \* 13 assigns, then requires itself
    B("none", <<R(Other(n), FALSE), R(Other(n), FALSE)>>, "num", FALSE, "none"),  \* 14 requires another module twice, assigns late
    B("num", <<>>, "none", TRUE, "none")                        \* 15 assigns, then fails
>>

ASSUME PrintT("BEHS " \o ToJson([n \in NS |-> BehT(n)]))

VARIABLES st, hist, res
vars == <<st, hist, res>>
Clr(s) == [s EXCEPT !.log = <<>>]
mcview == <<Clr(st), Len(hist)>>

Init == /\ st = InitState(Names, 0)
        /\ hist = <<>>
        /\ res = NoRes

Full(c) ==
    CASE c.op = "preload" -> [op |-> "preload", n |-> c.n, host |-> c.host, beh |-> BehT(c.n)[c.b]]
      [] c.op = "file" -> [op |-> "file", n |-> c.n, d |-> c.d, syn |-> c.syn, beh |-> BehT(c.n)[c.b]]
      [] OTHER -> c

(* Installations have no result of their own and commute, so GEN keeps one  *)
(* order of every run of adjacent installations: strictly increasing slot   *)
(* (name, then preload < file 1 < file 2).  MC explores all orders.         *)
IsInstall(c) == c.op \in {"preload", "file"}
NameIdx(n) == CHOOSE i \in 1..Len(Names) : Names[i] = n
SlotRank(c) == 3 * NameIdx(c.n) + (IF c.op = "preload" THEN 0 ELSE c.d)

Do(c) ==
    /\ Len(hist) = 0 => c.n = Names[1]             \* the names are interchangeable
    /\ (Gen /\ Len(hist) > 0 /\ IsInstall(c) /\ IsInstall(hist[Len(hist)])) => SlotRank(hist[Len(hist)]) < SlotRank(c)
    /\ OpWellFormed(Full(c))
    /\ LET r == Exec(st, Full(c), Len(hist) + 1)
       IN /\ st' = r.st
          /\ res' = r.res
          /\ hist' = Append(hist, c)

Next ==
    /\ Len(hist) < MaxHist
    /\ \/ \E n \in NS : Do([op |-> "req", n |-> n])
       \/ \E n \in NS : st.loaded[n] # Nil /\ Do([op |-> "clear", n |-> n])
       \/ \E n \in NS, h \in {s \in Srcs : s \in {"L", "H"}}, i \in BehIdx :
             Do([op |-> "preload", n |-> n, host |-> (h = "H"), b |-> i])
       \/ \E n \in NS, f \in {s \in Srcs : s \in {"F1", "F2"}}, i \in BehIdx :
             Do([op |-> "file", n |-> n, d |-> IF f = "F1" THEN 1 ELSE 2, syn |-> FALSE, b |-> i])
       \/ /\ Extra
          /\ \/ \E n \in NS : st.preload[n].lid # "none" /\ Do([op |-> "unpreload", n |-> n])
             \/ \E n \in NS, d \in 1..2 : st.files[d][n].lid # "none" /\ Do([op |-> "rmfile", n |-> n, d |-> d])
             \/ \E n \in NS : "F1" \in Srcs /\ Do([op |-> "file", n |-> n, d |-> 1, syn |-> TRUE, b |-> 1])
             \/ \E n \in NS, k \in {"tbl", "num", "nil"} : Do([op |-> "glob", n |-> n, kind |-> k])
             \/ \E n \in NS : Do([op |-> "register", n |-> n, f |-> IF n = Names[1] THEN "f1" ELSE "f2"])

Spec == Init /\ [][Next]_vars

(* ---- laws ---------------------------------------------------------------- *)

ValsOf(s) == {Nil, True, False} \cup {Tbl(i) : i \in 1..s.nobj} \cup {Num(i) : i \in 0..s.ninv}

TypeOK ==
    /\ \A n \in NS : st.loaded[n] \in ValsOf(st) \cup {Sent} /\ st.glob[n] \in ValsOf(st)
    /\ \A p \in st.flds : IsTbl(st, p[1])

(* a loaded module is never loaded again: require returns the identical     *)
(* cached value, runs nothing and changes nothing                           *)
CacheHit ==
    \A n \in NS : Truthy(st.loaded[n]) /\ st.loaded[n] # Sent =>
        LET r == DoRequire(Clr(st), n) IN r.res = Ok(st.loaded[n]) /\ r.st = Clr(st)

(* the mark of a loader in progress / failed makes require fail, not load   *)
SentinelIsLoop ==
    \A n \in NS : st.loaded[n] = Sent =>
        LET r == DoRequire(Clr(st), n) IN r.res = <<"err", "loop", n>> /\ r.st = Clr(st)

Op == hist'[Len(hist')]
IsReq == Op.op = "req"
Falsy(n) == ~Truthy(st.loaded[n])
Found(n) == FindLoader(st, n)

(* the cached value of a module is replaced by nothing but package.loaded[n]=nil *)
(* and luaL_register over a non-table                                            *)
CacheStable ==
    \A n \in NS : (Truthy(st.loaded[n]) /\ st.loaded[n] # Sent /\ st'.loaded[n] # st.loaded[n]) =>
        /\ Op.n = n
        /\ Op.op \in {"clear", "register"}
        /\ Op.op = "register" => ~IsTbl(st, st.loaded[n])

ResultIsCached == (IsReq /\ res'[1] = "ok") => st'.loaded[Op.n] = res'[2]

SentinelOnlyAfterFailure ==
    \A n \in NS : (st'.loaded[n] = Sent /\ st.loaded[n] # Sent) => (IsReq /\ IsErr(res'))

FailureLeavesSentinel ==
    (IsReq /\ Falsy(Op.n) /\ Found(Op.n).kind = "found" /\ IsErr(res')
       /\ Found(Op.n).ld.beh.pre = "none" /\ Found(Op.n).ld.beh.post = "none") => st'.loaded[Op.n] = Sent

PreloadFirst ==
    (IsReq /\ Falsy(Op.n) /\ st.preload[Op.n].lid # "none") =>
        (Len(st'.log) >= 1 /\ st'.log[1] = <<"run", st.preload[Op.n].lid, Op.n>>)

PathOrder ==
    (IsReq /\ Falsy(Op.n) /\ st.preload[Op.n].lid = "none") =>
        LET f1 == st.files[1][Op.n]
            f2 == st.files[2][Op.n]
        IN /\ (f1.lid # "none" /\ ~f1.syn) => (Len(st'.log) >= 1 /\ st'.log[1] = <<"run", f1.lid, Op.n>>)
           /\ (f1.lid # "none" /\ f1.syn) => (res' = <<"err", "loaderr", Op.n>> /\ st' = Clr(st))
           /\ (f1.lid = "none" /\ f2.lid # "none" /\ ~f2.syn) => (Len(st'.log) >= 1 /\ st'.log[1] = <<"run", f2.lid, Op.n>>)
           /\ (f1.lid = "none" /\ f2.lid = "none") => (res' = <<"err", "notfound", Op.n, "P", "11">> /\ st' = Clr(st))

NothingMeansTrue ==
    (IsReq /\ Falsy(Op.n) /\ Found(Op.n).kind = "found" /\ Found(Op.n).ld.beh = NoBeh) =>
        (res' = Ok(True) /\ st'.loaded[Op.n] = True)

(* "If the loader returns any value, require assigns the returned value to   *)
(* package.loaded[modname] ... In any case, require returns the final value  *)
(* of package.loaded[modname]" (manual 5.3): a returned value beats what the  *)
(* loader assigned itself; an assigned value is the result when nothing is    *)
(* returned.  (The value a loader makes last is the newest object / count.)   *)
ReturnedValueWins ==
    (IsReq /\ Falsy(Op.n) /\ Found(Op.n).kind = "found" /\ res'[1] = "ok") =>
        LET b == Found(Op.n).ld.beh IN
        /\ b.ret = "tbl" => res'[2] = Tbl(st'.nobj)
        /\ b.ret = "num" => res'[2] = Num(st'.ninv)
        /\ b.ret = "false" => res'[2] = False
        /\ (b.ret = "none" /\ b.post = "tbl") => res'[2] = Tbl(st'.nobj)
        /\ (b.ret = "none" /\ b.post = "none" /\ b.pre = "tbl" /\ Len(b.reqs) = 0) => res'[2] = Tbl(st'.nobj)
        /\ (b.ret = "none" /\ b.post = "nil") => res'[2] = Nil

SelfLoop ==
    (IsReq /\ Falsy(Op.n) /\ Found(Op.n).kind = "found") =>
        LET ld == Found(Op.n).ld
            b == ld.beh
        IN (b.pre = "none" /\ Len(b.reqs) >= 1 /\ b.reqs[1].n = Op.n) =>
              IF b.reqs[1].prot
              THEN Len(st'.log) >= 2 /\ st'.log[2] = <<"res", ld.lid, "1", "err", "loop", Op.n>>
              ELSE res' = <<"err", "loop", Op.n>> /\ st'.loaded[Op.n] = Sent

MutualLoop ==
    (IsReq /\ Falsy(Op.n) /\ Found(Op.n).kind = "found") =>
        LET b == Found(Op.n).ld.beh IN
        (b.pre = "none" /\ Len(b.reqs) >= 1 /\ b.reqs[1].n # Op.n /\ ~b.reqs[1].prot) =>
            LET m == b.reqs[1].n IN
            (Falsy(m) /\ Found(m).kind = "found") =>
                LET c == Found(m).ld.beh IN
                (c.pre = "none" /\ Len(c.reqs) >= 1 /\ c.reqs[1].n = Op.n /\ ~c.reqs[1].prot) =>
                    (res' = <<"err", "loop", Op.n>> /\ st'.loaded[Op.n] = Sent /\ st'.loaded[m] = Sent)

RegisterReachable ==
    (Op.op = "register" /\ res'[1] = "ok") =>
        LET T == res'[2] IN
        /\ IsTbl(st', T)
        /\ st'.loaded[Op.n] = T
        /\ <<T, Op.f>> \in st'.flds
        /\ (IsTbl(st, st.loaded[Op.n]) \/ st'.glob[Op.n] = T)
        /\ DoRequire(Clr(st'), Op.n).res = Ok(T)

StepLaws == /\ CacheStable /\ ResultIsCached /\ SentinelOnlyAfterFailure /\ FailureLeavesSentinel
            /\ PreloadFirst /\ PathOrder /\ NothingMeansTrue /\ ReturnedValueWins /\ SelfLoop /\ MutualLoop
            /\ RegisterReachable
Laws == [][StepLaws]_vars

(* ---- GEN ------------------------------------------------------------------- *)
GenPrint == Gen => PrintT("GEN " \o ToJson([h |-> hist', o |-> Obs([st |-> st', res |-> res'])]))
=============================================================================
