----------------------------- MODULE RequireMC -----------------------------
(***************************************************************************)
(* State machine over module Require for TLC (property C20).               *)
(*  MC : the laws below make the semantics of Require a credible oracle    *)
(*       (once-only / cache identity, preload precedence, path order,      *)
(*       loops are errors, what failures leave behind, host registration). *)
(*  GEN: every history up to MaxHist over the operation alphabet selected  *)
(*       by the constants is printed with the observation the semantics    *)
(*       expects for its last operation (one line per transition).         *)
(* Operations are kept compact in hist (behaviour = index into BehT).      *)
(***************************************************************************)
EXTENDS Require, Json

CONSTANTS NNames,    \* number of module names
          NameSel,   \* 1: a, b, c   2: a, p.q, p.q.r, p.q.r.s (0 to 3 dots)   3: string, package, x, y, table (host mode)
                     \* 4: package, a, b (sandbox mode: global "package" hidden, package.loaders edited / replaced)
          PathSel,   \* 1: d1/?.lua;d2/?.lua   2: d1/?.lua;d2/?/init.lua;d3/?/x-?.lua (several marks)
          BehIdx,    \* indices into BehT usable by installed loaders
          Srcs,      \* subset of {"L", "H", "F1", "F2", "F3"}: Lua preload, host PreloadModule, file for template 1 / 2 / 3
          Decoys,    \* TRUE: files are also put where a wrong name-to-file conversion would look
                     \*       (only the first / only the last / no dot turned into the separator)
          Extra,     \* TRUE: also unpreload / rmfile / non-compiling file / global assignment / RegisterModule
          MaxHist,
          Gen

AllParts == CASE NameSel = 1 -> <<<<"a">>, <<"b">>, <<"c">>>>
              [] NameSel = 2 -> <<<<"a">>, <<"p", "q">>, <<"p", "q", "r">>, <<"p", "q", "r", "s">>>>
              [] NameSel = 3 -> <<<<"string">>, <<"package">>, <<"x">>, <<"y">>, <<"table">>>>   \* host mode
              [] OTHER -> <<<<"package">>, <<"a">>, <<"b">>>>      \* sandbox mode: the library "package" is observed too
Sandbox == NameSel = 4  \* scripts hide the global "package" and edit / replace package.loaders
Host == NameSel = 3     \* the state starts without libraries; the host opens them in any order
Parts == SubSeq(AllParts, 1, NNames)
RECURSIVE MapName(_)
MapName(ps) == IF Len(ps) = 0 THEN <<>> ELSE <<NameStr(Head(ps))>> \o MapName(Tail(ps))
Names == MapName(Parts)

T1 == <<<<"d1">>, <<"?", ".lua">>>>
T2 == <<<<"d2">>, <<"?", ".lua">>>>
T2i == <<<<"d2">>, <<"?">>, <<"init.lua">>>>
T3 == <<<<"d3">>, <<"?">>, <<"x-", "?", ".lua">>>>
Path == IF PathSel = 1 THEN <<T1, T2>> ELSE <<T1, T2i, T3>>

NS == SeqSet(Names)
UNS == NS \ {"package"}       \* the modules histories install loaders for
Other(n) == LET i == CHOOSE i \in 1..Len(Names) : Names[i] = n IN Names[(i % Len(Names)) + 1]

B(pre, reqs, post, fail, ret) == [pre |-> pre, reqs |-> reqs, post |-> post, fail |-> fail, ret |-> ret]
R(n, p) == [n |-> n, prot |-> p]

(* the behaviour alphabet of a loader for module n *)
BehT(n) == <<
    B("none", <<>>, "none", FALSE, "tbl"),                      \*  1 returns a value
    B("none", <<>>, "none", FALSE, "none"),                     \*  2 returns nothing
    B("tbl", <<>>, "none", FALSE, "none"),                      \*  3 assigns package.loaded[n] itself
    B("none", <<>>, "none", TRUE, "none"),                      \*  4 fails
    B("none", <<R(Other(n), FALSE)>>, "none", FALSE, "tbl"),    \*  5 requires another module
    B("none", <<R(n, FALSE)>>, "none", FALSE, "tbl"),           \*  6 requires itself
    B("none", <<R(n, TRUE)>>, "none", FALSE, "num"),            \*  7 requires itself under pcall, then succeeds
    B("tbl", <<>>, "none", FALSE, "tbl"),                       \*  8 assigns and returns another value
    B("none", <<>>, "none", FALSE, "false"),                    \*  9 returns false
    B("module", <<>>, "none", FALSE, "none"),                   \* 10 calls module(n)
    B("none", <<R(Other(n), TRUE)>>, "none", TRUE, "none"),     \* 11 requires another module under pcall, then fails
    B("none", <<>>, "nil", FALSE, "none"),                      \* 12 un-marks itself, returns nothing
    B("tbl", <<R(n, FALSE)>>, "none", FALSE, "none"),           \* 13 assigns, then requires itself
    B("none", <<R(Other(n), FALSE), R(Other(n), FALSE)>>, "num", FALSE, "none"),  \* 14 requires another module twice, assigns late
    B("num", <<>>, "none", TRUE, "none")                        \* 15 assigns, then fails
>>

ASSUME PrintT("BEHS " \o ToJson([n \in NS |-> BehT(n)]))

VARIABLES st, hist, res
vars == <<st, hist, res>>
Clr(s) == [s EXCEPT !.log = <<>>]
mcview == <<Clr(st), Len(hist)>>

Init == /\ st = InitState(Names, Parts, IF Sandbox THEN 1 ELSE 0, Path, Host)
        /\ hist = <<>>
        /\ res = NoRes

NameIdx(n) == CHOOSE i \in 1..Len(Names) : Names[i] = n

(* the splits of a name a wrong conversion could use; 1 is the right one *)
AltSplits(ps) ==
    LET k == Len(ps) IN
    <<ps,
      IF k = 1 THEN ps ELSE <<ps[1], NameStr(Tail(ps))>>,
      IF k = 1 THEN ps ELSE <<NameStr(SubSeq(ps, 1, k - 1)), ps[k]>>,
      <<NameStr(ps)>>>>
SplitOK(n, s) == LET a == AltSplits(Parts[NameIdx(n)]) IN \A j \in 1..(s - 1) : a[j] # a[s]
FilePath(n, t, s) == CandNorm(Path[t], AltSplits(Parts[NameIdx(n)])[s])
FileTs == {t \in 1..Len(Path) : ("F" \o ToString(t)) \in Srcs}

Full(c) ==
    CASE c.op = "preload" -> [op |-> "preload", n |-> c.n, host |-> c.host, beh |-> BehT(c.n)[c.b]]
      [] c.op = "file" -> [op |-> "file", n |-> c.n, path |-> c.path, syn |-> c.syn, beh |-> BehT(c.n)[c.b]]
      [] OTHER -> c

(* Installations have no result of their own and commute, so GEN keeps one  *)
(* order of every run of adjacent installations: strictly increasing slot   *)
(* (name, then preload < files by template and split).  MC explores all.    *)
IsInstall(c) == c.op \in {"preload", "file"}
SlotRank(c) == 16 * NameIdx(c.n) + (IF c.op = "preload" THEN 0 ELSE 4 * (c.t - 1) + c.s)

Do(c) ==
    /\ (Len(hist) = 0 /\ NameSel = 1) => c.n = Names[1]     \* the names a, b, c are interchangeable
    /\ (Gen /\ Len(hist) > 0 /\ IsInstall(c) /\ IsInstall(hist[Len(hist)])) => SlotRank(hist[Len(hist)]) < SlotRank(c)
    /\ OpWellFormed(st, Full(c))
    /\ LET r == Exec(st, Full(c), Len(hist) + 1)
       IN /\ st' = r.st
          /\ res' = r.res
          /\ hist' = Append(hist, c)

Opens(lib) == Cardinality({k \in 1..Len(hist) : hist[k].op = "open" /\ hist[k].lib = lib})

(* host mode: libraries opened in any order (the package library possibly   *)
(* twice), RegisterModule(x) at any time, PreloadModule(y) and require once  *)
(* base and package are open                                                *)
HostNext ==
    \/ \E lib \in {"base", "package", "string", "table"} :
          /\ LibName(lib) \in NS \/ lib = "base"
          /\ Opens(lib) < (IF lib = "package" THEN 2 ELSE 1)
          /\ Do([op |-> "open", n |-> LibName(lib), lib |-> lib])
    \/ st.loaded["x"] = Nil /\ Do([op |-> "register", n |-> "x", f |-> "f1"])
    \/ \E i \in BehIdx : st.preload["y"].lid = "none" /\ Do([op |-> "preload", n |-> "y", host |-> TRUE, b |-> i])
    \/ \E n \in NS : Do([op |-> "req", n |-> n])

(* sandbox mode: the global "package" is set to nil / a number / put back;   *)
(* package.loaders is edited in place or replaced by a new table holding the *)
(* listed searchers                                                           *)
SearcherLists == {<<"C">>, <<"F", "P">>, <<"N", "P", "F">>, <<"P", "N">>, <<>>, <<"P", "F">>}
SandboxNext ==
    \/ \E k \in {"nil", "num", "loaded"} : Do([op |-> "glob", n |-> "package", kind |-> k])
    \/ \E how \in {"replace", "inplace"}, l \in SearcherLists : Do([op |-> "loaders", n |-> "package", how |-> how, list |-> l])
    \* entries of package.loaded removed: "package" itself, or all of them (hot reload)
    \/ st.loaded["package"] # Nil /\ Do([op |-> "clear", n |-> "package"])
    \/ Do([op |-> "clearall", n |-> "package"])
    \* a metatable on the table of globals; module()-style loaders and RegisterModule of user modules
    \/ \E k \in {"strict", "fallback", "none"} : Do([op |-> "gmeta", n |-> "package", kind |-> k])
    \/ \E n \in UNS : Do([op |-> "register", n |-> n, f |-> "f1"])

Next ==
    /\ Len(hist) < MaxHist
    /\ IF Host THEN HostNext ELSE
       \/ \E n \in NS : Do([op |-> "req", n |-> n])
       \/ Sandbox /\ SandboxNext
       \/ \E n \in UNS : st.loaded[n] # Nil /\ Do([op |-> "clear", n |-> n])
       \/ \E n \in UNS, h \in {s \in Srcs : s \in {"L", "H"}}, i \in BehIdx :
             Do([op |-> "preload", n |-> n, host |-> (h = "H"), b |-> i])
       \/ \E n \in UNS, t \in FileTs, i \in BehIdx, sp \in (IF Decoys THEN 1..4 ELSE {1}) :
             SplitOK(n, sp) /\ Do([op |-> "file", n |-> n, t |-> t, s |-> sp, syn |-> FALSE, b |-> i, path |-> FilePath(n, t, sp)])
       \/ /\ Extra
          /\ \/ \E n \in UNS : st.preload[n].lid # "none" /\ Do([op |-> "unpreload", n |-> n])
             \/ \E n \in NS, t \in 1..Len(Path) :
                   CandLoader(st, n, t).lid # "none" /\ Do([op |-> "rmfile", n |-> n, t |-> t, path |-> FilePath(n, t, 1)])
             \/ \E n \in NS : 1 \in FileTs /\ Do([op |-> "file", n |-> n, t |-> 1, s |-> 1, syn |-> TRUE, b |-> 1, path |-> FilePath(n, 1, 1)])
             \/ \E n \in NS, k \in {"tbl", "num", "nil"} : Do([op |-> "glob", n |-> n, kind |-> k])
             \/ \E n \in NS : Do([op |-> "register", n |-> n, f |-> IF n = Names[1] THEN "f1" ELSE "f2"])
             \/ Do([op |-> "open", n |-> Names[1], lib |-> "package"])      \* the host opens the package library again

Spec == Init /\ [][Next]_vars

(* ---- laws ---------------------------------------------------------------- *)

ValsOf(s) == {Nil, True, False} \cup {Tbl(i) : i \in 1..s.nobj} \cup {Num(i) : i \in 0..s.ninv}

(* a loaded module is never loaded again: require returns the identical     *)
(* cached value, runs nothing and changes nothing                           *)
CacheHit ==
    \A n \in NS : Truthy(st.loaded[n]) /\ st.loaded[n] # Sent =>
        LET r == DoRequire(Clr(st), n) IN r.res = Ok(st.loaded[n]) /\ r.st = Clr(st)

(* every library the host opened is reachable through require and through   *)
(* its global name, whatever the order in which things were opened           *)
HostReachable ==
    \* (sandbox histories assign the global and un-load the library on purpose)
    \A n \in NS \cap {"string", "table", "package"} : (~Sandbox /\ n \in st.opened /\ Ready(st)) =>
        /\ IsTbl(st, st.loaded[n]) /\ DoRequire(Clr(st), n).res = Ok(st.loaded[n])
        /\ st.loaded[n] = st.glob[n]

(* the mark of a loader in progress / failed makes require fail, not load   *)
SentinelIsLoop ==
    \A n \in NS : st.loaded[n] = Sent =>
        LET r == DoRequire(Clr(st), n) IN r.res = <<"err", "loop", n>> /\ r.st = Clr(st)

Op == hist'[Len(hist')]
IsReq == Op.op = "req"
Falsy(n) == ~Truthy(st.loaded[n])
Found(n) == FindLoader(st, n)

(* the cached value of a module is replaced by nothing but package.loaded[n]=nil *)
(* and luaL_register over a non-table                                            *)
CacheStable ==
    \A n \in NS : (Truthy(st.loaded[n]) /\ st.loaded[n] # Sent /\ st'.loaded[n] # st.loaded[n]) =>
        \/ Op.op = "clearall"
        \/ /\ Op.n = n
           /\ Op.op \in {"clear", "register"}
           /\ Op.op = "register" => ~IsTbl(st, st.loaded[n])

ResultIsCached == (IsReq /\ res'[1] = "ok") => st'.loaded[Op.n] = res'[2]

SentinelOnlyAfterFailure ==
    \A n \in NS : (st'.loaded[n] = Sent /\ st.loaded[n] # Sent) => (IsReq /\ IsErr(res'))

FailureLeavesSentinel ==
    (IsReq /\ Falsy(Op.n) /\ Found(Op.n).kind = "found" /\ IsErr(res')
       /\ Found(Op.n).ld.beh.pre = "none" /\ Found(Op.n).ld.beh.post = "none") => st'.loaded[Op.n] = Sent

Std == st.searchers = StdSearchers
PreloadFirst ==
    (Std /\ IsReq /\ Falsy(Op.n) /\ st.preload[Op.n].lid # "none") =>
        (Len(st'.log) >= 1 /\ st'.log[1] = <<"run", st.preload[Op.n].lid, Op.n>>)

(* the path searcher: the first template whose file exists decides; a file   *)
(* that does not compile is an error that leaves nothing behind; without any  *)
(* file the error lists the preload attempt and every template's file name    *)
PathOrder ==
    (Std /\ IsReq /\ Falsy(Op.n) /\ st.preload[Op.n].lid = "none") =>
        LET n == Op.n
            has == {i \in 1..NT(st) : CandLoader(st, n, i).lid # "none"}
        IN IF has = {}
           THEN /\ res' = <<"err", "notfound", n, "P">> \o CandRaws(st, n)
                /\ Len(res') = 4 + Len(st.path)
                /\ st' = Clr(st)
           ELSE LET i == CHOOSE i \in has : \A j \in has : i <= j
                    f == CandLoader(st, n, i)
                IN IF f.syn THEN res' = <<"err", "loaderr", CandRaw(st.path[i], st.parts[n])>> /\ st' = Clr(st)
                   ELSE Len(st'.log) >= 1 /\ st'.log[1] = <<"run", f.lid, n>>

(* A file is found only under the name with ALL dots turned into directory   *)
(* separators: a loader that runs was installed as a preload entry or at the  *)
(* right split of its name, never at a decoy; and every mark of a template is *)
(* replaced (one more path segment per dot and mark).                         *)
InstallerOf(lid) == hist'[CHOOSE k \in 1..Len(hist') : ("L" \o ToString(k)) = lid]
DecoyNeverLoaded ==
    \A j \in 1..Len(st'.log) : st'.log[j][1] = "run" =>
        LET c == InstallerOf(st'.log[j][2]) IN c.op \in {"preload", "loaders"} \/ (c.op = "file" /\ c.s = 1)
Marks(t) == LET RECURSIVE Cnt(_)
                Cnt(x) == IF Len(x) = 0 THEN 0 ELSE Cardinality({k \in 1..Len(x[1]) : x[1][k] = Mark}) + Cnt(Tail(x))
            IN Cnt(t)
EveryDotEveryMark ==
    \A i \in 1..Len(Names), t \in 1..Len(Path) :
        Len(CandSegs(Path[t], Parts[i])) = Len(Path[t]) + Marks(Path[t]) * (Len(Parts[i]) - 1)

TypeOK ==
    /\ \A n \in NS : st.loaded[n] \in ValsOf(st) \cup {Sent} /\ st.glob[n] \in ValsOf(st)
    /\ \A p \in st.flds : IsTbl(st, p[1])
    /\ NamesWellFormed(Names, Parts)
    /\ EveryDotEveryMark

NothingMeansTrue ==
    (IsReq /\ Falsy(Op.n) /\ Found(Op.n).kind = "found" /\ Found(Op.n).ld.beh = NoBeh) =>
        (res' = Ok(True) /\ st'.loaded[Op.n] = True)

(* "If the loader returns any value, require assigns the returned value to   *)
(* package.loaded[modname] ... In any case, require returns the final value  *)
(* of package.loaded[modname]" (manual 5.3): a returned value beats what the  *)
(* loader assigned itself; an assigned value is the result when nothing is    *)
(* returned.  (The value a loader makes last is the newest object / count.)   *)
ReturnedValueWins ==
    (IsReq /\ Falsy(Op.n) /\ Found(Op.n).kind = "found" /\ res'[1] = "ok") =>
        LET b == Found(Op.n).ld.beh IN
        /\ b.ret = "tbl" => res'[2] = Tbl(st'.nobj)
        /\ b.ret = "num" => res'[2] = Num(st'.ninv)
        /\ b.ret = "false" => res'[2] = False
        /\ (b.ret = "none" /\ b.post = "tbl") => res'[2] = Tbl(st'.nobj)
        /\ (b.ret = "none" /\ b.post = "none" /\ b.pre = "tbl" /\ Len(b.reqs) = 0) => res'[2] = Tbl(st'.nobj)
        /\ (b.ret = "none" /\ b.post = "nil") => res'[2] = Nil

(* a loader that defines its module with module(name) and returns nothing:   *)
(* the result is the module table, which is also the global of that name -    *)
(* on a first load and on every reload                                        *)
ModuleResultIsGlobalTable ==
    (IsReq /\ Falsy(Op.n) /\ Found(Op.n).kind = "found" /\ res'[1] = "ok") =>
        LET b == Found(Op.n).ld.beh IN
        (b.pre = "module" /\ b.post = "none" /\ b.ret = "none") =>
            (IsTbl(st', res'[2]) /\ res'[2] = st'.glob[Op.n] /\ st'.loaded[Op.n] = res'[2])

(* after package.loaded[n] = nil the next require runs the loader again (and  *)
(* every law about a load applies to it: they are stated for any unloaded n)  *)
UnloadReloads ==
    (Len(hist) >= 1 /\ hist[Len(hist)].op = "clear" /\ IsReq /\ Op.n = hist[Len(hist)].n /\ Found(Op.n).kind = "found") =>
        (Len(st'.log) >= 1 /\ st'.log[1] = <<"run", Found(Op.n).ld.lid, Op.n>>)

(* opening a library - the package library in particular, also a second time - *)
(* forgets nothing: package.loaded and the globals change at most for the      *)
(* library being opened, and only if it was not there                          *)
OpenKeepsLoaded ==
    Op.op = "open" =>
        \A n \in NS : \/ (st'.loaded[n] = st.loaded[n] /\ st'.glob[n] = st.glob[n])
                      \/ (n = LibName(Op.lib) /\ ~IsTbl(st, st.loaded[n]))

(* require obeys the CURRENT content of package.loaders - edited in place or *)
(* replaced - in its order, and never depends on the global "package":       *)
(*  a leading custom searcher that finds everything loads every unloaded     *)
(*  module; with the path searcher before the preload searcher a file beats  *)
(*  a preload entry; with no searcher, or only refusing ones, nothing is     *)
(*  loaded and the error lists exactly the refusals of the current searchers *)
SearchersObeyed ==
    (IsReq /\ Falsy(Op.n) /\ Len(st.searchers) >= 0) =>
        LET n == Op.n
            ss == st.searchers
        IN /\ (Len(ss) >= 1 /\ ss[1].k = "C") => (Len(st'.log) >= 1 /\ st'.log[1] = <<"run", ss[1].lid, n>>)
           /\ (Len(ss) = 0) => (res' = <<"err", "notfound", n>> /\ st' = Clr(st))
           /\ (Len(ss) >= 2 /\ ss[1].k = "F" /\ ss[2].k = "P" /\ st.preload[n].lid # "none"
                 /\ \E t \in 1..NT(st) : CandLoader(st, n, t).lid # "none" /\ ~CandLoader(st, n, t).syn
                                          /\ \A u \in 1..(t - 1) : CandLoader(st, n, u).lid = "none")
                => (Len(st'.log) >= 1 /\ st'.log[1][1] = "run" /\ st'.log[1][2] # st.preload[n].lid)
           /\ (\A i \in 1..Len(ss) : ss[i].k = "N") =>
                 (res' = <<"err", "notfound", n>> \o [i \in 1..Len(ss) |-> "N:" \o ss[i].lid] /\ st' = Clr(st))
GlobalPackageIrrelevant ==
    (Op.op = "glob" /\ Op.n = "package") =>
        \A n \in NS : LET a == DoRequire(Clr(st), n)
                          b == DoRequire(Clr(st'), n)
                      IN a.res = b.res /\ a.st.loaded = b.st.loaded /\ a.st.log = b.st.log

(* removing package.loaded["package"] (or everything) only un-loads: require  *)
(* of any other module behaves as it would have; a metatable on the globals   *)
(* changes nothing for require, module() and luaL_register (raw accesses)     *)
SameRequire(a, b, n) == LET x == DoRequire(Clr(a), n)
                            y == DoRequire(Clr(b), n)
                        IN x.res = y.res /\ x.st.log = y.st.log /\ x.st.glob = y.st.glob
UnloadingPackageIrrelevant ==
    (Op.op = "clear" /\ Op.n = "package") => \A n \in UNS : SameRequire(st, st', n)
ClearAllOnlyUnloads ==
    Op.op = "clearall" => \A n \in NS : SameRequire([st EXCEPT !.loaded = [m \in DOMAIN @ |-> Nil]], st', n)
GlobalsMetatableIrrelevant ==
    (Op.op = "gmeta" /\ Op.kind # "fallback") =>
        \A n \in UNS : SameRequire(st, st', n) /\ Register(Clr(st), n, "f1").res = Register(Clr(st'), n, "f1").res

SelfLoop ==
    (IsReq /\ Falsy(Op.n) /\ Found(Op.n).kind = "found") =>
        LET ld == Found(Op.n).ld
            b == ld.beh
        IN (b.pre = "none" /\ Len(b.reqs) >= 1 /\ b.reqs[1].n = Op.n) =>
              IF b.reqs[1].prot
              THEN Len(st'.log) >= 2 /\ st'.log[2] = <<"res", ld.lid, "1", "err", "loop", Op.n>>
              ELSE res' = <<"err", "loop", Op.n>> /\ st'.loaded[Op.n] = Sent

MutualLoop ==
    (IsReq /\ Falsy(Op.n) /\ Found(Op.n).kind = "found") =>
        LET b == Found(Op.n).ld.beh IN
        (b.pre = "none" /\ Len(b.reqs) >= 1 /\ b.reqs[1].n # Op.n /\ ~b.reqs[1].prot) =>
            LET m == b.reqs[1].n IN
            (Falsy(m) /\ Found(m).kind = "found") =>
                LET c == Found(m).ld.beh IN
                (c.pre = "none" /\ Len(c.reqs) >= 1 /\ c.reqs[1].n = Op.n /\ ~c.reqs[1].prot) =>
                    (res' = <<"err", "loop", Op.n>> /\ st'.loaded[Op.n] = Sent /\ st'.loaded[m] = Sent)

RegisterReachable ==
    (Op.op = "register" /\ res'[1] = "ok") =>
        LET T == res'[2] IN
        /\ IsTbl(st', T)
        /\ st'.loaded[Op.n] = T
        /\ <<T, Op.f>> \in st'.flds
        /\ (IsTbl(st, st.loaded[Op.n]) \/ st'.glob[Op.n] = T)
        /\ DoRequire(Clr(st'), Op.n).res = Ok(T)

StepLaws == /\ CacheStable /\ ResultIsCached /\ SentinelOnlyAfterFailure /\ FailureLeavesSentinel
            /\ PreloadFirst /\ PathOrder /\ DecoyNeverLoaded /\ NothingMeansTrue /\ ReturnedValueWins /\ SelfLoop /\ MutualLoop
            /\ RegisterReachable /\ ModuleResultIsGlobalTable /\ UnloadReloads /\ OpenKeepsLoaded
            /\ SearchersObeyed /\ GlobalPackageIrrelevant
            /\ UnloadingPackageIrrelevant /\ ClearAllOnlyUnloads /\ GlobalsMetatableIrrelevant
Laws == [][StepLaws]_vars

(* ---- GEN ------------------------------------------------------------------- *)
GenPrint == Gen => PrintT("GEN " \o ToJson([h |-> hist', o |-> Obs([st |-> st', res |-> res'])]))
=============================================================================
