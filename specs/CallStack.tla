----------------------------- MODULE CallStack -----------------------------
(***************************************************************************)
(* Abstract specification of the call-frame stack (property C12): a        *)
(* bounded sequence of frames.  A frame is represented by its tag (the     *)
(* harness stores it in callFrame.Pc); the Idx field of the frame at       *)
(* 0-based position i must be i.                                           *)
(*                                                                         *)
(* Two bounds (DESIGN 4/C12, section 6 row 14):                            *)
(*   size - the configured size (Options.CallStackSize).  Below it an      *)
(*          overflow is FORBIDDEN.                                         *)
(*   hard - the hard capacity of the implementation (fixed stack: size;    *)
(*          segmented stack: next multiple of FramesPerSegment, as its own *)
(*          comment documents).  At it an overflow is MANDATORY.           *)
(* In between either answer is admissible (explicit nondeterminism).       *)
(* An overflow is reported by IsFull() = TRUE or by Push panicking; a      *)
(* refused Push leaves the stack unchanged.                                *)
(*                                                                         *)
(* Protocol preconditions (what the VM guarantees, state.go / vm.go):      *)
(*   Pop only on a non-empty stack, At(i) only for i < Sp,                 *)
(*   SetSp(n) only for n <= Sp ("should not be used to allocate").         *)
(***************************************************************************)
EXTENDS Integers, Sequences

FramesPerSegment == 8

(* hard capacity of the two implementations *)
HardCap(impl, size) ==
    IF impl = "fixed" THEN size
    ELSE ((size + (FramesPerSegment - 1)) \div FramesPerSegment) * FramesPerSegment

NoFrame == <<-1, -1>>                        \* wrapper encoding of a nil *callFrame
FrameAt(s, i) == <<s[i + 1], i>>             \* <<tag, Idx>> of 0-based position i

(* ---- admissibility of the overflow answers ------------------------------ *)
PushMaySucceed(s, hard) == Len(s) < hard
PushMayOverflow(s, size) == Len(s) >= size
IsFullOK(s, size, r) == r => Len(s) >= size

(* ---- the sequence operations ---------------------------------------------- *)
Push(s, tag) == Append(s, tag)
PopPre(s) == Len(s) > 0
Pop(s) == SubSeq(s, 1, Len(s) - 1)
PopResult(s) == FrameAt(s, Len(s) - 1)
SetSpPre(s, n) == n >= 0 /\ n <= Len(s)
SetSp(s, n) == SubSeq(s, 1, n)
Last(s) == IF Len(s) = 0 THEN NoFrame ELSE FrameAt(s, Len(s) - 1)
AtPre(s, i) == i >= 0 /\ i < Len(s)
IsEmpty(s) == Len(s) = 0
Sp(s) == Len(s)

(* every observer of a stack that holds s, as the harness reports them *)
ObsOK(s, size, o) ==
    /\ o.sp = Len(s)
    /\ o.empty = IsEmpty(s)
    /\ IsFullOK(s, size, o.full)
    /\ o.last = Last(s)
    /\ Len(o.at) = Len(s)
    /\ \A i \in 0..(Len(s) - 1) : o.at[i + 1] = FrameAt(s, i)

(* first failing observer (for the case key), "" when all agree *)
ObsWhy(s, size, o) ==
    CASE o.sp # Len(s) -> "Sp"
      [] o.empty # IsEmpty(s) -> "IsEmpty"
      [] ~IsFullOK(s, size, o.full) -> "IsFull"
      [] o.last # Last(s) -> "Last"
      [] Len(o.at) # Len(s) -> "At"
      [] \E i \in 0..(Len(s) - 1) : o.at[i + 1] # FrameAt(s, i) -> "At"
      [] OTHER -> ""
=============================================================================
