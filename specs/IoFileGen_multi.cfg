SPECIFICATION Spec
CONSTANTS
  Sizes = {0, 2, 4100}
  Lays <- MC_MultiLays
  Modes = {"r", "r+", "in"}
  RCounts = {2}
  WCounts <- MC_None
  SOffs = {0}
  VBufs <- MC_None
  MFmts <- MC_MultiFmts
  VSizes = {0}
  Extra = {"readall", "close", "long"}
  Naive = FALSE
  Gen = TRUE
VIEW genview
ACTION_CONSTRAINT GenPrint
CHECK_DEADLOCK FALSE
