--------------------------- MODULE CallStackImpl ---------------------------
(***************************************************************************)
(* Implementation-shaped specification of the two call-frame stacks of     *)
(* state.go (property C12), each a line-by-line transcription:             *)
(*   fx - fixedCallFrameStack: array + sp                                  *)
(*   au - autoGrowingCallFrameStack: segments of FramesPerSegment frames,  *)
(*        segIdx (si), segSp (ss); a freed segment (segmentPool.Put, slot  *)
(*        set to nil) is NoSeg, a fresh one (pool or new) holds junk.      *)
(* The abstract sequence seq of module CallStack is carried along and TLC  *)
(* checks the refinement invariants below.  The same state graph is        *)
(* exported (Gen) as operation histories to replay on the real stacks.     *)
(* A frame is <<tag, Idx>>; the tag of a Push is its position in the       *)
(* history (unique), so a read of a wrong or stale slot is visible.        *)
(***************************************************************************)
EXTENDS Integers, Sequences, FiniteSets, TLC, Json

CONSTANTS Impls,        \* subset of {"fixed", "auto"}
          Sizes,        \* configured sizes to explore
          MaxHist,      \* history depth bound
          DepthInView,  \* TRUE: one exported history per (state, depth) transition
          Gen           \* TRUE: print one GEN line per transition

INSTANCE CallStack

VARIABLES Impl, Size,   \* chosen by Init, constant afterwards
          seq, fx, au, hist, res, defect
vars == <<Impl, Size, seq, fx, au, hist, res, defect>>

Junk == <<-2, -2>>
NoSeg == <<>>
NewSeg == [i \in 1..FramesPerSegment |-> Junk]
NSegs == (Size + (FramesPerSegment - 1)) \div FramesPerSegment
Hard == HardCap(Impl, Size)

Init ==
    /\ Impl \in Impls
    /\ Size \in Sizes
    /\ seq = <<>>
    /\ fx = [arr |-> [i \in 1..Size |-> Junk], sp |-> 0]
    /\ au = [segs |-> [i \in 1..NSegs |-> IF i = 1 THEN NewSeg ELSE NoSeg], si |-> 0, ss |-> 0]
    /\ hist = <<>>
    /\ res = [op |-> "init", ok |-> TRUE]
    /\ defect = FALSE

(* ---- fixedCallFrameStack -------------------------------------------------- *)
FxIsEmpty == fx.sp = 0
FxIsFull == fx.sp = Len(fx.arr)
FxSp == fx.sp
FxLast == IF fx.sp = 0 THEN NoFrame ELSE fx.arr[fx.sp]
FxAt(i) == fx.arr[i + 1]
FxPushPanics == fx.sp >= Len(fx.arr)              \* index out of range
FxPush(tag) == [arr |-> [fx.arr EXCEPT ![fx.sp + 1] = <<tag, fx.sp>>], sp |-> fx.sp + 1]
FxPop == [fx EXCEPT !.sp = fx.sp - 1]
FxPopResult == fx.arr[fx.sp]                      \* &cs.array[cs.sp] after sp--
FxSetSp(n) == [fx EXCEPT !.sp = n]

(* ---- autoGrowingCallFrameStack -------------------------------------------- *)
AuIsEmpty == au.si = 0 /\ au.ss = 0
\* since fix 5a3ef35 the Go stacks hold 8 more frames (one more segment slot) than transcribed here, usable only while a
\* message handler runs (AddReserve); with no handler running - the only mode these wrappers drive - the limits are the ones
\* below, and Push refuses anything beyond them.  The reserve itself is exercised by C05's overflow family.
AuIsFull == au.si = Len(au.segs) - 1 /\ au.ss >= FramesPerSegment      \* as repaired by fix d965ea3 (the comparison with Len(au.segs) was never true)
AuSp == au.ss + au.si * FramesPerSegment
AuPushPanics == au.ss >= FramesPerSegment /\ ~(au.si < Len(au.segs) - 1)
AuPush(tag) ==
    IF au.ss >= FramesPerSegment
    THEN \* segment full, push new segment
         [segs |-> [au.segs EXCEPT ![au.si + 2] =
                        [NewSeg EXCEPT ![1] = <<tag, 0 + FramesPerSegment * (au.si + 1)>>]],
          si |-> au.si + 1, ss |-> 1]
    ELSE [au EXCEPT !.segs[au.si + 1][au.ss + 1] = <<tag, au.ss + FramesPerSegment * au.si>>,
                    !.ss = au.ss + 1]
(* SetSp: free every segment above the desired one, then set segSp *)
AuSetSp(n) ==
    LET dsi == n \div FramesPerSegment
        dss == n % FramesPerSegment
        nsi == IF au.si <= dsi THEN au.si ELSE dsi
    IN [segs |-> [i \in 1..Len(au.segs) |-> IF i - 1 > nsi /\ i - 1 <= au.si THEN NoSeg ELSE au.segs[i]],
        si |-> nsi, ss |-> dss]
(* nil-pointer dereference of a freed segment is modelled as the value "crash" *)
SegSlot(i, j) == IF au.segs[i] = NoSeg THEN <<"crash", "crash">> ELSE au.segs[i][j]
AuLast ==
    IF au.ss = 0
    THEN (IF au.si = 0 THEN NoFrame ELSE SegSlot(au.si, FramesPerSegment))
    ELSE SegSlot(au.si + 1, au.ss)
AuAt(i) == SegSlot((i \div FramesPerSegment) + 1, (i % FramesPerSegment) + 1)
AuPopState ==
    IF au.ss = 0
    THEN \* au.si > 0 by the protocol precondition
         [segs |-> [au.segs EXCEPT ![au.si + 1] = NoSeg], si |-> au.si - 1, ss |-> FramesPerSegment - 1]
    ELSE [au EXCEPT !.ss = au.ss - 1]
AuPopResult ==
    IF au.ss = 0 THEN SegSlot(au.si, FramesPerSegment) ELSE SegSlot(au.si + 1, au.ss)

(* Known defect of the transcribed algorithm (finding
   C12:autostack:SetSp(Sp)-on-full-segment): when the current segment is full
   (ss = FramesPerSegment) SetSp(Sp()) computes a desired segment index above
   si, frees nothing and sets ss = 0, dropping FramesPerSegment frames.  The
   design invariants below exclude exactly the states after that step (flag
   defect, no successors); trace validation against module CallStack does not. *)
SetSpDefectCase(n) == (n \div FramesPerSegment) > au.si

(* ---- actions ---------------------------------------------------------------- *)
Record(op) == /\ Len(hist) < MaxHist
              /\ hist' = Append(hist, op)
Tag == Len(hist) + 1
IsFx == Impl = "fixed"

PushAct ==
    /\ ~defect
    /\ LET panics == IF IsFx THEN FxPushPanics ELSE AuPushPanics IN
       /\ IF panics
          THEN UNCHANGED <<seq, fx, au>>
          ELSE /\ seq' = Push(seq, Tag)
               /\ IF IsFx THEN fx' = FxPush(Tag) /\ au' = au ELSE au' = AuPush(Tag) /\ fx' = fx
       /\ res' = [op |-> "push",
                  ok |-> IF panics THEN PushMayOverflow(seq, Size) ELSE PushMaySucceed(seq, Hard)]
    /\ defect' = FALSE
    /\ Record([op |-> "push"])

PopAct ==
    /\ ~defect
    /\ PopPre(seq)
    /\ seq' = Pop(seq)
    /\ IF IsFx THEN fx' = FxPop /\ au' = au ELSE au' = AuPopState /\ fx' = fx
    /\ res' = [op |-> "pop", ok |-> (IF IsFx THEN FxPopResult ELSE AuPopResult) = PopResult(seq)]
    /\ defect' = FALSE
    /\ Record([op |-> "pop"])

SetSpAct == \E n \in 0..Len(seq) :
    /\ ~defect
    /\ seq' = SetSp(seq, n)
    /\ IF IsFx THEN fx' = FxSetSp(n) /\ au' = au ELSE au' = AuSetSp(n) /\ fx' = fx
    /\ res' = [op |-> "setsp", ok |-> TRUE]
    /\ defect' = (~IsFx /\ SetSpDefectCase(n))
    /\ Record([op |-> "setsp", n |-> n])

Next == (PushAct \/ PopAct \/ SetSpAct) /\ UNCHANGED <<Impl, Size>>
Spec == Init /\ [][Next]_vars

(* ---- refinement invariants (the design check) ---------------------------------- *)
Allocated == {i \in 1..Len(au.segs) : au.segs[i] # NoSeg}
FxRefines ==
    /\ FxSp = Sp(seq)
    /\ FxIsEmpty = IsEmpty(seq)
    /\ IsFullOK(seq, Size, FxIsFull)
    /\ FxLast = Last(seq)
    /\ \A i \in 0..(Len(seq) - 1) : FxAt(i) = FrameAt(seq, i)
AuRefines ==
    /\ AuSp = Sp(seq)
    /\ AuIsEmpty = IsEmpty(seq)
    /\ IsFullOK(seq, Size, AuIsFull)
    /\ AuLast = Last(seq)
    /\ \A i \in 0..(Len(seq) - 1) : AuAt(i) = FrameAt(seq, i)
    /\ Allocated = 1..(au.si + 1)              \* no live segment freed, no freed segment kept
    /\ au.ss \in 0..FramesPerSegment /\ au.si \in 0..(Len(au.segs) - 1)
Refines == defect \/ (IF IsFx THEN FxRefines ELSE AuRefines)
AnswersOK == defect \/ res.ok                  \* overflow answers / Pop results admissible
Bounded == defect \/ Len(seq) <= Hard

view == <<Impl, Size, Len(seq), fx.sp, au.si, au.ss, Allocated, defect, res.ok>>
genview == <<view, IF DepthInView THEN Len(hist) ELSE 0>>

GenPrint == Gen => PrintT("GEN " \o ToJson([impl |-> Impl, size |-> Size, h |-> hist']))
=============================================================================
