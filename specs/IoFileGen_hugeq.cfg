SPECIFICATION Spec
CONSTANTS
  Sizes = {200000}
  Lays <- MC_ModesLays
  Modes = {"r", "r+"}
  RCounts = {65536, 65537, 70000}
  WCounts = {65537}
  SOffs <- MC_HugeSOffs
  VBufs <- MC_None
  MFmts <- MC_None
  VSizes = {0}
  Extra = {"readline", "seek0", "peek"}
  Naive = FALSE
  Gen = TRUE
VIEW genview
ACTION_CONSTRAINT GenPrintG1
CHECK_DEADLOCK FALSE
