SPECIFICATION Spec
CONSTANTS
  Sizes = {4097, 8200}
  Lays <- MC_LinesLays
  Modes = {"r", "r+"}
  RCounts = {1}
  WCounts <- MC_None
  SOffs = {0}
  VBufs <- MC_None
  VSizes = {0}
  Extra <- MC_AllExtra
  Naive = FALSE
  Gen = TRUE
VIEW genview
ACTION_CONSTRAINT GenPrint
CHECK_DEADLOCK FALSE
