----------------------------- MODULE TableImpl -----------------------------
(***************************************************************************)
(* Implementation-shaped specification of table.go (property C09):        *)
(*   array  - tb.array, with nil padding and trailing nils                *)
(*   hk     - tb.keys (insertion-ordered hash keys, never shrinking)      *)
(*   hv     - tb.dict and tb.strdict merged (absent = Nil)                *)
(* k2i is the inverse of hk (first occurrence) and is derived.            *)
(* Each action is a line-by-line transcription of one Go method.  The     *)
(* abstract map m / traversal trav of module Table are carried along and  *)
(* TLC checks the refinement invariants below.  The same state graph is   *)
(* exported (GEN) as operation histories to replay on the real table.     *)
(***************************************************************************)
EXTENDS Integers, Sequences, FiniteSets, TLC, Json

CONSTANTS IntKeys,     \* integer key values in the universe
          OtherKeys,   \* non-integer key tokens (strings, 1.5, true, objects)
          Vals,        \* non-nil values
          MaxIdx,      \* lua.MaxArrayIndex
          MaxArr,      \* bound on len(array) (keeps the model finite)
          MaxHK,       \* bound on len(keys)
          MaxHist,     \* history depth bound
          Gen          \* TRUE: print one GEN line per transition

Keys == {<<"n", i>> : i \in IntKeys} \cup OtherKeys

INSTANCE Table WITH Keys <- Keys, Vals <- Vals

VARIABLES array, hk, hv, m, trav, hist, res
vars == <<array, hk, hv, m, trav, hist, res>>
view == <<array, hk, hv, m, trav>>
genview == <<array, hk, hv, m, trav, Len(hist)>>   \* deterministic export: one history per (state, depth) transition

IsIntKey(k) == k[1] = "n"
IsArrayKey(k) == IsIntKey(k) /\ k[2] > 0 /\ k[2] < MaxIdx
HashKeys == {k \in Keys : ~IsArrayKey(k)}
VN == Vals \cup {Nil}

Init ==
    /\ array = <<>>
    /\ hk = <<>>
    /\ hv = [k \in HashKeys |-> Nil]
    /\ m = EmptyMap
    /\ trav = NoTrav
    /\ hist = <<>>
    /\ res = <<>>

(* ---- transcriptions ---------------------------------------------------- *)

Pad(n) == [i \in 1..n |-> Nil]

(* the three-way switch on index vs len(array) in RawSet / RawSetInt *)
ArrayStore(arr, idx0, v) ==
    IF idx0 = Len(arr) THEN Append(arr, v)
    ELSE IF idx0 > Len(arr) THEN Append(arr \o Pad(idx0 - Len(arr)), v)
    ELSE [arr EXCEPT ![idx0 + 1] = v]

InHK(k) == \E i \in 1..Len(hk) : hk[i] = k
K2I(k) == IF InHK(k) THEN (CHOOSE i \in 1..Len(hk) : hk[i] = k /\ \A j \in 1..(i-1) : hk[j] # k) - 1
          ELSE 0     \* Go map default for an absent key

(* RawSetString / RawSetH *)
HashStoreHV(k, v) == [hv EXCEPT ![k] = v]
HashStoreHK(k, v) == IF v = Nil \/ InHK(k) THEN hk ELSE Append(hk, k)

RawGetH(k) == IF k \in HashKeys THEN hv[k] ELSE Nil

ImplGet(k) ==
    IF IsArrayKey(k)
    THEN (IF k[2] - 1 >= Len(array) THEN Nil ELSE array[k[2]])
    ELSE RawGetH(k)

(* tb.Len(): scan from the end for a non-nil slot followed by nil/end *)
ImplLen ==
    LET cand == {i \in 1..Len(array) : array[i] # Nil /\ (i = Len(array) \/ array[i+1] = Nil)}
    IN IF cand = {} THEN 0 ELSE CHOOSE i \in cand : \A j \in cand : j <= i

(* tb.MaxN() *)
ImplMaxN ==
    LET cand == {i \in 1..Len(array) : array[i] # Nil}
    IN IF cand = {} THEN 0 ELSE CHOOSE i \in cand : \A j \in cand : j <= i

(* first index >= from (1-based) with a non-nil slot, or Len(array)+1 *)
ScanArray(from) ==
    LET cand == {i \in from..Len(array) : array[i] # Nil}
    IN IF cand = {} THEN (IF from > Len(array) + 1 THEN from ELSE Len(array) + 1)
       ELSE CHOOSE i \in cand : \A j \in cand : i <= j

(* the trailing loop of tb.Next: first live key of hk after 0-based index i0 *)
ScanKeys(i0) ==
    LET cand == {i \in (i0 + 1)..Len(hk) : RawGetH(hk[i]) # Nil}
    IN IF cand = {} THEN <<Nil, Nil>>
       ELSE LET i == CHOOSE i \in cand : \A j \in cand : i <= j IN <<hk[i], RawGetH(hk[i])>>

HashEmpty == \A k \in HashKeys : hv[k] = Nil

(* tb.Next(key) *)
ImplNext(key0) ==
    LET init == key0 = Nil
        key == IF init THEN <<"n", 0>> ELSE key0
    IN
    IF (init \/ key # <<"n", 0>>) /\ IsIntKey(key) /\ key[2] >= 0 /\ key[2] < MaxIdx
    THEN LET idx == ScanArray(key[2] + 1)      \* 1-based position where the scan stopped
         IN IF idx <= Len(array) THEN <<<<"n", idx>>, array[idx]>>
            ELSE IF idx = Len(array) + 1
                 THEN (IF HashEmpty THEN <<Nil, Nil>>
                       ELSE IF RawGetH(hk[1]) # Nil THEN <<hk[1], RawGetH(hk[1])>>
                       ELSE ScanKeys(K2I(hk[1]) + 1))
                 ELSE ScanKeys(K2I(key) + 1)
    ELSE ScanKeys(K2I(key) + 1)

(* ---- actions ----------------------------------------------------------- *)

Record(op) == /\ hist' = Append(hist, op)
              /\ Len(hist) < MaxHist

(* tb.RawSet and everything routed through it (Lua t[k]=v, rawset, SetTable, LState.RawSet) *)
DoRawSet(k, v) ==
    /\ IF IsArrayKey(k)
       THEN /\ k[2] <= MaxArr
            /\ array' = ArrayStore(array, k[2] - 1, v)
            /\ UNCHANGED <<hk, hv>>
       ELSE /\ Len(HashStoreHK(k, v)) <= MaxHK
            /\ hv' = HashStoreHV(k, v)
            /\ hk' = HashStoreHK(k, v)
            /\ UNCHANGED array
    /\ m' = Store(m, k, v)
    /\ trav' = TravAfterStore(trav, m, k, v)
    /\ res' = <<>>

RawSetAct == \E k \in Keys, v \in VN :
    /\ DoRawSet(k, v)
    /\ Record([op |-> "set", path |-> "RawSet", k |-> k, v |-> v])

(* tb.RawSetInt: key < 1 or key >= MaxArrayIndex goes to RawSetH *)
RawSetIntAct == \E k \in {kk \in Keys : IsIntKey(kk)}, v \in VN :
    /\ DoRawSet(k, v)      \* same routing predicate; transcribed separately in Go
    /\ Record([op |-> "set", path |-> "RawSetInt", k |-> k, v |-> v])

(* tb.RawSetString / tb.RawSetH used with hash-part keys *)
RawSetHAct == \E k \in HashKeys, v \in VN :
    /\ DoRawSet(k, v)
    /\ Record([op |-> "set", path |-> IF k[1] = "s" THEN "RawSetString" ELSE "RawSetH", k |-> k, v |-> v])

(* tb.Append *)
AppendAct == \E v \in VN :
    /\ IF v = Nil THEN UNCHANGED <<array, m, trav>>
       ELSE LET lastnn == ImplMaxN   \* position after the last non-nil slot
            IN /\ lastnn + 1 <= MaxArr
               /\ lastnn + 1 < MaxIdx
               /\ array' = IF Len(array) = 0 \/ array[Len(array)] # Nil
                           THEN Append(array, v)
                           ELSE [array EXCEPT ![lastnn + 1] = v]
               /\ m' = Store(m, <<"n", lastnn + 1>>, v)
               /\ trav' = TravAfterStore(trav, m, <<"n", lastnn + 1>>, v)
    /\ UNCHANGED <<hk, hv>>
    /\ res' = <<>>
    /\ Record([op |-> "append", v |-> v])

(* one traversal step: tb.Next(last) *)
NextAct ==
    LET tr == IF trav.on THEN trav ELSE StartTrav(m)
        r == ImplNext(tr.last)
    IN /\ res' = r
       /\ trav' = TravAfterNext(tr, r[1])
       /\ UNCHANGED <<array, hk, hv, m>>
       /\ Record([op |-> "next", restart |-> ~trav.on])

Next == RawSetAct \/ RawSetIntAct \/ RawSetHAct \/ AppendAct \/ NextAct

Spec == Init /\ [][Next]_vars

(* ---- refinement invariants (the design check of table.go) --------------- *)

(* every key reads back the value most recently stored under it *)
LookupAgrees == \A k \in Keys : ImplGet(k) = m[k]

(* the length operator returns a border of the abstract map *)
(* Known boundary defect of the transcribed algorithm (finding
   C09:len:border-across-MaxArrayIndex): when the array part is full up to
   MaxArrayIndex-1 and key MaxArrayIndex lives in the hash part, tb.Len() stops
   at the array end.  The design invariant excludes exactly that situation;
   the trace validation against the abstract Table spec does not. *)
BoundaryDefect == ImplLen = MaxIdx - 1 /\ Lookup(m, <<"n", MaxIdx>>) # Nil
LenIsBorder == BoundaryDefect \/ IsBorder(m, ImplLen)

(* each step of a valid traversal is admissible: present, unvisited, current
   value; nil only when every key present throughout has been visited.
   Checked on the transition in NextStepOK (res holds the last Next result). *)
NextStepOK ==
    [][NextAct => LET tr == IF trav.on THEN trav ELSE StartTrav(m)
                  IN NextOK(tr, m, res'[1], res'[2])]_vars

(* a complete traversal from nil (no interleaved mutation) is a traversal of m *)
RECURSIVE WalkFrom(_, _)
WalkFrom(key, fuel) ==
    IF fuel = 0 THEN <<>>
    ELSE LET r == ImplNext(key) IN IF r[1] = Nil THEN <<>> ELSE <<r>> \o WalkFrom(r[1], fuel - 1)
FullWalkOK == IsTraversalOf(m, WalkFrom(Nil, Cardinality(Keys) + 2))

TypeOK == /\ \A i \in 1..Len(array) : array[i] \in VN
          /\ \A i \in 1..Len(hk) : hk[i] \in HashKeys

(* ---- GEN ------------------------------------------------------------------ *)
GenPrint == Gen => PrintT("GEN " \o ToJson([h |-> hist']))
=============================================================================
