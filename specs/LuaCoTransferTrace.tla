------------------------- MODULE LuaCoTransferTrace -------------------------
(***************************************************************************)
(* Value transfers between a coroutine and its resumer under a register    *)
(* limit (property C12).  Each line of File is one scenario run on the     *)
(* real interpreter: the resumer's attempts to resume a coroutine (by      *)
(* coroutine.resume or a wrap function, under pcall) and what it observed  *)
(* right after each attempt.  The coroutine is an abstract script of       *)
(* segments; segment pos consumes the argument list of the resume that     *)
(* starts it and ends in a yield or a return with an output list.          *)
(*                                                                         *)
(* Reference behaviour (Lua 5.1 lua_resume / auxresume; DESIGN C12):       *)
(*  - a list that does not fit the receiving register file is a limit      *)
(*    error in the RESUMER, catchable by pcall ("too many arguments to     *)
(*    resume" / "too many results to resume"; the message is free);        *)
(*  - arguments that do not fit: the coroutine was not resumed - its       *)
(*    position and status are unchanged, a later resume proceeds as if the *)
(*    failed one had not happened;                                         *)
(*  - results that do not fit: the coroutine HAS yielded (or returned):    *)
(*    the values are dropped, the coroutine is suspended after that yield  *)
(*    (dead after a return), a later resume continues behind the yield     *)
(*    with its own arguments, variables shared with closures intact;       *)
(*  - only a long list may overflow (lists of at most Short values never   *)
(*    do in these scenarios); not overflowing is always admissible;        *)
(*  - the running coroutine of the resumer never changes.                  *)
(* Values are compared as strings (tostring).  One VERDICT per run.        *)
(***************************************************************************)
EXTENDS Integers, Sequences, TLC, Json

CONSTANT File
Data == ndJsonDeserialize(File)

VARIABLE idx
Init == idx \in 1..Len(Data)
Next == UNCHANGED idx
Spec == Init /\ [][Next]_idx

Rec == Data[idx]
Ev == Rec.ev
Short == 8
S(i) == ToString(i)

(* number of segments of the coroutine script *)
NSeg == CASE Rec.scen = "echo" -> 2          \* f(a): x, y = yield("ready", a); return "done", x, y
          [] Rec.scen = "vararg" -> 2        \* f(...): local w1..wN; x = yield("got"); return "done", x, (w1 == nil)
          [] Rec.scen = "yieldbig" -> 2      \* f(a): x = yield(1..K); v = v + 1; return "cdone", x, get()   (v = 5 shared)
          [] Rec.scen = "returnbig" -> 1     \* f(a): return 1..K

(* output list of segment pos started with input e: [n |-> count, v |-> first values] *)
Big == [n |-> Rec.K, v |-> <<"1", "2", "3">>]
Out(pos, e) ==
    CASE Rec.scen = "echo" /\ pos = 1 -> [n |-> 2, v |-> <<"ready", e.a1>>]
      [] Rec.scen = "echo" /\ pos = 2 -> [n |-> 3, v |-> <<"done", e.a1, e.a2>>]
      [] Rec.scen = "vararg" /\ pos = 1 -> [n |-> 1, v |-> <<"got">>]
      [] Rec.scen = "vararg" /\ pos = 2 -> [n |-> 3, v |-> <<"done", e.a1, "true">>]
      [] Rec.scen = "yieldbig" /\ pos = 1 -> Big
      [] Rec.scen = "yieldbig" /\ pos = 2 -> [n |-> 3, v |-> <<"cdone", e.a1, "6">>]
      [] Rec.scen = "returnbig" /\ pos = 1 -> Big

Min(a, b) == IF a < b THEN a ELSE b
Prefix(s, k) == SubSeq(s, 1, Min(Len(s), k))
StatusAt(pos) == IF pos > NSeg THEN "dead" ELSE "suspended"

(* judge event i with the coroutine about to run segment pos; <<>> = all admissible *)
RECURSIVE Walk(_, _)
Walk(pos, i) ==
    IF i > Len(Ev) THEN <<>>
    ELSE LET e == Ev[i]
             out == Out(pos, e)
             bigin == e.n > Short
             bigout == out.n > Short
         IN
         IF pos > NSeg THEN <<i, "harness:resume-of-finished-script">>
         ELSE IF ~e.run THEN <<i, "running-coroutine-changed">>
         ELSE IF e.res = "ok"
         THEN (IF e.cnt # out.n \/ Prefix(e.v, 3) # Prefix(out.v, 3) THEN <<i, "resume-results">>
               ELSE IF e.st # StatusAt(pos + 1) THEN <<i, "status-after-resume">>
               ELSE Walk(pos + 1, i + 1))
         ELSE IF e.res # "err" \/ e.ety # "string" THEN <<i, "not-a-catchable-error">>
         ELSE IF bigin
         THEN (IF e.st # StatusAt(pos) THEN <<i, "status-after-refused-arguments">>
               ELSE Walk(pos, i + 1))                        \* not resumed: nothing changed
         ELSE IF bigout
         THEN (IF e.st # StatusAt(pos + 1) THEN <<i, "status-after-dropped-results">>
               ELSE Walk(pos + 1, i + 1))                    \* it did yield / return: results dropped
         ELSE <<i, "short-list-refused">>

RECURSIVE SumSq(_)
SumSq(n) == IF n = 0 THEN 0 ELSE n * n + SumSq(n - 1)
Follow == <<SumSq(Rec.fm), "a-b-c", Rec.fm, Rec.fm>>

(* the scripted attempts: nev, one less when the long argument list fitted (no retry needed) *)
Expected == Rec.nev - (IF Rec.scen \in {"echo", "vararg"} /\ \A i \in 1..Len(Ev) : Ev[i].res = "ok" THEN 1 ELSE 0)

Judge ==
    IF Rec.oc # "ok" THEN <<0, IF Rec.oc = "err" THEN "uncaught-error" ELSE "crash">>
    ELSE LET w == Walk(1, 1) IN
         IF w # <<>> THEN w
         ELSE IF Len(Ev) # Expected THEN <<Len(Ev) + 1, "missing-events">>
         ELSE IF Rec.fresh # <<"true", "fresh", "9">> THEN <<Len(Ev) + 1, "new-coroutine-after-overflow">>
         ELSE IF Rec.f # Follow THEN <<Len(Ev) + 1, "follow-up">>
         ELSE <<>>

Verdict == LET j == Judge IN
    PrintT("VERDICT " \o ToJson([id |-> Rec.id, ok |-> j = <<>>,
                                 bad |-> IF j = <<>> THEN <<0, "">> ELSE j]))
=============================================================================
