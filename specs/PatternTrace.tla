---------------------------- MODULE PatternTrace ----------------------------
(***************************************************************************)
(* C14, trace validation.  Each line of File is one call of the real       *)
(* string.find / match / gmatch (iterated to exhaustion) / gsub:           *)
(*   [id, fn, s, p, i, repl, n, o] (+ s2, k, mode for fn = "gmatchiter")                                       *)
(* s, p: byte sequences; i: <<"nil">> or <<"n", init>>; repl: <<"s",bytes>>*)
(* <<"t",map>> <<"f",map>> (gsub only); n: <<"nil">> or <<"n", max>>;      *)
(* o: what the real function returned, in the result encoding of module    *)
(* Pattern (<<"err", msg>> for a Lua error, <<"panic", msg>> for a Go      *)
(* panic).  The reference result is computed by Pattern and the observed   *)
(* one must be admissible.  One state pair per record (the evaluation      *)
(* happens in the successor so that it is spread over the workers); each   *)
(* record ends in exactly one VERDICT line.                                *)
(***************************************************************************)
EXTENDS Pattern, TLC, Json

CONSTANT File
Data == ndJsonDeserialize(File)

VARIABLES idx, done
vars == <<idx, done>>

Init == idx \in 1..Len(Data) /\ done = FALSE
Next == ~done /\ done' = TRUE /\ UNCHANGED idx
Spec == Init /\ [][Next]_vars

(* i, n (and pl, the plain flag of find) are argument tokens, see Pattern!OptInteger *)
PlOf(d) == IF "pl" \in DOMAIN d THEN d.pl ELSE <<"nil">>

(* two iterators (same pattern, subjects s and s2) stepped alternately k    *)
(* times each, by hand: neither disturbs the other                         *)
IterExp(d) ==
    LET a == GMatchCalls(d.s, d.p, d.k)
        b == GMatchCalls(d.s2, d.p, d.k)
    IN IF a[1] = "err" THEN a ELSE IF b[1] = "err" THEN b ELSE <<"i", a[2], b[2]>>

Exp(d) ==
    CASE d.fn = "find" -> StrFindA(d.s, d.p, d.i, PlOf(d))
      [] d.fn = "match" -> StrMatchA(d.s, d.p, d.i)
      [] d.fn = "gmatch" -> StrGMatch(d.s, d.p)
      [] d.fn = "gmatchiter" -> IterExp(d)
      [] OTHER -> StrGSubA(d.s, d.p, d.repl, d.n)

NoMatchOf(d) ==
    CASE d.fn \in {"find", "match"} -> <<"nil">>
      [] d.fn = "gmatch" -> <<"g", <<>>>>
      [] d.fn = "gmatchiter" -> <<"i", [i \in 1..d.k |-> <<"end">>], [i \in 1..d.k |-> <<"end">>]>>
      [] OTHER -> <<"r", d.s, 0, <<>>>>

Malformed(d) ==
    \/ (~WellFormed(d.p, d.fn \notin {"gmatch", "gmatchiter"})
        /\ ~(d.fn = "find" /\ ToBoolean(PlOf(d))))      \* a plain find does not read the pattern
    \/ (d.fn = "gsub" /\ d.repl[1] = "s" /\ ReplDangling(d.repl[2], 1))

Verdict ==
    done =>
      LET d == Data[idx]
          e == Exp(d)
          mal == Malformed(d)
          ok == \/ Admissible(e, d.o, NoMatchOf(d), mal)
                \/ (d.fn = "gsub" /\ GSubBigAlt(d.n) /\ d.o = NoMatchOf(d))
      IN PrintT("VERDICT " \o ToJson(
            IF ok THEN [id |-> d.id, ok |-> TRUE]
            ELSE [id |-> d.id, ok |-> FALSE, exp |-> e, mal |-> mal]))
=============================================================================
