---------------------------- MODULE PatternTrace ----------------------------
(***************************************************************************)
(* C14, trace validation.  Each line of File is one call of the real       *)
(* string.find / match / gmatch (iterated to exhaustion) / gsub:           *)
(*   [id, fn, s, p, i, repl, n, o]                                         *)
(* s, p: byte sequences; i: <<"nil">> or <<"n", init>>; repl: <<"s",bytes>>*)
(* <<"t",map>> <<"f",map>> (gsub only); n: <<"nil">> or <<"n", max>>;      *)
(* o: what the real function returned, in the result encoding of module    *)
(* Pattern (<<"err", msg>> for a Lua error, <<"panic", msg>> for a Go      *)
(* panic).  The reference result is computed by Pattern and the observed   *)
(* one must be admissible.  One state pair per record (the evaluation      *)
(* happens in the successor so that it is spread over the workers); each   *)
(* record ends in exactly one VERDICT line.                                *)
(***************************************************************************)
EXTENDS Pattern, TLC, Json

CONSTANT File
Data == ndJsonDeserialize(File)

VARIABLES idx, done
vars == <<idx, done>>

Init == idx \in 1..Len(Data) /\ done = FALSE
Next == ~done /\ done' = TRUE /\ UNCHANGED idx
Spec == Init /\ [][Next]_vars

InitOf(d) == IF d.i[1] = "n" THEN d.i[2] ELSE 1

Exp(d) ==
    CASE d.fn = "find" -> StrFind(d.s, d.p, InitOf(d))
      [] d.fn = "match" -> StrMatch(d.s, d.p, InitOf(d))
      [] d.fn = "gmatch" -> StrGMatch(d.s, d.p)
      [] OTHER -> StrGSub(d.s, d.p, d.repl, d.n)

NoMatchOf(d) ==
    CASE d.fn \in {"find", "match"} -> <<"nil">>
      [] d.fn = "gmatch" -> <<"g", <<>>>>
      [] OTHER -> <<"r", d.s, 0, <<>>>>

Malformed(d) ==
    \/ ~WellFormed(d.p, d.fn # "gmatch")
    \/ (d.fn = "gsub" /\ d.repl[1] = "s" /\ ReplDangling(d.repl[2], 1))

Verdict ==
    done =>
      LET d == Data[idx]
          e == Exp(d)
          mal == Malformed(d)
          ok == Admissible(e, d.o, NoMatchOf(d), mal)
      IN PrintT("VERDICT " \o ToJson(
            IF ok THEN [id |-> d.id, ok |-> TRUE]
            ELSE [id |-> d.id, ok |-> FALSE, exp |-> e, mal |-> mal]))
=============================================================================
