SPECIFICATION Spec
CONSTANTS
  Vals <- Gen_Vals
  ValSeq <- Gen_ValSeq
  Fresh = TRUE
  SortKinds <- Gen_SortKinds
  Seps <- MC_Seps
  Gen = "all"
ACTION_CONSTRAINT GenPrint
CHECK_DEADLOCK FALSE
