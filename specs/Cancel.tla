------------------------------- MODULE Cancel -------------------------------
(***************************************************************************)
(* Design-level model of cancellation (property C11): a dispatch loop that *)
(* polls the context before every instruction, nested protected calls, and *)
(* a CancelNow action enabled at every step.  After cancellation no        *)
(* instruction completes, and the loop exits after at most depth+1 further *)
(* dispatch attempts (each attempt raises; each protected call catches one *)
(* raise and hands control back to Lua code, whose next dispatch raises    *)
(* again).                                                                 *)
(***************************************************************************)
EXTENDS Integers

CONSTANT MaxDepth

VARIABLES depth,      \* nesting of protected calls (pcall/xpcall/handlers/coroutine resumes)
          done,       \* the context is done
          running,    \* the outermost call has not returned
          after,      \* dispatch attempts since cancellation
          depthAtCancel,
          completed   \* instructions completed since cancellation
vars == <<depth, done, running, after, depthAtCancel, completed>>

Init == depth = 0 /\ done = FALSE /\ running = TRUE /\ after = 0 /\ depthAtCancel = 0 /\ completed = 0

(* one dispatch: poll, then the instruction *)
Dispatch ==
    /\ running
    /\ IF done
       THEN \* the poll sees the done context: RaiseError instead of the instruction
            /\ after' = after + 1
            /\ IF depth > 0 THEN depth' = depth - 1 /\ running' = TRUE     \* caught by the nearest protected call
               ELSE depth' = depth /\ running' = FALSE                       \* leaves the outermost call as an error
            /\ UNCHANGED <<done, depthAtCancel, completed>>
       ELSE \* an ordinary instruction: plain, entering or leaving a protected call, or the last one
            /\ \/ UNCHANGED depth
               \/ depth < MaxDepth /\ depth' = depth + 1
               \/ depth > 0 /\ depth' = depth - 1
            /\ running' \in (IF depth' = 0 THEN {TRUE, FALSE} ELSE {TRUE})
            /\ UNCHANGED <<done, after, depthAtCancel, completed>>

CancelNow == /\ running /\ ~done
             /\ done' = TRUE /\ depthAtCancel' = depth
             /\ UNCHANGED <<depth, running, after, completed>>

Next == Dispatch \/ CancelNow
Spec == Init /\ [][Next]_vars /\ WF_vars(Dispatch)

TypeOK == depth \in 0..MaxDepth /\ after \in 0..(MaxDepth + 1)
NoInstructionAfterCancel == completed = 0
BoundedDispatch == after <= depthAtCancel + 1
ExitsWhenDone == (done /\ after = depthAtCancel + 1) => ~running
(* liveness: a cancelled script stops *)
Stops == done ~> ~running
=============================================================================
