------------------------------- MODULE Frames -------------------------------
(***************************************************************************)
(* Implementation-shaped control skeleton of one thread (DESIGN 3.5,       *)
(* stage 1): what the accessor snapshot (verif_access.go) shows - the      *)
(* call-frame stack, the registry top, the open-upvalue list and the panic *)
(* mode - and the invariants / bracket laws the properties need:           *)
(*   C05  after a protected call (failed or not) the call depth, the       *)
(*        value-stack height, the current frame and the panic mode are     *)
(*        what they were before it; no open upvalue survives at or above   *)
(*        a reclaimed register;                                            *)
(*   C02  a tail call does not consume call-stack space;                   *)
(*   C03  every open upvalue points below the registry top;                *)
(*   C10  the API window of the current activation is [LocalBase, top).    *)
(* A snapshot s is a record [sp, top, frames, open, panicdflt, ...] where  *)
(* frames[i] = <<Base, LocalBase, ReturnBase, NArgs, NRet, IsG, TailCall>>.*)
(* Representation-only fields (registry capacity, TailCall counter,        *)
(* hasErrorFunc) inform but never judge.                                   *)
(***************************************************************************)
EXTENDS Integers, Sequences, FiniteSets

FBase(f) == f[1]
FLocalBase(f) == f[2]
FReturnBase(f) == f[3]
FIsG(f) == f[6] = 1

(* ---- state invariants of a single snapshot; each returns TRUE or names the broken rule *)
SpMatchesFrames(s) == s.sp = Len(s.frames)
FramesNested(s) ==
    \A i \in 1..Len(s.frames) :
        /\ FBase(s.frames[i]) >= 0
        /\ FLocalBase(s.frames[i]) > FBase(s.frames[i])
        /\ (i > 1 => FBase(s.frames[i]) >= FBase(s.frames[i - 1]))          \* windows are monotone
        /\ FReturnBase(s.frames[i]) <= FBase(s.frames[i])                     \* results go at or below the callee's base
TopAboveCurrentWindow(s) == Len(s.frames) > 0 => s.top >= FLocalBase(s.frames[Len(s.frames)])
OpenBelowTop(s) == \A i \in 1..Len(s.open) : s.open[i] >= 0 /\ s.open[i] < s.top
OpenSorted(s) == \A i \in 1..(Len(s.open) - 1) : s.open[i] < s.open[i + 1]

FirstBroken(s) ==
    CASE ~SpMatchesFrames(s) -> "sp-differs-from-frame-count"
      [] ~FramesNested(s) -> "frame-windows-not-nested"
      [] ~TopAboveCurrentWindow(s) -> "top-below-current-window"
      [] ~OpenBelowTop(s) -> "open-upvalue-at-or-above-top"
      [] ~OpenSorted(s) -> "open-upvalue-list-unsorted"
      [] OTHER -> ""

(* ---- bracket laws ---------------------------------------------------------- *)
(* b = before a protected call made from Go at the top of the stack, a = after it;
   nres = number of results left (0 after a failure) *)
GoBracket(b, a, nres) ==
    CASE a.sp # b.sp -> "call-depth-not-restored"
      [] a.top # b.top + nres -> "value-stack-height-not-restored"
      [] a.panicdflt # b.panicdflt -> "panic-mode-not-restored"
      [] \E i \in 1..Len(a.open) : a.open[i] >= b.top -> "open-upvalue-above-reclaimed-base"
      [] OTHER -> ""

(* two snapshots taken by the same host call at the same place of the same activation,
   before and after a protected call (or in successive iterations of a tail-call loop) *)
SamePlace(x, y) ==
    CASE x.sp # y.sp -> "call-depth-differs"
      [] x.top # y.top -> "value-stack-height-differs"
      [] Len(x.frames) # Len(y.frames) \/ (\E i \in 1..Len(x.frames) : SubSeq(x.frames[i], 1, 6) # SubSeq(y.frames[i], 1, 6)) -> "frame-skeleton-differs"   \* the TailCall counter only informs
      [] x.panicdflt # y.panicdflt -> "panic-mode-differs"
      [] \E i \in 1..Len(y.open) : y.open[i] >= y.top -> "open-upvalue-above-top"
      [] OTHER -> ""
=============================================================================
