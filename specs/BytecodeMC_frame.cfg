SPECIFICATION Spec
CONSTANTS
  FrameLimit = 200
  Alphabet <- MC_AlphaFrame
  Shapes <- MC_FrameShapes
INVARIANTS Safe OnBoundary ScanAgrees Report
CHECK_DEADLOCK FALSE
