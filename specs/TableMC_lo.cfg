SPECIFICATION Spec
CONSTANTS
  IntKeys <- Lo_IntKeys
  OtherKeys <- Lo_OtherKeysSmall
  Vals <- MC_Vals
  MaxIdx = 5
  MaxArr = 4
  MaxHK = 3
  Gen = FALSE
VIEW genview
INVARIANTS TypeOK LookupAgrees LenIsBorder FullWalkOK
PROPERTIES NextStepOK
CHECK_DEADLOCK FALSE
