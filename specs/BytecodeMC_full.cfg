SPECIFICATION Spec
CONSTANTS
  FrameLimit = 200
  Alphabet <- MC_AlphaFull
  Shape <- MC_Shape
INVARIANTS Safe OnBoundary ScanAgrees Report
CHECK_DEADLOCK FALSE
