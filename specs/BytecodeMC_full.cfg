SPECIFICATION Spec
CONSTANTS
  FrameLimit = 200
  Alphabet <- MC_AlphaFull
  Shapes <- MC_Shapes
INVARIANTS Safe OnBoundary ScanAgrees Report
CHECK_DEADLOCK FALSE
