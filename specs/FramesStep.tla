----------------------------- MODULE FramesStep -----------------------------
(* Frames, stage 2: the per-instruction footprint of the VM on the register    *)
(* window of the executing activation.                                         *)
(*                                                                             *)
(* One step e describes ONE executed instruction of a Lua activation F, from   *)
(* the state before it to the state before F's next instruction (whatever ran  *)
(* in between - callees, metamethod handlers, host functions - is part of the  *)
(* step):                                                                      *)
(*   e.op, e.a, e.b, e.c   the decoded instruction (gopher-lua's opcode set)   *)
(*   e.extra               further registers it names as targets (the MOVE     *)
(*                         pairs packed behind MOVEN)                          *)
(*   e.changed             registers (relative to LocalBase) that hold the     *)
(*                         SAME named local variable before and after, are not *)
(*                         captured by an open upvalue, and whose value differs*)
(*   e.dropped             registers holding the same local before and after   *)
(*                         that lay below the register top before the step and *)
(*                         lie at or above it afterwards                       *)
(*   e.nlive, e.toprel     locals in scope / register top - LocalBase after    *)
(*                         the step (informative)                              *)
(*                                                                             *)
(* Laws (they are what "an expression means the same whatever unrelated locals *)
(* surround it" needs from the VM, and what makes reading a local memory-safe):*)
(*   Footprint: a live, uncaptured local changes only if the instruction names *)
(*              its register as a target;                                      *)
(*   Covered:   a local that was readable (below the register top) stays so.   *)
(* (A local is in scope per the debug tables slightly before its first store:  *)
(* "local function f" and the hidden loop slots are declared first.  Covered   *)
(* therefore speaks about locals that WERE below the top, not about all.)      *)
EXTENDS Naturals, Sequences, FiniteSets

OneTarget == {"MOVE", "LOADK", "LOADBOOL", "GETUPVAL", "GETGLOBAL", "GETTABLE", "GETTABLEKS", "NEWTABLE",
              "ADD", "SUB", "MUL", "DIV", "MOD", "POW", "UNM", "NOT", "LEN", "CONCAT", "TESTSET", "CLOSURE", "FORPREP"}
NoTarget == {"SETGLOBAL", "SETUPVAL", "SETTABLE", "SETTABLEKS", "JMP", "EQ", "LT", "LE", "TEST", "SETLIST", "CLOSE", "NOP"}
Known == OneTarget \cup NoTarget \cup {"MOVEN", "LOADNIL", "SELF", "CALL", "TAILCALL", "RETURN", "FORLOOP", "TFORLOOP", "VARARG"}

InSeq(x, s) == \E i \in 1..Len(s) : s[i] = x

(* may the instruction of step e write register r (relative to LocalBase)? *)
MayWrite(e, r) ==
    CASE e.op \in OneTarget -> r = e.a
      [] e.op \in NoTarget -> FALSE
      [] e.op = "MOVEN" -> r = e.a \/ InSeq(r, e.extra)
      [] e.op = "LOADNIL" -> e.a <= r /\ r <= e.b
      [] e.op = "SELF" -> r = e.a \/ r = e.a + 1
      [] e.op = "FORLOOP" -> r = e.a \/ r = e.a + 3
      [] e.op = "TFORLOOP" -> r >= e.a + 2                 \* control variable, loop variables, call scratch
      [] e.op = "CALL" -> r >= e.a                         \* the callee's window starts at R(A)
      [] e.op \in {"TAILCALL", "RETURN"} -> TRUE            \* the activation ends: never recorded as a step
      [] e.op = "VARARG" -> IF e.b = 0 THEN r >= e.a ELSE e.a <= r /\ r <= e.a + e.b - 2
      [] OTHER -> FALSE

Footprint(e) == \A i \in 1..Len(e.changed) : MayWrite(e, e.changed[i])
Covered(e) == Len(e.dropped) = 0

(* "" or the name of the first broken law *)
Broken(e) ==
    IF e.op \notin Known THEN "unknown-opcode"
    ELSE IF ~Footprint(e) THEN "footprint:" \o e.op
    ELSE IF ~Covered(e) THEN "live-local-above-top:" \o e.op
    ELSE ""
=============================================================================
