------------------------------- MODULE StrLib -------------------------------
(***************************************************************************)
(* Property C15, string part: the Lua 5.1 string functions                 *)
(*   sub byte char len rep reverse upper lower find(plain) format          *)
(* as pure operators over byte strings.  A string is a sequence of         *)
(* integers 0..255 (TLC has no string indexing).  The definitions follow   *)
(* the reference manual, section 5.4, and the reference implementation     *)
(* lstrlib.c of Lua 5.1 where the manual is silent (posrelat; different    *)
(* clamping of start and end; default of byte's j).                        *)
(*                                                                         *)
(* format covers %d %i %c %x %X %o %s %% with the flags - 0 + space #,     *)
(* width and precision, rendered digit by digit as ISO C printf defines.   *)
(* Combinations ISO C leaves undefined or that depend on the platform      *)
(* evaluate to Undef and are never judged.  Floating-point directives are  *)
(* not modelled (Undef).                                                   *)
(***************************************************************************)
EXTENDS Integers, Sequences, FiniteSets

SMax(a, b) == IF a >= b THEN a ELSE b
SMin(a, b) == IF a <= b THEN a ELSE b

(* make a proper tuple out of a function with domain 1..n *)
AsSeq(f) == SubSeq(f, 1, Len(f))

(* lstrlib.c posrelat: negative positions count from the end, below the    *)
(* beginning clamps to 0                                                   *)
PosRelat(pos, l) ==
    LET p == IF pos < 0 THEN pos + l + 1 ELSE pos
    IN IF p >= 0 THEN p ELSE 0

(* string.sub(s, i, j): start clamps to 1, end clamps to #s *)
Sub(s, i, j) ==
    LET l == Len(s)
        st == SMax(PosRelat(i, l), 1)
        en == SMin(PosRelat(j, l), l)
    IN IF st <= en THEN SubSeq(s, st, en) ELSE <<>>

(* string.byte(s, i, j): jopt = <<>> when j is absent/nil (defaults to the *)
(* normalised i), <<j>> otherwise.  Result: the byte values.               *)
ByteRange(s, i, jopt) ==
    LET l == Len(s)
        posi0 == PosRelat(i, l)
        pose0 == PosRelat(IF jopt = <<>> THEN posi0 ELSE jopt[1], l)
        posi == IF posi0 <= 0 THEN 1 ELSE posi0
        pose == SMin(pose0, l)
    IN IF posi > pose THEN <<>> ELSE SubSeq(s, posi, pose)

(* string.char: every argument must be a byte value *)
CharOK(cs) == \A k \in 1..Len(cs) : cs[k] \in 0..255

RevStr(s) == AsSeq([k \in 1..Len(s) |-> s[Len(s) + 1 - k]])

(* C locale: only ASCII letters change *)
UpperByte(b) == IF b \in 97..122 THEN b - 32 ELSE b
LowerByte(b) == IF b \in 65..90 THEN b + 32 ELSE b
Upper(s) == AsSeq([k \in 1..Len(s) |-> UpperByte(s[k])])
Lower(s) == AsSeq([k \in 1..Len(s) |-> LowerByte(s[k])])

(* string.rep(s, n): n copies, none when n <= 0 *)
Rep(s, n) ==
    IF n <= 0 \/ Len(s) = 0 THEN <<>>
    ELSE AsSeq([k \in 1..(n * Len(s)) |-> s[((k - 1) % Len(s)) + 1]])

(* string.find(s, p, init, true): leftmost occurrence of p in s at or      *)
(* after init; <<>> = not found, else <<first, last>> (1-based, inclusive).*)
(* init: posrelat, then clamped into 0..#s (as offset).                    *)
FindInit(l1, init) ==
    LET i0 == PosRelat(init, l1) - 1
    IN IF i0 < 0 THEN 0 ELSE IF i0 > l1 THEN l1 ELSE i0

OccursAt(s, p, k) == \A t \in 1..Len(p) : s[k + t] = p[t]      \* offset k

FindPlain(s, p, init) ==
    LET l1 == Len(s)
        l2 == Len(p)
        i0 == FindInit(l1, init)
        cands == {k \in i0..(l1 - l2) : OccursAt(s, p, k)}
    IN IF cands = {} THEN <<>>
       ELSE LET k == CHOOSE c \in cands : \A d \in cands : c <= d
            IN <<k + 1, k + l2>>

(* the magic characters of the manual ^$()%.[]*+-? and NUL, which a       *)
(* pattern must not contain: find without the plain flag is defined by     *)
(* this module only for patterns free of them (lstrlib.c treats ")" and    *)
(* "]" alone as plain text too; the manual does not promise it)            *)
SpecialBytes == {94, 36, 40, 41, 37, 46, 91, 93, 42, 43, 45, 63, 0}
PatIsLiteral(p) == \A k \in 1..Len(p) : p[k] \notin SpecialBytes

-----------------------------------------------------------------------------
(* format *)

Zeros(n) == [k \in 1..n |-> 48]
Spaces(n) == [k \in 1..n |-> 32]

IsDigit(b) == b \in 48..57
DigitByte(d, up) == IF d < 10 THEN 48 + d ELSE IF up THEN 55 + d ELSE 87 + d

RECURSIVE DigitsOf(_, _, _)
DigitsOf(v, base, up) ==            \* v >= 0
    IF v < base THEN <<DigitByte(v, up)>>
    ELSE Append(DigitsOf(v \div base, base, up), DigitByte(v % base, up))

RECURSIVE DecVal(_)
DecVal(ds) ==                       \* value of a digit string, "" = 0
    IF ds = <<>> THEN 0
    ELSE 10 * DecVal(SubSeq(ds, 1, Len(ds) - 1)) + (ds[Len(ds)] - 48)

(* decimal rendering of an integer as tostring / %.14g does it *)
IntToDec(v) == IF v < 0 THEN <<45>> \o DigitsOf(-v, 10, FALSE) ELSE DigitsOf(v, 10, FALSE)

FlagBytes == {45, 43, 32, 35, 48}           \* - + space # 0

RECURSIVE SkipFlags(_, _)
SkipFlags(f, p) == IF p <= Len(f) /\ f[p] \in FlagBytes THEN SkipFlags(f, p + 1) ELSE p

(* lstrlib.c scanformat, p0 = position after '%'.  At most 5 flag          *)
(* characters, width and precision of at most 2 digits each.               *)
ScanDirective(f, p0) ==
    LET At(p) == IF p <= Len(f) THEN f[p] ELSE 0
        p1 == SkipFlags(f, p0)
        p2 == IF IsDigit(At(p1)) THEN p1 + 1 ELSE p1
        p3 == IF IsDigit(At(p2)) THEN p2 + 1 ELSE p2
        hasp == At(p3) = 46
        p4 == IF hasp THEN p3 + 1 ELSE p3
        p5 == IF hasp /\ IsDigit(At(p4)) THEN p4 + 1 ELSE p4
        p6 == IF hasp /\ IsDigit(At(p5)) THEN p5 + 1 ELSE p5
    IN [bad   |-> (p1 - p0 >= 6) \/ IsDigit(At(p6)),
        flags |-> {f[k] : k \in p0..(p1 - 1)},
        width |-> IF p3 > p1 THEN DecVal(SubSeq(f, p1, p3 - 1)) ELSE 0,
        prec  |-> IF hasp THEN DecVal(SubSeq(f, p4, p6 - 1)) ELSE -1,
        conv  |-> At(p6),
        next  |-> p6 + 1]

(* field padding common to the integer conversions: prefix = sign or 0x    *)
PadNum(fl, w, pr, prefix, digits) ==
    LET n == Len(prefix) + Len(digits)
        fill == IF w > n THEN w - n ELSE 0
    IN IF 45 \in fl THEN prefix \o digits \o Spaces(fill)
       ELSE IF 48 \in fl /\ pr < 0 THEN prefix \o Zeros(fill) \o digits
       ELSE Spaces(fill) \o prefix \o digits

WithPrec(pr, v, ds) ==
    LET d0 == IF pr = 0 /\ v = 0 THEN <<>> ELSE ds
    IN IF pr > Len(d0) THEN Zeros(pr - Len(d0)) \o d0 ELSE d0

(* %d %i *)
FmtSigned(fl, w, pr, v) ==
    LET mag == IF v < 0 THEN -v ELSE v
        ds == WithPrec(pr, v, DigitsOf(mag, 10, FALSE))
        sign == IF v < 0 THEN <<45>> ELSE IF 43 \in fl THEN <<43>>
                ELSE IF 32 \in fl THEN <<32>> ELSE <<>>
    IN PadNum(fl, w, pr, sign, ds)

(* %x %X %o for v >= 0; + and space apply to signed conversions only *)
FmtUnsigned(fl, w, pr, v, conv) ==
    LET base == IF conv = 111 THEN 8 ELSE 16
        d1 == WithPrec(pr, v, DigitsOf(v, base, conv = 88))
        d2 == IF conv = 111 /\ 35 \in fl /\ (d1 = <<>> \/ d1[1] # 48) THEN <<48>> \o d1 ELSE d1
        prefix == IF 35 \in fl /\ v # 0 /\ conv # 111 THEN <<48, conv>> ELSE <<>>
    IN PadNum(fl, w, pr, prefix, d2)

PadText(fl, w, t) ==
    LET fill == IF w > Len(t) THEN w - Len(t) ELSE 0
    IN IF 45 \in fl THEN t \o Spaces(fill) ELSE Spaces(fill) \o t

(* Results of one directive / of format: <<"ok", bytes>>, <<"err">>,       *)
(* <<"undef">> (ISO C undefined, platform dependent or not modelled)       *)
FOk(b) == <<"ok", AsSeq(b)>>
FErr == <<"err">>
FUndef == <<"undef">>

(* argument views handed in by the caller (module StrMathEval):            *)
(*   num = <<"ok", v>> the argument converted to a C long (truncated),     *)
(*         <<"err">> not a number, <<"undef">> conversion not modelled     *)
(*   str = <<"ok", bytes>> the argument converted to a string, or err/undef*)
(* a directive whose conversion character is missing (format ends) is an   *)
(* invalid option as well (conv = 0).                                      *)
FmtDirective(d, num, str) ==
    LET fl == d.flags
        c == d.conv
    IN CASE c \in {100, 105} ->                                   \* d i
              (IF num[1] # "ok" THEN num
               ELSE IF 35 \in fl THEN FUndef
               ELSE FOk(FmtSigned(fl, d.width, d.prec, num[2])))
         [] c \in {120, 88, 111} ->                                \* x X o
              (IF num[1] # "ok" THEN num
               ELSE IF num[2] < 0 THEN FUndef
               ELSE FOk(FmtUnsigned(fl, d.width, d.prec, num[2], c)))
         [] c = 99 ->                                              \* c
              (IF num[1] # "ok" THEN num
               ELSE IF (fl \ {45}) # {} \/ d.prec >= 0 \/ num[2] % 256 = 0 THEN FUndef
               ELSE FOk(PadText(fl, d.width, <<num[2] % 256>>)))
         [] c = 115 ->                                             \* s
              (IF str[1] # "ok" THEN str
               ELSE IF (fl \ {45}) # {} THEN FUndef
               ELSE IF \E k \in 1..Len(str[2]) : str[2][k] = 0 THEN FUndef
               ELSE IF Len(str[2]) >= 100 THEN FUndef
               ELSE LET t == IF d.prec >= 0 THEN SubSeq(str[2], 1, SMin(d.prec, Len(str[2]))) ELSE str[2]
                    IN FOk(PadText(fl, d.width, t)))
         [] c \in {117, 101, 69, 102, 103, 71, 113} -> FUndef      \* u e E f g G q
         [] OTHER -> FErr                                          \* invalid option

(* string.format(f, args...): nums[k], strs[k] are the two views of the    *)
(* k-th extra argument; a missing argument is an error.                    *)
ArgView(vs, k) == IF k <= Len(vs) THEN vs[k] ELSE FErr

RECURSIVE FormatFrom(_, _, _, _, _, _)
FormatFrom(f, p, ai, acc, nums, strs) ==
    IF p > Len(f) THEN FOk(acc)
    ELSE IF f[p] # 37 THEN FormatFrom(f, p + 1, ai, Append(acc, f[p]), nums, strs)
    ELSE IF p + 1 <= Len(f) /\ f[p + 1] = 37
         THEN FormatFrom(f, p + 2, ai, Append(acc, 37), nums, strs)
    ELSE LET d == ScanDirective(f, p + 1) IN
         IF d.bad THEN FErr
         ELSE LET r == FmtDirective(d, ArgView(nums, ai), ArgView(strs, ai)) IN
              IF r[1] # "ok" THEN r
              ELSE FormatFrom(f, d.next, ai + 1, acc \o r[2], nums, strs)

Format(f, nums, strs) == FormatFrom(f, 1, 1, <<>>, nums, strs)
=============================================================================
