------------------------------- MODULE StrLib -------------------------------
(***************************************************************************)
(* Property C15, string part: the Lua 5.1 string functions                 *)
(*   sub byte char len rep reverse upper lower find(plain) format          *)
(* as pure operators over byte strings.  A string is a sequence of         *)
(* integers 0..255 (TLC has no string indexing).  The definitions follow   *)
(* the reference manual, section 5.4, and the reference implementation     *)
(* lstrlib.c of Lua 5.1 where the manual is silent (posrelat; different    *)
(* clamping of start and end; default of byte's j).                        *)
(*                                                                         *)
(* format covers %d %i %u %c %x %X %o %s %q %% and, for dyadic rationals,   *)
(* %e %E %f %g %G with the flags - 0 + space #,                            *)
(* width and precision, rendered digit by digit as ISO C printf defines.   *)
(* Combinations ISO C leaves undefined or that depend on the platform      *)
(* evaluate to Undef and are never judged.  The floating-point directives  *)
(* are defined for dyadic rationals and infinities only (exact decimal     *)
(* expansion, round half even); NaN is Undef (sign is platform dependent). *)
(***************************************************************************)
EXTENDS Integers, Sequences, FiniteSets

SMax(a, b) == IF a >= b THEN a ELSE b
SMin(a, b) == IF a <= b THEN a ELSE b

(* make a proper tuple out of a function with domain 1..n *)
AsSeq(f) == SubSeq(f, 1, Len(f))

(* lstrlib.c posrelat: negative positions count from the end, below the    *)
(* beginning clamps to 0                                                   *)
PosRelat(pos, l) ==
    LET p == IF pos < 0 THEN pos + l + 1 ELSE pos
    IN IF p >= 0 THEN p ELSE 0

(* string.sub(s, i, j): start clamps to 1, end clamps to #s *)
Sub(s, i, j) ==
    LET l == Len(s)
        st == SMax(PosRelat(i, l), 1)
        en == SMin(PosRelat(j, l), l)
    IN IF st <= en THEN SubSeq(s, st, en) ELSE <<>>

(* string.byte(s, i, j): jopt = <<>> when j is absent/nil (defaults to the *)
(* normalised i), <<j>> otherwise.  Result: the byte values.               *)
ByteRange(s, i, jopt) ==
    LET l == Len(s)
        posi0 == PosRelat(i, l)
        pose0 == PosRelat(IF jopt = <<>> THEN posi0 ELSE jopt[1], l)
        posi == IF posi0 <= 0 THEN 1 ELSE posi0
        pose == SMin(pose0, l)
    IN IF posi > pose THEN <<>> ELSE SubSeq(s, posi, pose)

(* string.char: every argument must be a byte value *)
CharOK(cs) == \A k \in 1..Len(cs) : cs[k] \in 0..255

RevStr(s) == AsSeq([k \in 1..Len(s) |-> s[Len(s) + 1 - k]])

(* C locale: only ASCII letters change *)
UpperByte(b) == IF b \in 97..122 THEN b - 32 ELSE b
LowerByte(b) == IF b \in 65..90 THEN b + 32 ELSE b
Upper(s) == AsSeq([k \in 1..Len(s) |-> UpperByte(s[k])])
Lower(s) == AsSeq([k \in 1..Len(s) |-> LowerByte(s[k])])

(* string.rep(s, n): n copies, none when n <= 0 *)
Rep(s, n) ==
    IF n <= 0 \/ Len(s) = 0 THEN <<>>
    ELSE AsSeq([k \in 1..(n * Len(s)) |-> s[((k - 1) % Len(s)) + 1]])

(* string.find(s, p, init, true): leftmost occurrence of p in s at or      *)
(* after init; <<>> = not found, else <<first, last>> (1-based, inclusive).*)
(* init: posrelat, then clamped into 0..#s (as offset).                    *)
FindInit(l1, init) ==
    LET i0 == PosRelat(init, l1) - 1
    IN IF i0 < 0 THEN 0 ELSE IF i0 > l1 THEN l1 ELSE i0

OccursAt(s, p, k) == \A t \in 1..Len(p) : s[k + t] = p[t]      \* offset k

FindPlain(s, p, init) ==
    LET l1 == Len(s)
        l2 == Len(p)
        i0 == FindInit(l1, init)
        cands == {k \in i0..(l1 - l2) : OccursAt(s, p, k)}
    IN IF cands = {} THEN <<>>
       ELSE LET k == CHOOSE c \in cands : \A d \in cands : c <= d
            IN <<k + 1, k + l2>>

(* the magic characters of the manual ^$()%.[]*+-? and NUL, which a       *)
(* pattern must not contain: find without the plain flag is defined by     *)
(* this module only for patterns free of them (lstrlib.c treats ")" and    *)
(* "]" alone as plain text too; the manual does not promise it)            *)
SpecialBytes == {94, 36, 40, 41, 37, 46, 91, 93, 42, 43, 45, 63, 0}
PatIsLiteral(p) == \A k \in 1..Len(p) : p[k] \notin SpecialBytes

-----------------------------------------------------------------------------
(* format *)

Zeros(n) == [k \in 1..n |-> 48]
Spaces(n) == [k \in 1..n |-> 32]

IsDigit(b) == b \in 48..57
DigitByte(d, up) == IF d < 10 THEN 48 + d ELSE IF up THEN 55 + d ELSE 87 + d

RECURSIVE DigitsOf(_, _, _)
DigitsOf(v, base, up) ==            \* v >= 0
    IF v < base THEN <<DigitByte(v, up)>>
    ELSE Append(DigitsOf(v \div base, base, up), DigitByte(v % base, up))

RECURSIVE DecVal(_)
DecVal(ds) ==                       \* value of a digit string, "" = 0
    IF ds = <<>> THEN 0
    ELSE 10 * DecVal(SubSeq(ds, 1, Len(ds) - 1)) + (ds[Len(ds)] - 48)

(* decimal rendering of an integer as tostring / %.14g does it *)
IntToDec(v) == IF v < 0 THEN <<45>> \o DigitsOf(-v, 10, FALSE) ELSE DigitsOf(v, 10, FALSE)

FlagBytes == {45, 43, 32, 35, 48}           \* - + space # 0

RECURSIVE SkipFlags(_, _)
SkipFlags(f, p) == IF p <= Len(f) /\ f[p] \in FlagBytes THEN SkipFlags(f, p + 1) ELSE p

(* lstrlib.c scanformat, p0 = position after '%'.  At most 5 flag          *)
(* characters, width and precision of at most 2 digits each.               *)
ScanDirective(f, p0) ==
    LET At(p) == IF p <= Len(f) THEN f[p] ELSE 0
        p1 == SkipFlags(f, p0)
        p2 == IF IsDigit(At(p1)) THEN p1 + 1 ELSE p1
        p3 == IF IsDigit(At(p2)) THEN p2 + 1 ELSE p2
        hasp == At(p3) = 46
        p4 == IF hasp THEN p3 + 1 ELSE p3
        p5 == IF hasp /\ IsDigit(At(p4)) THEN p4 + 1 ELSE p4
        p6 == IF hasp /\ IsDigit(At(p5)) THEN p5 + 1 ELSE p5
    IN [bad   |-> (p1 - p0 >= 6) \/ IsDigit(At(p6)),
        flags |-> {f[k] : k \in p0..(p1 - 1)},
        width |-> IF p3 > p1 THEN DecVal(SubSeq(f, p1, p3 - 1)) ELSE 0,
        prec  |-> IF hasp THEN DecVal(SubSeq(f, p4, p6 - 1)) ELSE -1,
        conv  |-> At(p6),
        next  |-> p6 + 1]

(* field padding common to the integer conversions: prefix = sign or 0x    *)
PadNum(fl, w, pr, prefix, digits) ==
    LET n == Len(prefix) + Len(digits)
        fill == IF w > n THEN w - n ELSE 0
    IN IF 45 \in fl THEN prefix \o digits \o Spaces(fill)
       ELSE IF 48 \in fl /\ pr < 0 THEN prefix \o Zeros(fill) \o digits
       ELSE Spaces(fill) \o prefix \o digits

WithPrec(pr, v, ds) ==
    LET d0 == IF pr = 0 /\ v = 0 THEN <<>> ELSE ds
    IN IF pr > Len(d0) THEN Zeros(pr - Len(d0)) \o d0 ELSE d0

(* %d %i *)
FmtSigned(fl, w, pr, v) ==
    LET mag == IF v < 0 THEN -v ELSE v
        ds == WithPrec(pr, v, DigitsOf(mag, 10, FALSE))
        sign == IF v < 0 THEN <<45>> ELSE IF 43 \in fl THEN <<43>>
                ELSE IF 32 \in fl THEN <<32>> ELSE <<>>
    IN PadNum(fl, w, pr, sign, ds)

(* %x %X %o for v >= 0; + and space apply to signed conversions only *)
FmtUnsigned(fl, w, pr, v, conv) ==
    LET base == IF conv = 111 THEN 8 ELSE IF conv = 117 THEN 10 ELSE 16
        d1 == WithPrec(pr, v, DigitsOf(v, base, conv = 88))
        d2 == IF conv = 111 /\ 35 \in fl /\ (d1 = <<>> \/ d1[1] # 48) THEN <<48>> \o d1 ELSE d1
        prefix == IF 35 \in fl /\ v # 0 /\ conv # 111 THEN <<48, conv>> ELSE <<>>
    IN PadNum(fl, w, pr, prefix, d2)

PadText(fl, w, t) ==
    LET fill == IF w > Len(t) THEN w - Len(t) ELSE 0
    IN IF 45 \in fl THEN t \o Spaces(fill) ELSE Spaces(fill) \o t

-----------------------------------------------------------------------------
(* %e %E %f %g %G of a dyadic rational, computed on the exact decimal      *)
(* expansion (a dyadic rational has a finite one) with round-half-even on  *)
(* the exact value, as a correctly rounding C library prints it.  Digit    *)
(* sequences hold the values 0..9, most significant first.                 *)

RECURSIVE NumDigits(_)
NumDigits(v) == IF v < 10 THEN <<v>> ELSE Append(NumDigits(v \div 10), v % 10)      \* v >= 0

RECURSIVE Dbl(_, _)
Dbl(ds, carry) ==                       \* 2 * ds + carry
    IF ds = <<>> THEN (IF carry = 0 THEN <<>> ELSE <<carry>>)
    ELSE LET v == 2 * ds[Len(ds)] + carry
         IN Append(Dbl(SubSeq(ds, 1, Len(ds) - 1), v \div 10), v % 10)
RECURSIVE DblN(_, _)
DblN(ds, n) == IF n = 0 THEN ds ELSE DblN(Dbl(ds, 0), n - 1)

RECURSIVE Incr(_)
Incr(ds) ==                             \* ds + 1 (may grow by one digit)
    IF ds = <<>> THEN <<1>>
    ELSE IF ds[Len(ds)] < 9 THEN Append(SubSeq(ds, 1, Len(ds) - 1), ds[Len(ds)] + 1)
    ELSE Append(Incr(SubSeq(ds, 1, Len(ds) - 1)), 0)

RECURSIVE FracDigitsV(_, _)
FracDigitsV(r, den) ==                  \* digits of r/den, 0 <= r < den, den a power of 2
    IF r = 0 THEN <<>>
    ELSE <<(r * 10) \div den>> \o FracDigitsV((r * 10) % den, den)

(* exact expansion of mag * 2^e, mag >= 0: [ip, fp] integer and fraction digits *)
Expansion(mag, e) ==
    IF e >= 0 THEN [ip |-> DblN(NumDigits(mag), e), fp |-> <<>>]
    ELSE LET den == 2 ^ (-e)
         IN [ip |-> NumDigits(mag \div den), fp |-> FracDigitsV(mag % den, den)]

AllZero(ds) == \A k \in 1..Len(ds) : ds[k] = 0
ZeroDigits(n) == [k \in 1..n |-> 0]
(* keep the first n digits of ds (zero extended); round half-even by the rest *)
RoundTo(ds, n) ==
    LET ext == IF Len(ds) >= n THEN ds ELSE ds \o ZeroDigits(n - Len(ds))
        kept == SubSeq(ext, 1, n)
        rest == SubSeq(ext, n + 1, Len(ext))
        up == /\ rest # <<>>
              /\ \/ rest[1] > 5
                 \/ rest[1] = 5 /\ ~AllZero(Tail(rest))
                 \/ rest[1] = 5 /\ AllZero(Tail(rest)) /\ n > 0 /\ kept[n] % 2 = 1
    IN IF up THEN Incr(kept) ELSE kept

(* %f: [ip, fp] with exactly p fraction digits *)
FixedParts(x, p) ==
    LET all == RoundTo(x.ip \o x.fp, Len(x.ip) + p)
        ni == Len(all) - p
    IN [ip |-> SubSeq(all, 1, ni), fp |-> SubSeq(all, ni + 1, Len(all))]

LeadingZeros(ds) == IF AllZero(ds) THEN Len(ds)
                    ELSE (CHOOSE j \in 1..Len(ds) : ds[j] # 0 /\ \A i \in 1..(j - 1) : ds[i] = 0) - 1
(* %e: [d, x]: p+1 significant digits and the decimal exponent *)
SciParts(x, p) ==
    LET all == x.ip \o x.fp
        lz == LeadingZeros(all)
    IN IF lz = Len(all) THEN [d |-> ZeroDigits(p + 1), x |-> 0]
       ELSE LET sg == SubSeq(all, lz + 1, Len(all))
                r == RoundTo(sg, p + 1)
                ex == Len(x.ip) - lz - 1
            IN IF Len(r) > p + 1 THEN [d |-> SubSeq(r, 1, p + 1), x |-> ex + 1]
               ELSE [d |-> r, x |-> ex]

Bytes(ds) == [k \in 1..Len(ds) |-> 48 + ds[k]]
RECURSIVE StripZeros(_)
StripZeros(ds) == IF ds # <<>> /\ ds[Len(ds)] = 0 THEN StripZeros(SubSeq(ds, 1, Len(ds) - 1)) ELSE ds

FixedText(parts, alt) ==
    Bytes(parts.ip) \o (IF parts.fp # <<>> \/ alt THEN <<46>> ELSE <<>>) \o Bytes(parts.fp)
SciText(sp, alt, upper) ==
    LET ax == IF sp.x < 0 THEN -sp.x ELSE sp.x
        xd == IF ax < 10 THEN <<0>> \o NumDigits(ax) ELSE NumDigits(ax)
        fr == Tail(sp.d)
    IN <<48 + sp.d[1]>> \o (IF fr # <<>> \/ alt THEN <<46>> ELSE <<>>) \o Bytes(fr)
       \o <<IF upper THEN 69 ELSE 101, IF sp.x < 0 THEN 45 ELSE 43>> \o Bytes(xd)

(* the unsigned text of conversion c (e E f g G) for the expansion x *)
FloatBody(c, fl, pr, x) ==
    LET alt == 35 \in fl
        upper == c \in {69, 71}
    IN CASE c = 102 -> FixedText(FixedParts(x, IF pr < 0 THEN 6 ELSE pr), alt)
         [] c \in {101, 69} -> SciText(SciParts(x, IF pr < 0 THEN 6 ELSE pr), alt, upper)
         [] OTHER ->                                                     \* g G
              (LET P == IF pr < 0 THEN 6 ELSE IF pr = 0 THEN 1 ELSE pr
                   sp == SciParts(x, P - 1)
               IN IF sp.x < -4 \/ sp.x >= P
                  THEN SciText(IF alt THEN sp ELSE [sp EXCEPT !.d = <<sp.d[1]>> \o StripZeros(Tail(sp.d))], alt, upper)
                  ELSE LET fp == FixedParts(x, P - 1 - sp.x)
                       IN FixedText(IF alt THEN fp ELSE [fp EXCEPT !.fp = StripZeros(fp.fp)], alt))

(* sign and field: for the floating conversions the 0 flag pads with zeros *)
(* whatever the precision; an infinity is padded with blanks only          *)
PadFloat(fl, w, sign, body, zeroOK) ==
    LET n == Len(sign) + Len(body)
        fill == IF w > n THEN w - n ELSE 0
    IN IF 45 \in fl THEN sign \o body \o Spaces(fill)
       ELSE IF 48 \in fl /\ zeroOK THEN sign \o Zeros(fill) \o body
       ELSE Spaces(fill) \o sign \o body

(* flt = <<"fin", neg, mag, e>> (value (-1)^neg * mag * 2^e) or <<"inf", neg>> *)
FmtFloat(c, fl, w, pr, flt) ==
    LET neg == flt[2]
        sign == IF neg THEN <<45>> ELSE IF 43 \in fl THEN <<43>> ELSE IF 32 \in fl THEN <<32>> ELSE <<>>
    IN IF flt[1] = "inf"
       THEN PadFloat(fl, w, sign, IF c \in {69, 71} THEN <<73, 78, 70>> ELSE <<105, 110, 102>>, FALSE)
       ELSE PadFloat(fl, w, sign, FloatBody(c, fl, pr, Expansion(flt[3], flt[4])), TRUE)

(* %q as lstrlib.c addquoted: flags, width and precision are ignored *)
RECURSIVE QuoteBody(_)
QuoteBody(s) ==
    IF s = <<>> THEN <<>>
    ELSE (CASE s[1] \in {34, 92, 10} -> <<92, s[1]>>
            [] s[1] = 13 -> <<92, 114>>
            [] s[1] = 0 -> <<92, 48, 48, 48>>
            [] OTHER -> <<s[1]>>) \o QuoteBody(Tail(s))
QuoteLua(s) == <<34>> \o QuoteBody(s) \o <<34>>

(* Results of one directive / of format: <<"ok", bytes>>, <<"err">>,       *)
(* <<"undef">> (ISO C undefined, platform dependent or not modelled)       *)
FOk(b) == <<"ok", AsSeq(b)>>
FErr == <<"err">>
FUndef == <<"undef">>

(* argument views handed in by the caller (module StrMathEval):            *)
(*   num = <<"ok", v>> the argument converted to a C long (truncated),     *)
(*         <<"err">> not a number, <<"undef">> conversion not modelled     *)
(*   str = <<"ok", bytes>> the argument converted to a string, or err/undef*)
(*   flt = <<"ok", <<"fin", neg, mag, e>>>> / <<"ok", <<"inf", neg>>>> the *)
(*         argument as a double, or err/undef                              *)
(* a directive whose conversion character is missing (format ends) is an   *)
(* invalid option as well (conv = 0).                                      *)
FmtDirective(d, num, str, flt) ==
    LET fl == d.flags
        c == d.conv
    IN CASE c \in {100, 105} ->                                   \* d i
              (IF num[1] # "ok" THEN num
               ELSE IF 35 \in fl THEN FUndef
               ELSE FOk(FmtSigned(fl, d.width, d.prec, num[2])))
         [] c \in {120, 88, 111} ->                                \* x X o
              (IF num[1] # "ok" THEN num
               ELSE IF num[2] < 0 THEN FUndef
               ELSE FOk(FmtUnsigned(fl, d.width, d.prec, num[2], c)))
         [] c = 99 ->                                              \* c
              (IF num[1] # "ok" THEN num
               ELSE IF (fl \ {45}) # {} \/ d.prec >= 0 \/ num[2] % 256 = 0 THEN FUndef
               ELSE FOk(PadText(fl, d.width, <<num[2] % 256>>)))
         [] c = 115 ->                                             \* s
              (IF str[1] # "ok" THEN str
               ELSE IF (fl \ {45}) # {} THEN FUndef
               ELSE IF \E k \in 1..Len(str[2]) : str[2][k] = 0 THEN FUndef
               ELSE IF Len(str[2]) >= 100 THEN FUndef
               ELSE LET t == IF d.prec >= 0 THEN SubSeq(str[2], 1, SMin(d.prec, Len(str[2]))) ELSE str[2]
                    IN FOk(PadText(fl, d.width, t)))
         [] c = 117 ->                                             \* u
              (IF num[1] # "ok" THEN num
               ELSE IF num[2] < 0 \/ 35 \in fl THEN FUndef
               ELSE FOk(FmtUnsigned(fl, d.width, d.prec, num[2], c)))
         [] c \in {101, 69, 102, 103, 71} ->                        \* e E f g G
              (IF flt[1] # "ok" THEN flt
               ELSE FOk(FmtFloat(c, fl, d.width, d.prec, flt[2])))
         [] c = 113 ->                                             \* q
              (IF str[1] # "ok" THEN str ELSE FOk(QuoteLua(str[2])))
         [] OTHER -> FErr                                          \* invalid option

(* string.format(f, args...): nums[k], strs[k] are the two views of the    *)
(* k-th extra argument; a missing argument is an error.                    *)
ArgView(vs, k) == IF k <= Len(vs) THEN vs[k] ELSE FErr

RECURSIVE FormatFrom(_, _, _, _, _, _, _)
FormatFrom(f, p, ai, acc, nums, strs, flts) ==
    IF p > Len(f) THEN FOk(acc)
    ELSE IF f[p] # 37 THEN FormatFrom(f, p + 1, ai, Append(acc, f[p]), nums, strs, flts)
    ELSE IF p + 1 <= Len(f) /\ f[p + 1] = 37
         THEN FormatFrom(f, p + 2, ai, Append(acc, 37), nums, strs, flts)
    ELSE LET d == ScanDirective(f, p + 1) IN
         IF d.bad THEN FErr
         ELSE LET r == FmtDirective(d, ArgView(nums, ai), ArgView(strs, ai), ArgView(flts, ai)) IN
              IF r[1] # "ok" THEN r
              ELSE FormatFrom(f, d.next, ai + 1, acc \o r[2], nums, strs, flts)

Format(f, nums, strs, flts) == FormatFrom(f, 1, 1, <<>>, nums, strs, flts)
=============================================================================
