SPECIFICATION Spec
CONSTANTS
  Gen = TRUE
ACTION_CONSTRAINT GenPrint
CHECK_DEADLOCK FALSE
