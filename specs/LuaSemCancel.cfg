SPECIFICATION Spec
INVARIANTS CancelVerdict CoInv
CHECK_DEADLOCK FALSE
