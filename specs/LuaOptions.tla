----------------------------- MODULE LuaOptions -----------------------------
(***************************************************************************)
(* Options of an LState (property C12): what NewState makes of a raw       *)
(* Options value, what a thread (NewThread / coroutine.create) inherits,   *)
(* and the limits that follow for the call stack and the register file.    *)
(* A raw option tuple is a record [css, rs, rms, rgs, msm]:                *)
(*   css CallStackSize   rs RegistrySize   rms RegistryMaxSize             *)
(*   rgs RegistryGrowStep   msm MinimizeStackMemory                        *)
(* (README "Miscellaneous lua.NewState options", state.go NewState.)       *)
(***************************************************************************)
EXTENDS Integers

CS == INSTANCE CallStack
RG == INSTANCE Registry

DefaultCallStackSize == 256
DefaultRegistrySize == 256 * 20
DefaultGrowStep == 32
MinRegistrySize == 128

Normalise(o) ==
    LET css == IF o.css < 1 THEN DefaultCallStackSize ELSE o.css
        rs == IF o.rs < MinRegistrySize THEN DefaultRegistrySize ELSE o.rs
        grow == o.rms >= rs                    \* growth is disabled when the maximum is below the size
    IN [css |-> css, rs |-> rs,
        rms |-> IF grow THEN o.rms ELSE 0,
        rgs |-> IF grow /\ o.rgs < 1 THEN DefaultGrowStep ELSE o.rgs,
        msm |-> o.msm]

(* a thread is created with the (normalised) options of its creator *)
ThreadOptions(n) == n

StackImpl(n) == IF n.msm THEN "auto" ELSE "fixed"
StackSize(n) == n.css                            \* overflow forbidden below
StackHard(n) == CS!HardCap(StackImpl(n), n.css)  \* overflow mandatory at
RegSize(n) == n.rs                               \* initial register file
RegLimit(n) == RG!Limit(n.rs, n.rms)             \* overflow exactly above

Limits(o) == LET n == Normalise(o) IN
    [lo |-> StackSize(n), hi |-> StackHard(n), lim |-> RegLimit(n)]

(* ---- laws (checked by TLC over the enumerated tuples) ---------------------- *)
Laws(o) == LET n == Normalise(o) IN
    /\ Normalise(n) = n                                          \* idempotent
    /\ n.css >= 1 /\ n.rs >= MinRegistrySize
    /\ (o.css >= 1 => n.css = o.css) /\ (o.rs >= MinRegistrySize => n.rs = o.rs)
    /\ n.rms = 0 \/ n.rms >= n.rs
    /\ (n.rms # 0 => n.rgs >= 1)
    /\ StackHard(n) >= StackSize(n) /\ StackHard(n) - StackSize(n) < CS!FramesPerSegment
    /\ (~n.msm => StackHard(n) = StackSize(n))
    /\ RegLimit(n) >= RegSize(n)
    /\ (o.rms >= n.rs => RegLimit(n) = o.rms)                     \* a permitted maximum is honoured
    /\ ThreadOptions(n) = n
=============================================================================
