SPECIFICATION Spec
CONSTANTS
  Mode = "str"
  Alpha <- StrAlpha
  IntGrid <- NoGrid
INVARIANTS QuoteLaw ShortFormsLaw LongFormsLaw ShortShrinks
CHECK_DEADLOCK FALSE
