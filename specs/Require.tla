------------------------------ MODULE Require ------------------------------
(***************************************************************************)
(* Reference semantics of the Lua 5.1 module system (property C20):       *)
(* require (ll_require of loadlib.c), the preload and path searchers,     *)
(* module() and luaL_register as far as they touch package.loaded and the *)
(* global of the same name.                                                *)
(*                                                                         *)
(* The semantics is a pure function  Exec(st, op, pos)  over one state    *)
(* record, so that the same definition is model-checked (RequireMC),      *)
(* exported as expectations (GEN) and used to validate what the real      *)
(* interpreter returned (RequireTrace).                                    *)
(*                                                                         *)
(* Values are strings (comparable with each other in TLC):                 *)
(*   "nil" "true" "false"  "t<i>" the i-th table created   "n<i>" number i *)
(*   "sentinel" the mark left in package.loaded while a loader runs        *)
(*                                                                         *)
(* A loader is a record [lid, host, syn, beh]: lid names the history       *)
(* position that installed it ("L3"), host = Go function, syn = the file   *)
(* does not compile.  Its behaviour beh = [pre, reqs, post, fail, ret] is  *)
(* executed in that order:                                                 *)
(*   pre   what it assigns to package.loaded[name] first: "none" "tbl"     *)
(*         "num" "false" "nil" or "module" (calls module(name))            *)
(*   reqs  nested requires <<[n, prot]>>, prot = through pcall             *)
(*   post  a second assignment to package.loaded[name] (not "module")      *)
(*   fail  raises an error                                                 *)
(*   ret   what it returns: "none" "tbl" "num" "false"                     *)
(* Every loader invocation and the outcome of every nested require that    *)
(* returns into the loader is appended to st.log.                          *)
(***************************************************************************)
EXTENDS Integers, Sequences, FiniteSets, TLC

Nil == "nil"
True == "true"
False == "false"
Sent == "sentinel"
Tbl(i) == "t" \o ToString(i)
Num(i) == "n" \o ToString(i)
Truthy(v) == v # Nil /\ v # False

SeqSet(s) == {s[i] : i \in 1..Len(s)}

(***************************************************************************)
(* Module names and file names.  TLC cannot look into strings, so a module *)
(* name comes with its dot-separated components: "p.q.r" has the parts     *)
(* <<"p","q","r">> (NameStr(parts) = name; "u..v" has an empty part).      *)
(* package.path is a sequence of templates; a template is a sequence of    *)
(* "/"-separated segments, a segment a sequence of pieces, the piece "?"   *)
(* being the mark:  d2/?/init.lua = <<<<"d2">>, <<"?">>, <<"init.lua">>>>. *)
(* The path searcher replaces EVERY mark of a template by the module name  *)
(* with ALL its dots turned into the directory separator (loadlib.c:       *)
(* luaL_gsub(name, ".", LUA_DIRSEP), then luaL_gsub(template, "?", name)). *)
(* CandRaw is that string (it is what the error message lists), CandNorm   *)
(* the file it denotes (empty segments vanish: "d1//x.lua" = "d1/x.lua").  *)
(* The disk maps normalised paths (sequences of segments) to loaders.      *)
(***************************************************************************)
Mark == "?"

RECURSIVE JoinStr(_, _)
JoinStr(ss, sep) == IF Len(ss) = 0 THEN ""
                    ELSE IF Len(ss) = 1 THEN ss[1]
                    ELSE ss[1] \o sep \o JoinStr(Tail(ss), sep)

NameStr(parts) == JoinStr(parts, ".")

(* expand one segment; acc is a non-empty sequence of strings whose last   *)
(* element is still open: a mark appends the first part to it and opens a  *)
(* new segment for every further part                                       *)
RECURSIVE ExpandSeg(_, _, _)
ExpandSeg(pieces, parts, acc) ==
    IF Len(pieces) = 0 THEN acc
    ELSE LET n == Len(acc) IN
         IF Head(pieces) # Mark
         THEN ExpandSeg(Tail(pieces), parts, [acc EXCEPT ![n] = @ \o Head(pieces)])
         ELSE ExpandSeg(Tail(pieces), parts, [acc EXCEPT ![n] = @ \o parts[1]] \o SubSeq(parts, 2, Len(parts)))

RECURSIVE CandSegs(_, _)
CandSegs(t, parts) == IF Len(t) = 0 THEN <<>> ELSE ExpandSeg(t[1], parts, <<"">>) \o CandSegs(Tail(t), parts)

CandRaw(t, parts) == JoinStr(CandSegs(t, parts), "/")
CandNorm(t, parts) == SelectSeq(CandSegs(t, parts), LAMBDA x : x # "")
NormPath(segs) == SelectSeq(segs, LAMBDA x : x # "")
IsTbl(st, v) == \E i \in 1..st.nobj : v = Tbl(i)

NoBeh == [pre |-> "none", reqs |-> <<>>, post |-> "none", fail |-> FALSE, ret |-> "none"]
NoLoader == [lid |-> "none", host |-> FALSE, syn |-> FALSE, beh |-> NoBeh]
StdSearchers == <<[k |-> "P", lid |-> "none"], [k |-> "F", lid |-> "none"]>>
RetTbl == [pre |-> "none", reqs |-> <<>>, post |-> "none", fail |-> FALSE, ret |-> "tbl"]
Loader(pos, host, syn, beh) == [lid |-> "L" \o ToString(pos), host |-> host, syn |-> syn, beh |-> beh]

(* A behaviour whose execution is finite: a loader that un-marks its own   *)
(* module (assigns false/nil) before requiring anything could recurse      *)
(* forever, in Lua as well as here.  module() needs a Lua caller.          *)
WellFormedBeh(host, b) ==
    /\ (b.pre \in {"false", "nil"} => Len(b.reqs) = 0)
    /\ (host => b.pre # "module")

(* module(), luaL_register and the global of the same name are modelled    *)
(* for names without dots only (a dotted name denotes nested tables)       *)
Plain(st, n) == Len(st.parts[n]) = 1

(* names: sequence of distinct module names; the first nb are libraries    *)
(* the host registered when the state was created (objects t1..t<nb>).     *)
(* parts[i]: components of names[i]; path: the templates of package.path   *)
(* skip: the state was created without libraries (Options.SkipOpenLibs);    *)
(* opened: the libraries the host has opened so far                         *)
InitState(names, parts, nb, path, skip) ==
    LET NS == SeqSet(names)
        Idx(n) == CHOOSE i \in 1..Len(names) : names[i] = n
        v0 == [n \in NS |-> IF Idx(n) <= nb THEN Tbl(Idx(n)) ELSE Nil]
    IN [names |-> names, parts |-> [n \in NS |-> parts[Idx(n)]], path |-> path,
        loaded |-> v0, glob |-> v0,
        preload |-> [n \in NS |-> NoLoader],
        disk |-> <<>>, searchers |-> StdSearchers, opened |-> IF skip THEN {} ELSE {"base", "package", "string", "table"},
        flds |-> {}, nobj |-> nb, ninv |-> 0, log |-> <<>>]

NamesWellFormed(names, parts) ==
    /\ Len(names) = Len(parts)
    /\ \A i \in 1..Len(names) : Len(parts[i]) >= 1 /\ NameStr(parts[i]) = names[i]
    /\ \A i, j \in 1..Len(names) : i # j => names[i] # names[j]

OnDisk(st, p) == IF p \in DOMAIN st.disk THEN st.disk[p] ELSE NoLoader
WriteDisk(st, p, ld) == [st EXCEPT !.disk = (p :> ld) @@ @]
NT(st) == Len(st.path)
CandLoader(st, n, i) == OnDisk(st, CandNorm(st.path[i], st.parts[n]))
CandRaws(st, n) == [i \in 1..NT(st) |-> CandRaw(st.path[i], st.parts[n])]

Log(st, e) == [st EXCEPT !.log = Append(@, e)]
SetLoaded(st, n, v) == [st EXCEPT !.loaded[n] = v]

(* evaluate a value kind: [st, v] *)
MkVal(st, kind) ==
    CASE kind = "tbl" -> [st |-> [st EXCEPT !.nobj = @ + 1], v |-> Tbl(st.nobj + 1)]
      [] kind = "num" -> [st |-> st, v |-> Num(st.ninv)]
      [] kind = "false" -> [st |-> st, v |-> False]
      [] kind = "true" -> [st |-> st, v |-> True]
      [] OTHER -> [st |-> st, v |-> Nil]          \* "nil", "none"

(* luaL_findtable(globals, name) as used by module() and luaL_register:    *)
(* the global if it is a table, a new table stored in the global if it is  *)
(* nil, otherwise a name conflict.  [st, v, err]                           *)
FindGlobalTable(st, n) ==
    IF st.glob[n] = Nil
    THEN [st |-> [st EXCEPT !.nobj = @ + 1, !.glob[n] = Tbl(st.nobj + 1)], v |-> Tbl(st.nobj + 1), err |-> <<>>]
    ELSE IF IsTbl(st, st.glob[n])
    THEN [st |-> st, v |-> st.glob[n], err |-> <<>>]
    ELSE [st |-> st, v |-> Nil, err |-> <<"err", "conflict", n>>]

(* module(name): reuse package.loaded[name] if it is a table, else the     *)
(* global table of that name (created on demand).  [st, err]               *)
ModuleCall(st, n) ==
    IF IsTbl(st, st.loaded[n]) THEN [st |-> st, err |-> <<>>]
    ELSE LET g == FindGlobalTable(st, n)
         IN IF g.err # <<>> THEN [st |-> st, err |-> g.err]
            ELSE [st |-> SetLoaded(g.st, n, g.v), err |-> <<>>]

(* an assignment step of a loader: [st, err] *)
Assign(st, n, kind) ==
    CASE kind = "none" -> [st |-> st, err |-> <<>>]
      [] kind = "module" -> ModuleCall(st, n)
      [] OTHER -> LET m == MkVal(st, kind) IN [st |-> SetLoaded(m.st, n, m.v), err |-> <<>>]

(***************************************************************************)
(* The searchers.  require reads the table package.loaders on EVERY call   *)
(* (ll_require: lua_getfield(L, LUA_ENVIRONINDEX, "loaders")), so a script *)
(* may edit that table in place or replace it by another one; and the      *)
(* searchers reach package.preload / package.path through the package      *)
(* TABLE (their environment), never through the global variable "package", *)
(* which a script may hide.  st.searchers is the current list; a searcher  *)
(* is [k, lid] with k =                                                    *)
(*   "P" the standard preload searcher   "F" the standard path searcher    *)
(*   "C" a custom one that finds every module (its loader returns a value) *)
(*   "N" a custom one that finds nothing and says so                       *)
(* What was tried is listed in searcher order: "P" for the preload field,  *)
(* the file name of every template, "N:<lid>" for a custom refusal.        *)
(***************************************************************************)

RECURSIVE Search(_, _, _, _)
Search(st, n, i, msgs) ==
    IF i > Len(st.searchers) THEN [kind |-> "none", ld |-> NoLoader, raw |-> "", msgs |-> msgs]
    ELSE LET s == st.searchers[i] IN
         CASE s.k = "P" ->
                 IF st.preload[n].lid # "none" THEN [kind |-> "found", ld |-> st.preload[n], raw |-> "", msgs |-> msgs]
                 ELSE Search(st, n, i + 1, Append(msgs, "P"))
           [] s.k = "F" ->
                 LET ds == {t \in 1..NT(st) : CandLoader(st, n, t).lid # "none"}
                 IN IF ds = {} THEN Search(st, n, i + 1, msgs \o CandRaws(st, n))
                    ELSE LET d == CHOOSE d \in ds : \A e \in ds : d <= e
                             f == CandLoader(st, n, d)
                         IN [kind |-> IF f.syn THEN "syn" ELSE "found", ld |-> f,
                             raw |-> CandRaw(st.path[d], st.parts[n]), msgs |-> msgs]
           [] s.k = "C" -> [kind |-> "found", ld |-> [lid |-> s.lid, host |-> FALSE, syn |-> FALSE, beh |-> RetTbl], raw |-> "", msgs |-> msgs]
           [] OTHER -> Search(st, n, i + 1, Append(msgs, "N:" \o s.lid))

FindLoader(st, n) == Search(st, n, 1, <<>>)

IsErr(r) == r[1] = "err"
Ok(v) == <<"ok", v>>

RECURSIVE DoRequire(_, _), RunLoader(_, _, _), RunReqs(_, _, _, _)

(* require(name): [st, res], res = <<"ok", v>> or <<"err", kind, ...>> *)
DoRequire(st, n) ==
    LET v == st.loaded[n] IN
    IF Truthy(v)
    THEN (IF v = Sent THEN [st |-> st, res |-> <<"err", "loop", n>>]
          ELSE [st |-> st, res |-> Ok(v)])
    ELSE LET f == FindLoader(st, n) IN
         CASE f.kind = "none" ->
                 \* every searcher's attempt is listed, in the order of the searchers
                 [st |-> st, res |-> <<"err", "notfound", n>> \o f.msgs]
           [] f.kind = "syn" -> [st |-> st, res |-> <<"err", "loaderr", f.raw>>]
           [] OTHER ->
                 LET r == RunLoader(SetLoaded(st, n, Sent), f.ld, n) IN
                 IF IsErr(r.res) THEN r                 \* whatever the loader left stays
                 ELSE LET s2 == IF r.res[2] # Nil THEN SetLoaded(r.st, n, r.res[2]) ELSE r.st
                          s3 == IF s2.loaded[n] = Sent THEN SetLoaded(s2, n, True) ELSE s2
                      IN [st |-> s3, res |-> Ok(s3.loaded[n])]

(* one loader invocation with the module name as its argument *)
RunLoader(st, ld, n) ==
    LET b == ld.beh
        s0 == Log([st EXCEPT !.ninv = @ + 1], <<"run", ld.lid, n>>)
        a1 == Assign(s0, n, b.pre)
    IN IF a1.err # <<>> THEN [st |-> a1.st, res |-> a1.err]
       ELSE LET rq == RunReqs(a1.st, ld, b.reqs, 1)
            IN IF rq.err # <<>> THEN [st |-> rq.st, res |-> rq.err]
               ELSE LET a2 == Assign(rq.st, n, b.post)
                    IN IF b.fail THEN [st |-> a2.st, res |-> <<"err", "fail", ld.lid>>]
                       ELSE LET m == MkVal(a2.st, b.ret) IN [st |-> m.st, res |-> Ok(m.v)]

(* the nested requires of a loader; an unprotected failure aborts it *)
RunReqs(st, ld, reqs, i) ==
    IF i > Len(reqs) THEN [st |-> st, err |-> <<>>]
    ELSE LET r == DoRequire(st, reqs[i].n)
         IN IF IsErr(r.res) /\ ~reqs[i].prot THEN [st |-> r.st, err |-> r.res]
            ELSE RunReqs(Log(r.st, <<"res", ld.lid, ToString(i)>> \o r.res), ld, reqs, i + 1)

(* luaL_register(name, {f}): the table in package.loaded if there is one,  *)
(* else the global table (created on demand) which also becomes            *)
(* package.loaded[name]; the functions are stored in it either way.        *)
Register(st, n, f) ==
    IF IsTbl(st, st.loaded[n])
    THEN [st |-> [st EXCEPT !.flds = @ \cup {<<st.loaded[n], f>>}], res |-> Ok(st.loaded[n])]
    ELSE LET g == FindGlobalTable(st, n)
         IN IF g.err # <<>> THEN [st |-> st, res |-> g.err]
            ELSE [st |-> [SetLoaded(g.st, n, g.v) EXCEPT !.flds = @ \cup {<<g.v, f>>}], res |-> Ok(g.v)]

NoRes == <<"none">>

(* The host opens a library (luaopen_xxx): luaL_register(libname): the table *)
(* in package.loaded if there is one, else the global table, created on     *)
(* demand, which becomes package.loaded[libname].  _LOADED is ONE table for *)
(* the life of the state: luaopen_package finds it (luaL_findtable) and     *)
(* publishes it as package.loaded, so whatever was registered before the    *)
(* package library is opened - or opened again - stays loaded.  Opening the *)
(* package library installs a new, empty package.preload.  (The harness     *)
(* puts package.path back afterwards.)  "base" only counts as opened.       *)
(* Which table carries the library afterwards is luaL_register's choice:    *)
(* package.loaded["package"] if it is a table - also one a custom searcher  *)
(* loaded under that name after the entry was cleared - else the global,    *)
(* else a new table.  Identity is modelled by loaded / glob as for any      *)
(* other name; the observer has to follow the library into that table.      *)
LibName(lib) == IF lib = "base" THEN "_G" ELSE lib
Ready(st) == {"base", "package"} \subseteq st.opened
OpenLib(st, lib) ==
    LET n == LibName(lib)
        s1 == [st EXCEPT !.opened = @ \cup {lib}]
        s2 == IF lib = "package" THEN [s1 EXCEPT !.preload = [m \in DOMAIN @ |-> NoLoader], !.searchers = StdSearchers] ELSE s1
    IN IF lib = "base" \/ n \notin SeqSet(st.names) \/ IsTbl(s2, s2.loaded[n]) THEN [st |-> s2, res |-> NoRes]
       ELSE LET g == FindGlobalTable(s2, n)
            IN IF g.err # <<>> THEN [st |-> st, res |-> g.err]      \* luaL_register comes first: nothing else happened
               ELSE [st |-> SetLoaded(g.st, n, g.v), res |-> NoRes]

(* one top-level operation of a history at position pos: [st, res] *)
Exec(st0, op, pos) ==
    LET st == [st0 EXCEPT !.log = <<>>] IN
    CASE op.op = "req" -> DoRequire(st, op.n)
      [] op.op = "preload" ->
            [st |-> [st EXCEPT !.preload[op.n] = Loader(pos, op.host, FALSE, op.beh)], res |-> NoRes]
      [] op.op = "unpreload" -> [st |-> [st EXCEPT !.preload[op.n] = NoLoader], res |-> NoRes]
      [] op.op = "file" -> [st |-> WriteDisk(st, NormPath(op.path), Loader(pos, FALSE, op.syn, op.beh)), res |-> NoRes]
      [] op.op = "rmfile" -> [st |-> WriteDisk(st, NormPath(op.path), NoLoader), res |-> NoRes]
      [] op.op = "path" -> [st |-> [st EXCEPT !.path = op.tpl], res |-> NoRes]
      [] op.op = "open" -> OpenLib(st, op.lib)
      [] op.op = "clear" -> [st |-> SetLoaded(st, op.n, Nil), res |-> NoRes]
      [] op.op = "glob" ->
            \* kind "loaded": the global gets the value of package.loaded[n] (puts a hidden library table back)
            IF op.kind = "loaded" THEN [st |-> [st EXCEPT !.glob[op.n] = st.loaded[op.n]], res |-> NoRes]
            ELSE LET m == MkVal(st, op.kind) IN [st |-> [m.st EXCEPT !.glob[op.n] = m.v], res |-> NoRes]
      [] op.op = "clearall" ->
            \* the hot-reload idiom: for k in pairs(package.loaded) do package.loaded[k] = nil end - every entry goes,
            \* "package" and the standard libraries included; require, the searchers and PreloadModule still work
            \* (they never find the package table through package.loaded)
            [st |-> [st EXCEPT !.loaded = [m \in DOMAIN @ |-> Nil]], res |-> NoRes]
      [] op.op = "gmeta" ->
            \* the script gives the table of globals a metatable: __index raises ("strict"), or answers every missing
            \* name with one and the same table ("fallback": a new object), or none.  module() and luaL_register look
            \* names up with RAW accesses (luaL_findtable: lua_rawget), so nothing else changes.
            [st |-> IF op.kind = "fallback" THEN [st EXCEPT !.nobj = @ + 1] ELSE st, res |-> NoRes]
      [] op.op = "loaders" ->
            \* package.loaders edited in place or replaced by a new table (op.how): the same thing to require
            [st |-> [st EXCEPT !.searchers = [i \in 1..Len(op.list) |-> [k |-> op.list[i], lid |-> IF op.list[i] \in {"P", "F"} THEN "none" ELSE "L" \o ToString(pos)]]],
             res |-> NoRes]
      [] op.op = "register" -> Register(st, op.n, op.f)

(* require, package.* and loaders need the base and package libraries *)
OpWellFormed(st, op) ==
    CASE op.op = "preload" -> Ready(st) /\ WellFormedBeh(op.host, op.beh) /\ (op.beh.pre = "module" => Plain(st, op.n))
      [] op.op = "file" -> /\ WellFormedBeh(FALSE, op.beh)
                           /\ (op.beh.pre = "module" => \A n \in SeqSet(st.names) : Plain(st, n))   \* any name may find the file
                           /\ Len(NormPath(op.path)) >= 1
      [] op.op = "rmfile" -> Len(NormPath(op.path)) >= 1
      [] op.op \in {"glob", "register"} -> Plain(st, op.n)
      [] op.op = "gmeta" -> op.kind \in {"strict", "fallback", "none"}
      [] op.op = "loaders" -> Ready(st) /\ op.how \in {"replace", "inplace"} /\ \A i \in 1..Len(op.list) : op.list[i] \in {"P", "F", "C", "N"}
      [] op.op = "open" -> op.lib \in {"base", "package", "string", "table"} /\ (op.lib = "base" => "_G" \notin SeqSet(st.names))
      [] OTHER -> Ready(st)        \* req, clear, unpreload, path

(* what is visible after an operation *)
FldStr(st, v) ==
    IF IsTbl(st, v)
    THEN (IF <<v, "f1">> \in st.flds THEN "f1" ELSE "") \o (IF <<v, "f2">> \in st.flds THEN "f2" ELSE "")
    ELSE "-"

Obs(r) ==
    LET s == r.st
        N == Len(s.names)
    IN [res |-> r.res, log |-> s.log,
        ld |-> [i \in 1..N |-> s.loaded[s.names[i]]],
        gl |-> [i \in 1..N |-> s.glob[s.names[i]]],
        fl |-> [i \in 1..N |-> FldStr(s, s.loaded[s.names[i]])],
        fg |-> [i \in 1..N |-> FldStr(s, s.glob[s.names[i]])]]

ObsFields == <<"log", "res", "ld", "gl", "fl", "fg">>
=============================================================================
