------------------------------ MODULE Bytecode ------------------------------
(***************************************************************************)
(* Property C07: every compiled function is well-formed bytecode.          *)
(*                                                                         *)
(* A prototype p is a record of plain data, as the compiler produced it:   *)
(*   hi, lo : the code words split into 16-bit halves (word = hi*2^16+lo)  *)
(*   nreg   : NumUsedRegisters      nup : NumUpvalues   np : NumParameters *)
(*   va     : IsVarArg bit set      nline : length of the line table       *)
(*   kt     : type of every constant (0 nil 1 bool 2 number 3 string 4 ?)  *)
(*   ks/sk  : the string constants / the VM's parallel string table        *)
(*   pnup   : NumUpvalues of every nested prototype                        *)
(*   ndbgup : number of upvalue names (only used to label a wrapped count) *)
(*   ls/le  : scope of every declared local: StartPc <= pc < EndPc          *)
(*                                                                         *)
(* The instruction words are decoded HERE (Lua 5.1 layout: opcode 6 bits,  *)
(* A 8 bits, C 9 bits, B 9 bits; Bx = C:B 18 bits; sBx = Bx - 131071).     *)
(* Viol(p, hd) is the set of violated rules, each with the first pc; the   *)
(* rules are, per opcode, what the VM dereferences without checking.       *)
(* WF(p) == no rule violated.  pcs are 0-based as in the VM.               *)
(***************************************************************************)
EXTENDS Integers, Sequences, FiniteSets

CONSTANT FrameLimit        \* the largest register count a frame may declare

OP_MOVE == 0       OP_MOVEN == 1      OP_LOADK == 2     OP_LOADBOOL == 3
OP_LOADNIL == 4    OP_GETUPVAL == 5   OP_GETGLOBAL == 6 OP_GETTABLE == 7
OP_GETTABLEKS == 8 OP_SETGLOBAL == 9  OP_SETUPVAL == 10 OP_SETTABLE == 11
OP_SETTABLEKS == 12 OP_NEWTABLE == 13 OP_SELF == 14     OP_ADD == 15
OP_POW == 20       OP_UNM == 21       OP_NOT == 22      OP_LEN == 23
OP_CONCAT == 24    OP_JMP == 25       OP_EQ == 26       OP_LT == 27
OP_LE == 28        OP_TEST == 29      OP_TESTSET == 30  OP_CALL == 31
OP_TAILCALL == 32  OP_RETURN == 33    OP_FORLOOP == 34  OP_FORPREP == 35
OP_TFORLOOP == 36  OP_SETLIST == 37   OP_CLOSE == 38    OP_CLOSURE == 39
OP_VARARG == 40    OP_NOP == 41
OpMax == 41

OpName == <<"MOVE", "MOVEN", "LOADK", "LOADBOOL", "LOADNIL", "GETUPVAL", "GETGLOBAL",
            "GETTABLE", "GETTABLEKS", "SETGLOBAL", "SETUPVAL", "SETTABLE", "SETTABLEKS",
            "NEWTABLE", "SELF", "ADD", "SUB", "MUL", "DIV", "MOD", "POW", "UNM", "NOT",
            "LEN", "CONCAT", "JMP", "EQ", "LT", "LE", "TEST", "TESTSET", "CALL",
            "TAILCALL", "RETURN", "FORLOOP", "FORPREP", "TFORLOOP", "SETLIST", "CLOSE",
            "CLOSURE", "VARARG", "NOP">>

(* ---- decoding -------------------------------------------------------- *)
NW(p)        == Len(p.hi)
Hi(p, pc)    == p.hi[pc + 1]
Lo(p, pc)    == p.lo[pc + 1]
Op(p, pc)    == Hi(p, pc) \div 1024
ArgA(p, pc)  == (Hi(p, pc) \div 4) % 256
ArgC(p, pc)  == (Hi(p, pc) % 4) * 128 + Lo(p, pc) \div 512
ArgB(p, pc)  == Lo(p, pc) % 512
ArgBx(p, pc) == (Hi(p, pc) % 4) * 65536 + Lo(p, pc)
ArgSbx(p, pc) == ArgBx(p, pc) - 131071
NK(p)        == Len(p.kt)
IsVarArgFn(p) == (p.va \div 2) % 2 = 1
(* VarArgHasArg: on entry the VM stores the implicit 'arg' value (table or  *)
(* nil) in R(NumParameters), whether or not the body names it               *)
HasArgSlot(p) == p.va % 2 = 1

(* ---- multi-word groups ------------------------------------------------ *)
(* number of words of the group whose head is the word at pc *)
GLen(p, pc) ==
    LET o == Op(p, pc) IN
    CASE o = OP_CLOSURE -> 1 + (IF ArgBx(p, pc) < Len(p.pnup) THEN p.pnup[ArgBx(p, pc) + 1] ELSE 0)
      [] o = OP_MOVEN   -> 1 + ArgC(p, pc)
      [] o = OP_SETLIST /\ ArgC(p, pc) = 0 -> 2
      [] OTHER -> 1

(* Scan(p, lo, hi, nxt): walk the words lo..hi knowing that the next group   *)
(* head is at nxt; returns which of them are heads and the next head after   *)
(* hi.  Divide and conquer keeps the recursion depth logarithmic.            *)
RECURSIVE Scan(_, _, _, _)
Scan(p, lo, hi, nxt) ==
    IF lo = hi
    THEN IF lo = nxt THEN [h |-> <<TRUE>>, nxt |-> lo + GLen(p, lo)]
                     ELSE [h |-> <<FALSE>>, nxt |-> nxt]
    ELSE LET mid == (lo + hi) \div 2
             L == Scan(p, lo, mid, nxt)
             R == Scan(p, mid + 1, hi, L.nxt)
         IN [h |-> L.h \o R.h, nxt |-> R.nxt]

(* Heads(p).h[pc+1] <=> the word at pc is an instruction boundary (group head) *)
Heads(p) == IF NW(p) = 0 THEN [h |-> <<>>, nxt |-> 0] ELSE Scan(p, 0, NW(p) - 1, 0)

RECURSIVE Owner(_, _)
Owner(hd, t) == IF t <= 0 \/ hd.h[t + 1] THEN t ELSE Owner(hd, t - 1)

Min2(x, y) == IF x < y THEN x ELSE y

(* ---- which registers an instruction (group) writes --------------------- *)
(* Used only to find the definition that reaches the key register of a      *)
(* string-keyed instruction.  A call clobbers everything from its function  *)
(* register upwards (the callee's frame lives there).                       *)
WritesReg(p, q, r) ==
    LET o == Op(p, q)  a == ArgA(p, q)  b == ArgB(p, q)  c == ArgC(p, q) IN
    CASE o \in {OP_MOVE, OP_LOADK, OP_LOADBOOL, OP_GETUPVAL, OP_GETGLOBAL, OP_GETTABLE,
                OP_GETTABLEKS, OP_NEWTABLE, OP_UNM, OP_NOT, OP_LEN, OP_CONCAT,
                OP_TESTSET, OP_CLOSURE, OP_FORPREP} -> r = a
      [] o >= OP_ADD /\ o <= OP_POW -> r = a
      [] o = OP_MOVEN -> \E i \in 0..Min2(c, NW(p) - 1 - q) : ArgA(p, q + i) = r
      [] o = OP_LOADNIL -> a <= r /\ r <= b
      [] o = OP_SELF -> r = a \/ r = a + 1
      [] o \in {OP_CALL, OP_TAILCALL} -> r >= a
      [] o = OP_VARARG -> IF b = 0 THEN r >= a ELSE a <= r /\ r <= a + b - 2
      [] o = OP_FORLOOP -> r = a \/ r = a + 3
      [] o = OP_TFORLOOP -> r >= a + 2
      [] OTHER -> FALSE

(* the highest register some instruction of the prototype writes (statically *)
(* known); a register beyond the declared count that is READ is reported at  *)
(* the reader only if no instruction writes that high - otherwise the writer *)
(* is the one that escaped the count and carries the report                  *)
Max2(x, y) == IF x > y THEN x ELSE y
WMax(p, q) ==
    LET o == Op(p, q)  a == ArgA(p, q)  b == ArgB(p, q)  c == ArgC(p, q) IN
    CASE o \in {OP_MOVE, OP_LOADK, OP_LOADBOOL, OP_GETUPVAL, OP_GETGLOBAL, OP_GETTABLE,
                OP_GETTABLEKS, OP_NEWTABLE, OP_UNM, OP_NOT, OP_LEN, OP_CONCAT,
                OP_TESTSET, OP_CLOSURE} -> a
      [] o >= OP_ADD /\ o <= OP_POW -> a
      [] o = OP_MOVEN -> LET s == {ArgA(p, q + i) : i \in 0..Min2(c, NW(p) - 1 - q)} IN
                         CHOOSE m \in s : \A x \in s : x <= m
      [] o = OP_LOADNIL -> Max2(a, b)
      [] o = OP_SELF -> a + 1
      [] o = OP_CALL -> (IF c >= 2 THEN a + c - 2 ELSE -1)
      [] o = OP_VARARG -> (IF b = 1 THEN -1 ELSE IF b = 0 THEN a ELSE a + b - 2)
      [] o = OP_FORLOOP -> a + 3
      [] o = OP_TFORLOOP -> Max2(a + 2 + c, a + 5)
      [] OTHER -> -1
(* function entry writes the parameters R(0)..R(np-1) and, with VarArgHasArg, *)
(* the arg slot R(np); both are reported by the frame rules of ProtoViol       *)
EntryWMax(p) == IF HasArgSlot(p) THEN p.np ELSE p.np - 1
MaxWritten(p, s) ==
    LET ws == {WMax(p, q) : q \in {x \in 0..NW(p) - 1 : s.h[x + 1]}} \cup {-1, EntryWMax(p)}
    IN CHOOSE m \in ws : \A x \in ws : x <= m

(* boundaries + highest written register: computed once per prototype *)
Frame(p) == LET s == Heads(p) IN [h |-> s.h, nxt |-> s.nxt, mw |-> MaxWritten(p, s)]

(* the definition of register r that reaches pc in code order is a LOADK of *)
(* a string constant                                                        *)
(* last instruction boundary in lo..hi that writes r, or -1; the right half is  *)
(* searched first, so the cost is the distance to the definition and the       *)
(* recursion depth is logarithmic                                              *)
RECURSIVE LastWriter(_, _, _, _, _)
LastWriter(p, hd, lo, hi, r) ==
    IF lo > hi THEN -1
    ELSE IF lo = hi THEN (IF hd.h[lo + 1] /\ WritesReg(p, lo, r) THEN lo ELSE -1)
    ELSE LET mid == (lo + hi) \div 2
             right == LastWriter(p, hd, mid + 1, hi, r)
         IN IF right >= 0 THEN right ELSE LastWriter(p, hd, lo, mid, r)
DefIsStringK(p, hd, pc, r) ==
    LET q == LastWriter(p, hd, 0, pc - 1, r) IN
    q >= 0 /\ Op(p, q) = OP_LOADK /\ ArgBx(p, q) < NK(p) /\ p.kt[ArgBx(p, q) + 1] = 3

(* ---- open register windows (B = 0: "up to the stack top") --------------- *)
(* In this VM every CALL and VARARG leaves the top right behind what it      *)
(* delivered (copyReturnValues / CopyRange set reg.top), so an instruction   *)
(* with B = 0 is well defined exactly when the word before it is such an     *)
(* instruction and the top it leaves is not below the consumer's window.     *)
IsConsumer(p, pc) == /\ Op(p, pc) \in {OP_CALL, OP_TAILCALL, OP_RETURN, OP_SETLIST}
                     /\ ArgB(p, pc) = 0
IsProducer(p, q)  == Op(p, q) \in {OP_CALL, OP_VARARG}
(* lower bound of the top (frame relative) after a producer *)
TopAfter(p, q) ==
    IF Op(p, q) = OP_CALL THEN (IF ArgC(p, q) = 0 THEN ArgA(p, q) ELSE ArgA(p, q) + ArgC(p, q) - 1)
    ELSE (IF ArgB(p, q) = 0 THEN ArgA(p, q) ELSE ArgA(p, q) + ArgB(p, q) - 1)
(* RETURN may also follow a TAILCALL (then it is never reached) *)
OpenOK(p, hd, pc) ==
    /\ pc >= 1 /\ hd.h[pc]
    /\ \/ IsProducer(p, pc - 1) /\
          (IF Op(p, pc) = OP_RETURN THEN TopAfter(p, pc - 1) >= ArgA(p, pc)
                                    ELSE TopAfter(p, pc - 1) >= ArgA(p, pc) + 1)
       \/ Op(p, pc) = OP_RETURN /\ Op(p, pc - 1) = OP_TAILCALL

(* ---- jump / skip targets ------------------------------------------------ *)
InteriorKind(p, hd, t) ==
    LET h == Owner(hd, t)  o == Op(p, h) IN
    CASE o = OP_MOVEN   -> (IF Op(p, t) = OP_MOVE THEN "MOVEN-interior" ELSE "MOVEN-interior-nonMOVE")
      [] o = OP_CLOSURE -> "CLOSURE-capture-list"
      [] o = OP_SETLIST -> "SETLIST-count-word"
      [] OTHER -> "beyond-last-group"

JumpViol(p, hd, t, nm) ==
    IF t < 0 \/ t >= NW(p) THEN {"jump-range:" \o nm}
    ELSE IF ~hd.h[t + 1] THEN {"jump-into:" \o InteriorKind(p, hd, t)}
    ELSE IF IsConsumer(p, t) THEN {"open-window:jump-onto-consumer:" \o OpName[Op(p, t) + 1]}
    ELSE {}

(* ---- the rules of one instruction (group) whose head is at pc ---------- *)
(* W: a register the instruction writes, R: one it only reads (see MaxWritten) *)
InstrViol(p, hd, pc) ==
    LET o == Op(p, pc)  a == ArgA(p, pc)  b == ArgB(p, pc)  c == ArgC(p, pc)
        bx == ArgBx(p, pc)
        n == NW(p)
        nm == IF o <= OpMax THEN OpName[o + 1] ELSE "?"
        W(r, w)  == IF r >= p.nreg THEN {"reg-range:" \o nm \o ":" \o w} ELSE {}
        \* a register that is only read: beyond the declared count it is reported here unless a
        \* writer (reported itself) reaches that high; inside the count it must be one that the
        \* function entry or some instruction can write at all - otherwise the operand field does
        \* not name a register of this function (e.g. a constant index that ended up in it)
        R(r, w)  == IF r <= hd.mw THEN {}
                    ELSE IF r >= p.nreg THEN {"reg-range:" \o nm \o ":" \o w}
                    ELSE {"reg-unwritten:" \o nm \o ":" \o w}
        K(k, w)  == IF k >= NK(p) THEN {"const-range:" \o nm \o ":" \o w} ELSE {}
        RK(x, w) == IF x >= 256 THEN K(x - 256, w) ELSE R(x, w)
        KS(k, w) == IF k >= NK(p) THEN {"const-range:" \o nm \o ":" \o w}
                    ELSE IF p.kt[k + 1] # 3 THEN {"string-key:" \o nm \o ":constant-not-a-string"}
                    ELSE {}
        RKS(x, w) == IF x >= 256 THEN KS(x - 256, w)
                     ELSE IF x >= p.nreg THEN R(x, w)
                     ELSE IF ~DefIsStringK(p, hd, pc, x)
                          THEN {"string-key:" \o nm \o ":register-not-loaded-from-a-string-constant"}
                          ELSE {}
        UpKey(w) == IF p.ndbgup # p.nup THEN "upval-range:NumUpvalues-wrapped(more-than-255-upvalues)"
                    ELSE "upval-range:" \o w
        U(u)     == IF u >= p.nup THEN {UpKey(nm)} ELSE {}
        J(t)     == JumpViol(p, hd, t, nm)
        \* a conditional skip is followed by the jump it guards (the compiler emits <test> JMP; a JMP
        \* to the next instruction may have been rewritten to NOP by patchCode)
        TJ       == IF pc + 1 <= n - 1 /\ hd.h[pc + 2] /\ Op(p, pc + 1) \in {OP_JMP, OP_NOP} THEN {}
                    ELSE {"test:" \o nm \o ":not-followed-by-JMP"}
        Open     == IF OpenOK(p, hd, pc) THEN {} ELSE {"open-window:" \o nm \o ":top-not-set-by-previous-instruction"}
    IN
    CASE o = OP_MOVE -> W(a, "A") \cup R(b, "B")
      [] o = OP_MOVEN ->
            W(a, "A") \cup R(b, "B") \cup
            (IF pc + c > n - 1 THEN {"group:MOVEN:overrun"} ELSE {}) \cup
            UNION {(IF Op(p, pc + i) # OP_MOVE THEN {"group:MOVEN:interior-word-not-MOVE"} ELSE {}) \cup
                   (IF ArgA(p, pc + i) >= p.nreg THEN {"reg-range:MOVEN:interior-A"} ELSE {}) \cup
                   (IF ArgB(p, pc + i) >= p.nreg /\ ArgB(p, pc + i) > hd.mw THEN {"reg-range:MOVEN:interior-B"} ELSE {})
                   : i \in 1..Min2(c, n - 1 - pc)}
      [] o = OP_LOADK -> W(a, "A") \cup K(bx, "Bx")
      [] o = OP_LOADBOOL -> W(a, "A") \cup (IF c # 0 THEN J(pc + 2) ELSE {})
      [] o = OP_LOADNIL -> W(a, "A") \cup W(b, "B")
      [] o = OP_GETUPVAL -> W(a, "A") \cup U(b)
      [] o = OP_GETGLOBAL -> W(a, "A") \cup KS(bx, "Bx")
      [] o = OP_GETTABLE -> W(a, "A") \cup R(b, "B") \cup RK(c, "C")
      [] o = OP_GETTABLEKS -> W(a, "A") \cup R(b, "B") \cup RKS(c, "C")
      [] o = OP_SETGLOBAL -> R(a, "A") \cup KS(bx, "Bx")
      [] o = OP_SETUPVAL -> R(a, "A") \cup U(b)
      [] o = OP_SETTABLE -> R(a, "A") \cup RK(b, "B") \cup RK(c, "C")
      [] o = OP_SETTABLEKS -> R(a, "A") \cup RKS(b, "B") \cup RK(c, "C")
      [] o = OP_NEWTABLE -> W(a, "A")
      [] o = OP_SELF -> W(a + 1, "A+1") \cup R(b, "B") \cup RKS(c, "C")
      [] o >= OP_ADD /\ o <= OP_POW -> W(a, "A") \cup RK(b, "B") \cup RK(c, "C")
      [] o = OP_UNM \/ o = OP_LEN -> W(a, "A") \cup RK(b, "B")
      [] o = OP_NOT -> W(a, "A") \cup R(b, "B")
      [] o = OP_CONCAT -> W(a, "A") \cup R(b, "B") \cup R(c, "C") \cup
                          (IF b > c THEN {"concat:B>C"} ELSE {})
      [] o = OP_JMP -> J(pc + 1 + bx - 131071)
      [] o \in {OP_EQ, OP_LT, OP_LE} -> RK(b, "B") \cup RK(c, "C") \cup J(pc + 2) \cup TJ
      [] o = OP_TEST -> R(a, "A") \cup J(pc + 2) \cup TJ
      [] o = OP_TESTSET -> W(a, "A") \cup R(b, "B") \cup J(pc + 2) \cup TJ
      [] o = OP_CALL ->
            R(a, "A") \cup (IF b >= 2 THEN R(a + b - 1, "args(A+B-1)") ELSE {}) \cup
            (IF c >= 2 THEN W(a + c - 2, "results(A+C-2)") ELSE {}) \cup
            (IF b = 0 THEN Open ELSE {})
      [] o = OP_TAILCALL ->
            R(a, "A") \cup (IF b >= 2 THEN R(a + b - 1, "args(A+B-1)") ELSE {}) \cup
            (IF b = 0 THEN Open ELSE {})
      [] o = OP_RETURN ->
            (IF b >= 2 THEN R(a, "A") \cup R(a + b - 2, "values(A+B-2)") ELSE {}) \cup
            \* no value: R(A) is not accessed, but A is a register field and must still name a register
            \* of the frame (PUC luaG_checkcode: checkreg(pt, a) for every instruction)
            (IF b = 1 /\ a >= p.nreg THEN {"reg-range:RETURN:A(no-values)"} ELSE {}) \cup
            (IF b = 0 THEN Open ELSE {})
      [] o = OP_FORLOOP -> W(a + 3, "loop-variable(A+3)") \cup J(pc + 1 + bx - 131071)
      [] o = OP_FORPREP -> R(a + 2, "A+2") \cup J(pc + 1 + bx - 131071)
      [] o = OP_TFORLOOP ->
            R(a + 2, "A+2") \cup W(a + 2 + c, "results(A+2+C)") \cup
            \* the handler copies generator, state and control into R(A+3)..R(A+5) before the call
            \* (Lua 5.1 reserves these three slots: luaK_checkstack(fs, 3) in forlist)
            (IF a + 2 + c < p.nreg THEN W(a + 5, "call-window(A+5)") ELSE {}) \cup
            (IF c = 0 THEN {"tforloop:no-result-register"} ELSE {}) \cup
            (IF pc + 1 > n - 1 \/ ~hd.h[pc + 2] \/ Op(p, pc + 1) # OP_JMP
             THEN {"group:TFORLOOP:not-followed-by-JMP"} ELSE {}) \cup
            J(pc + 2)
      [] o = OP_SETLIST ->
            R(a, "A") \cup (IF b >= 1 THEN R(a + b, "values(A+B)") ELSE Open) \cup
            (IF c = 0
             THEN (IF pc + 1 > n - 1 THEN {"group:SETLIST:overrun"}
                   ELSE IF Hi(p, pc + 1) = 0 /\ Lo(p, pc + 1) = 0
                        THEN {"setlist-ext:count-word-zero"}
                   \* batch 2^26 would need 3.3e9 fields: such a word is not a batch number
                   ELSE IF Hi(p, pc + 1) >= 1024
                        THEN {"setlist-ext:count-word-has-opcode-bits"} ELSE {})
             ELSE {})
      [] o = OP_CLOSE -> {}
      [] o = OP_CLOSURE ->
            W(a, "A") \cup
            (IF bx >= Len(p.pnup) THEN {"proto-range:CLOSURE"}
             ELSE LET k == p.pnup[bx + 1] IN
                  (IF pc + k > n - 1 THEN {"group:CLOSURE:overrun"} ELSE {}) \cup
                  UNION {LET oo == Op(p, pc + i)  bb == ArgB(p, pc + i) IN
                         CASE oo = OP_MOVE -> (IF bb >= p.nreg /\ bb > hd.mw THEN {"reg-range:CLOSURE:capture-MOVE-B"} ELSE {})
                           [] oo = OP_GETUPVAL -> (IF bb >= p.nup THEN {UpKey("CLOSURE:capture-GETUPVAL-B")} ELSE {})
                           [] OTHER -> {"group:CLOSURE:capture-word-not-MOVE-or-GETUPVAL"}
                         : i \in 1..Min2(k, n - 1 - pc)})
      [] o = OP_VARARG ->
            (IF ~IsVarArgFn(p) THEN {"vararg:in-non-vararg-function"} ELSE {}) \cup
            (IF b >= 2 THEN W(a, "A") \cup W(a + b - 2, "values(A+B-2)") ELSE {}) \cup
            (IF b = 0 THEN W(a, "open-window-base(A)") ELSE {})
      [] o = OP_NOP -> {}
      [] OTHER -> {"opcode:invalid"}

(* ---- locals in scope --------------------------------------------------- *)
(* Local variables live in the lowest registers, one each (temporaries sit   *)
(* above them): k locals in scope at some pc need R(0)..R(k-1), so k must    *)
(* not exceed the declared register count - whatever the (possibly wrapped)  *)
(* operand fields say.  A local is in scope at pc iff StartPc <= pc < EndPc   *)
(* (LFunction.LocalName: the n-th such local is the one in R(n-1)).  The      *)
(* overlap of scopes is largest at a scope start.                            *)
LiveAt(p, pc) == Cardinality({j \in 1..Len(p.ls) : p.ls[j] <= pc /\ pc < p.le[j]})
MaxLiveLocals(p) ==
    LET starts == {p.ls[i] : i \in {k \in 1..Len(p.ls) : p.ls[k] < p.le[k]}}
        counts == {LiveAt(p, s) : s \in starts} \cup {0}
    IN CHOOSE m \in counts : \A x \in counts : x <= m

(* ---- the rules of the prototype as a whole ----------------------------- *)
ProtoViol(p, hd) ==
    LET n == NW(p) IN
    (IF p.nreg > FrameLimit THEN {"frame:NumUsedRegisters>limit"} ELSE {}) \cup
    (IF p.np > p.nreg THEN {"frame:NumParameters>NumUsedRegisters"}
     ELSE IF HasArgSlot(p) /\ p.np >= p.nreg
          THEN {"frame:arg-slot(R(NumParameters))>=NumUsedRegisters"} ELSE {}) \cup
    (IF n = 0 THEN {"code:empty"}
     ELSE (IF hd.nxt # n THEN {"group:last-group-overruns-code"} ELSE {}) \cup
          (IF ~(hd.h[n] /\ Op(p, n - 1) = OP_RETURN) THEN {"code:last-instruction-not-RETURN"} ELSE {})) \cup
    (IF MaxLiveLocals(p) > p.nreg THEN {"locals:more-live-locals-than-NumUsedRegisters"} ELSE {}) \cup
    (IF p.nline # n THEN {"line-table:length"} ELSE {}) \cup
    (IF Len(p.sk) # NK(p) \/ Len(p.ks) # NK(p) THEN {"string-constants:length"}
     ELSE IF \E i \in 1..NK(p) : p.sk[i] # p.ks[i] THEN {"string-constants:content"} ELSE {}) \cup
    (IF \E i \in 1..NK(p) : p.kt[i] \notin {0, 1, 2, 3} THEN {"const-type:not-a-scalar"} ELSE {})

(* all violated rules, each with the first pc (-1: the prototype as a whole) *)
ViolPairs(p, hd) ==
    {<<r, -1>> : r \in ProtoViol(p, hd)} \cup
    UNION {{<<r, pc>> : r \in InstrViol(p, hd, pc)} : pc \in {q \in 0..NW(p) - 1 : hd.h[q + 1]}}

Viol(p, hd) ==
    LET ps == ViolPairs(p, hd)
        rules == {x[1] : x \in ps}
    IN {<<r, CHOOSE m \in {x[2] : x \in {y \in ps : y[1] = r}} :
                 \A m2 \in {x[2] : x \in {y \in ps : y[1] = r}} : m <= m2>> : r \in rules}

WF(p) == ViolPairs(p, Frame(p)) = {}
=============================================================================
