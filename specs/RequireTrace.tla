---------------------------- MODULE RequireTrace ----------------------------
(***************************************************************************)
(* Trace validation for property C20.  Each line of File is one history    *)
(* executed on the real module system:                                     *)
(*   [id, names, parts, nb, path, h (operations), obs (what the real code  *)
(*    showed after                                                         *)
(*    every operation: result, loader log, package.loaded, globals,        *)
(*    registered functions)]                                               *)
(* The reference semantics of module Require is run over h and every       *)
(* observation must equal the one it defines (the semantics of require is  *)
(* deterministic; error message texts were reduced to their class by the   *)
(* harness).  One TLC run validates all histories (Init picks the index);  *)
(* each history ends in exactly one VERDICT line naming the first          *)
(* operation and field that differ, with the expected observation.         *)
(***************************************************************************)
EXTENDS Require, Json

CONSTANT File
Data == ndJsonDeserialize(File)

VARIABLE idx

Init == idx \in 1..Len(Data)
Spec == Init /\ [][UNCHANGED idx]_idx

FieldOf(o, f) ==
    CASE f = "log" -> o.log
      [] f = "res" -> o.res
      [] f = "ld" -> o.ld
      [] f = "gl" -> o.gl
      [] f = "fl" -> o.fl
      [] f = "fg" -> o.fg

FirstDiff(exp, got) ==
    LET bad == {i \in 1..Len(ObsFields) : FieldOf(exp, ObsFields[i]) # FieldOf(got, ObsFields[i])}
    IN IF bad = {} THEN "" ELSE ObsFields[CHOOSE i \in bad : \A j \in bad : i <= j]

NoObs == [res |-> <<>>, log |-> <<>>, ld |-> <<>>, gl |-> <<>>, fl |-> <<>>, fg |-> <<>>]

RECURSIVE Walk(_, _, _)
Walk(rec, st, pos) ==
    IF pos > Len(rec.h) THEN [ok |-> TRUE, pos |-> 0, field |-> "", exp |-> NoObs]
    ELSE IF ~OpWellFormed(st, rec.h[pos]) THEN [ok |-> FALSE, pos |-> pos, field |-> "illformed", exp |-> NoObs]
    ELSE LET r == Exec(st, rec.h[pos], pos)
             exp == Obs(r)
             f == FirstDiff(exp, rec.obs[pos])
         IN IF f # "" THEN [ok |-> FALSE, pos |-> pos, field |-> f, exp |-> exp]
            ELSE Walk(rec, r.st, pos + 1)

Judge(rec) ==
    IF Len(rec.obs) # Len(rec.h) THEN [ok |-> FALSE, pos |-> 0, field |-> "length", exp |-> NoObs]
    ELSE IF ~NamesWellFormed(rec.names, rec.parts) THEN [ok |-> FALSE, pos |-> 0, field |-> "illformed", exp |-> NoObs]
    ELSE Walk(rec, InitState(rec.names, rec.parts, rec.nb, rec.path, rec.skip), 1)

Verdict ==
    LET v == Judge(Data[idx])
    IN PrintT("VERDICT " \o ToJson([id |-> Data[idx].id, ok |-> v.ok, n |-> Len(Data[idx].h),
                                    pos |-> v.pos, field |-> v.field, exp |-> v.exp]))
=============================================================================
