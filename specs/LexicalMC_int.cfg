SPECIFICATION Spec
CONSTANTS
  Mode = "int"
  Alpha <- NoGrid
  IntGrid <- MC_IntGrid
  MaxLen = 0
INVARIANTS IntLaw
CHECK_DEADLOCK FALSE
