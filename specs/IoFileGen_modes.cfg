SPECIFICATION Spec
CONSTANTS
  Sizes <- MC_ModesSizes
  Lays <- MC_ModesLays
  Modes = {"r", "rb", "w", "wb", "a", "ab", "r+", "rb+", "w+", "wb+", "a+", "ab+", "r+b", "w+b", "a+b", "tmp", "out", "in"}
  RCounts = {2}
  WCounts = {2}
  SOffs = {0}
  VBufs = {"no"}
  MFmts <- MC_None
  VSizes = {0}
  Extra <- MC_AllExtra
  Naive = FALSE
  Gen = TRUE
VIEW genview
ACTION_CONSTRAINT GenPrint
CHECK_DEADLOCK FALSE
