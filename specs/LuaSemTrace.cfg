SPECIFICATION Spec
INVARIANTS Verdict CoInv
CHECK_DEADLOCK FALSE
