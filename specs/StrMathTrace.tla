---------------------------- MODULE StrMathTrace ----------------------------
(***************************************************************************)
(* Trace validation for property C15.  Each line of File is one group of   *)
(* library calls executed on the real interpreter:                         *)
(*   [id, cs: <<  <<f, args, obs>>, ... >>]                                *)
(* obs is what the real function returned (<<"ok", results>> / <<"err">>). *)
(* Every call is judged by StrMathEval!Judge; one VERDICT line per group   *)
(* lists the rejected calls together with the specification's expectation. *)
(* The (expensive) judgement is made in the successor state so that TLC's  *)
(* workers share the groups.                                               *)
(***************************************************************************)
EXTENDS StrMathEval, TLC, Json

CONSTANT File
Data == ndJsonDeserialize(File)

VARIABLES idx, done
vars == <<idx, done>>

Init == idx \in 1..Len(Data) /\ done = FALSE
Next == ~done /\ done' = TRUE /\ idx' = idx
Spec == Init /\ [][Next]_vars

Cs == Data[idx].cs
J(k) == Judge(Cs[k][1], Cs[k][2], Cs[k][3])

Verdict ==
    done => PrintT("VERDICT " \o ToJson(
        LET js == [k \in 1..Len(Cs) |-> J(k)]
            bad == SelectSeq([k \in 1..Len(Cs) |-> k], LAMBDA k : js[k] = "bad")
            skip == SelectSeq([k \in 1..Len(Cs) |-> k], LAMBDA k : js[k] = "skip")
        IN [id |-> Data[idx].id, n |-> Len(Cs),
            bad |-> [i \in 1..Len(bad) |-> <<bad[i], Expect(Cs[bad[i]][1], Cs[bad[i]][2])>>],
            skip |-> skip]))
=============================================================================
