--------------------------- MODULE CallStackTrace ---------------------------
(***************************************************************************)
(* Trace validation for the call-frame stacks (property C12).  Each line   *)
(* of File is one history executed on a real stack (lua.VerifNewFixedStack *)
(* or lua.VerifNewAutoStack): the operations, the answer of every Push     *)
(* (ok / panic), the frame every Pop returned and, after each operation,   *)
(* what Sp/IsEmpty/IsFull/Last/At(0..Sp-1) reported.  The abstract         *)
(* sequence of module CallStack is advanced by each event; every answer    *)
(* must be admissible.  One VERDICT line per history.                      *)
(***************************************************************************)
EXTENDS Integers, Sequences, TLC, Json

CONSTANT File
Data == ndJsonDeserialize(File)

INSTANCE CallStack

VARIABLES idx, pos, seq, bad
vars == <<idx, pos, seq, bad>>

Init ==
    /\ idx \in 1..Len(Data)
    /\ pos = 1
    /\ seq = <<>>
    /\ bad = <<>>

Rec == Data[idx]
Ev == Rec.ev
Hard == HardCap(Rec.impl, Rec.size)

(* abstract post-state and admissibility of event e (tag = its position) *)
Post(e) ==
    CASE e.op = "push" ->
            (IF e.r = "ok"
             THEN (IF PushMaySucceed(seq, Hard) THEN [ok |-> TRUE, s |-> Push(seq, pos), why |-> ""]
                   ELSE [ok |-> FALSE, s |-> seq, why |-> "push-succeeded-at-hard-capacity"])
             ELSE (IF PushMayOverflow(seq, Rec.size) THEN [ok |-> TRUE, s |-> seq, why |-> ""]
                   ELSE [ok |-> FALSE, s |-> seq, why |-> "push-overflow-below-configured-size"]))
      [] e.op = "pop" ->
            (IF ~PopPre(seq) THEN [ok |-> FALSE, s |-> seq, why |-> "harness:pop-on-empty"]
             ELSE IF e.pr = PopResult(seq) THEN [ok |-> TRUE, s |-> Pop(seq), why |-> ""]
             ELSE [ok |-> FALSE, s |-> seq, why |-> "pop-result"])
      [] e.op = "setsp" ->
            (IF ~SetSpPre(seq, e.n) THEN [ok |-> FALSE, s |-> seq, why |-> "harness:setsp-above-sp"]
             ELSE [ok |-> TRUE, s |-> SetSp(seq, e.n), why |-> ""])
      [] OTHER -> [ok |-> FALSE, s |-> seq, why |-> "harness:unknown-op"]

Step ==
    /\ bad = <<>>
    /\ pos <= Len(Ev)
    /\ idx' = idx
    /\ LET e == Ev[pos]
           p == Post(e)
       IN IF ~p.ok
          THEN /\ bad' = <<pos, e.op, p.why>>
               /\ UNCHANGED <<seq, pos>>
          ELSE IF "o" \in DOMAIN e /\ ~ObsOK(p.s, Rec.size, e.o)
          THEN /\ bad' = <<pos, e.op, ObsWhy(p.s, Rec.size, e.o)>>
               /\ UNCHANGED <<seq, pos>>
          ELSE /\ seq' = p.s
               /\ pos' = pos + 1
               /\ bad' = <<>>

Spec == Init /\ [][Step]_vars

Terminal == bad # <<>> \/ pos > Len(Ev)

Verdict ==
    Terminal => PrintT("VERDICT " \o ToJson(
        [id |-> Rec.id, ok |-> bad = <<>>, n |-> Len(Ev),
         bad |-> IF bad = <<>> THEN <<0, "", "">> ELSE bad]))
=============================================================================
