SPECIFICATION Spec
CONSTANTS
  Gen = FALSE
VIEW genview
INVARIANTS TypeOK CurListAgrees CallersUntouched NoHoles InsertAdmitted ListLaws CallLaws
PROPERTIES ReadAgrees
CHECK_DEADLOCK FALSE
