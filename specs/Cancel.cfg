SPECIFICATION Spec
CONSTANT MaxDepth = 4
INVARIANTS TypeOK NoInstructionAfterCancel BoundedDispatch ExitsWhenDone
PROPERTY Stops
CHECK_DEADLOCK FALSE
