----------------------------- MODULE StrMathMC ------------------------------
(***************************************************************************)
(* Model checking of the C15 specification itself: laws that make StrLib / *)
(* MathLib a credible oracle, checked by TLC on every case of a small      *)
(* scope.  Each law relates an operator to an INDEPENDENT characterisation *)
(* (declarative position sets, a transcription of lmemfind, digit values   *)
(* read back, recomposition of modf / frexp / fmod, ...).                  *)
(* A case is chosen in Init; the laws are evaluated on the successor state *)
(* so that TLC's workers share the cases.                                  *)
(***************************************************************************)
EXTENDS StrMathEval, TLC

CONSTANTS Scopes,                       \* subset of {"str", "find", "fmt", "num"}: the law families
          Win,
          AlphaStr, LenStr,             \* "str": strings of length 0..LenStr over AlphaStr
          AlphaFind, LenFind, PatFind,  \* "find": subjects and patterns
          GridM, GridNeg, GridHi        \* "num": m * 2^e, |m| <= GridM, e in -GridNeg..GridHi

Strs(A, n) == UNION {[1..k -> A] : k \in 0..n}
W(l) == (-l - Win)..(l + Win)
Grid == {Tok([m |-> m, e |-> e]) : m \in (-GridM)..GridM, e \in (-GridNeg)..GridHi}

FmtFlags == SUBSET {45, 48, 43, 32, 35}
FmtWidths == {0, 1, 2, 4, 7}
FmtPrecs == {-1, 0, 1, 3}
FmtVals == {0, 1, 7, 8, 9, 10, 15, 16, 99, 100, 255, 256, 4095} \cup {-1, -9, -10, -255}

SzVals == {PosZero, NegZero, <<"n", 1>>, <<"n", -1>>, <<"n", 2>>, <<"n", -2>>, <<"n", 3>>, <<"n", -3>>, <<"n", -6>>, <<"n", 4>>,
           <<"q", 1, -1>>, <<"q", -1, -1>>, <<"q", 3, -1>>, <<"q", -3, -2>>, Inf(1), Inf(-1), NaN}
FltVals == {<<0, 0>>, <<1, 0>>, <<100, 0>>, <<5, -1>>, <<3, -1>>, <<25, -1>>, <<1999, -1>>, <<1, -4>>, <<7, -3>>, <<1, -7>>,
            <<19, -1>>, <<1, -14>>}                               \* <<mag, e>>: mag * 2^e
WideToks == {Tok([m |-> m, e |-> e]) : m \in {1, 3, -5, 1048575}, e \in {0, 600, 1003, 1023}}
            \cup {Tok([m |-> m, e |-> -e]) : m \in {1, 3, -5, 1048575}, e \in {600, 1022, 1050, 1073, 1074}}
WideKs == {0, 1, 53, 1030, 1074, 2100} \cup {-1, -53, -1030, -1074, -1075, -2100}

CasesOf(sc) ==
    CASE sc = "str" -> {<<s, i, j>> : s \in Strs(AlphaStr, LenStr), i \in W(LenStr), j \in W(LenStr)}
      [] sc = "find" -> {<<s, p, i>> : s \in Strs(AlphaFind, LenFind), p \in Strs(AlphaFind, PatFind), i \in W(LenFind)}
      [] sc = "fmt" -> {<<cv, fl, w, pr, v>> : cv \in {100, 120, 88, 111}, fl \in FmtFlags, w \in FmtWidths,
                                                pr \in FmtPrecs, v \in FmtVals}
      [] sc = "num" -> Grid \X Grid
      [] sc = "flt" -> {<<cv, fl, w, pr, neg, v>> : cv \in {102, 101, 103}, fl \in FmtFlags, w \in {0, 9},
                                                     pr \in {-1, 0, 2}, neg \in BOOLEAN, v \in FltVals}
      [] sc = "sz" -> SzVals \X SzVals
      [] sc = "wide" -> {x \in WideToks : Representable(x)} \X WideKs \X WideKs

VARIABLES tc, done                      \* tc = <<scope, case>>
vars == <<tc, done>>
Init == \E sc \in Scopes : \E x \in CasesOf(sc) : tc = <<sc, x>> /\ done = FALSE
Next == ~done /\ done' = TRUE /\ tc' = tc
Scope == tc[1]
c == tc[2]
Spec == Init /\ [][Next]_vars

-----------------------------------------------------------------------------
(* string laws, case <<s, i, j>> *)

(* the manual's reading of an index: negative = from the end *)
AbsIdx(x, l) == IF x >= 0 THEN x ELSE l + x + 1
(* the elements of s at an interval of positions, in order *)
RECURSIVE Pick(_, _, _)
Pick(s, lo, hi) == IF lo > hi THEN <<>> ELSE <<s[lo]>> \o Pick(s, lo + 1, hi)
Positions(s, i, j) == {k \in 1..Len(s) : AbsIdx(i, Len(s)) <= k /\ k <= AbsIdx(j, Len(s))}
PMin(P) == CHOOSE k \in P : \A d \in P : k <= d
PMax(P) == CHOOSE k \in P : \A d \in P : k >= d

SubIsPositions ==          \* sub = the characters at the positions the manual describes; no clamping needed
    LET s == c[1]  P == Positions(s, c[2], c[3])
    IN Sub(s, c[2], c[3]) = IF P = {} THEN <<>> ELSE Pick(s, PMin(P), PMax(P))
SubConcat ==               \* s:sub(i,j) .. s:sub(j+1,k) = s:sub(i,k) for positive i <= j+1 <= k+1
    LET s == c[1]  i == c[2]  j == c[3]
    IN (i >= 1 /\ j >= 0 /\ i <= j + 1) =>
          \A k \in j..(Len(s) + Win) : Sub(s, i, j) \o Sub(s, j + 1, k) = Sub(s, i, k)
SubWhole == Sub(c[1], 1, -1) = c[1] /\ Sub(c[1], 1, Len(c[1])) = c[1]
ByteIsSub ==
    /\ ByteRange(c[1], c[2], <<c[3]>>) = Sub(c[1], c[2], c[3])
    /\ ByteRange(c[1], c[2], <<>>) = Sub(c[1], c[2], c[2])
    /\ Len(ByteRange(c[1], c[2], <<>>)) <= 1
RevLaw ==
    LET s == c[1] IN RevStr(RevStr(s)) = s /\ Len(RevStr(s)) = Len(s)
                     /\ \A k \in 1..Len(s) : RevStr(s)[k] = s[Len(s) + 1 - k]
CaseLaw ==
    LET s == c[1] IN
    /\ Len(Upper(s)) = Len(s) /\ Len(Lower(s)) = Len(s)
    /\ Upper(Upper(s)) = Upper(s) /\ Lower(Lower(s)) = Lower(s)
    /\ Lower(Upper(s)) = Lower(s) /\ Upper(Lower(s)) = Upper(s)
    /\ \A k \in 1..Len(s) : (s[k] \notin 97..122 => Upper(s)[k] = s[k]) /\ (s[k] \in 97..122 => Upper(s)[k] = s[k] - 32)
    /\ \A k \in 1..Len(s) : (s[k] \notin 65..90 => Lower(s)[k] = s[k])
RepLaw ==
    LET s == c[1]  n == c[2] IN
    /\ Len(Rep(s, n)) = (IF n > 0 THEN n * Len(s) ELSE 0)
    /\ (n >= 0 => Rep(s, n + 1) = Rep(s, n) \o s)
CharByteLaw == CharOK(c[1]) /\ ByteRange(c[1], 1, <<-1>>) = c[1]
StrLaws == (Scope = "str" /\ done) =>
    /\ SubIsPositions /\ SubConcat /\ SubWhole /\ ByteIsSub /\ RevLaw /\ CaseLaw /\ RepLaw /\ CharByteLaw

-----------------------------------------------------------------------------
(* find laws, case <<s, p, init>>: transcription of lstrlib.c lmemfind     *)
(* (scan for the first byte, compare the rest) against the declarative     *)
(* "least offset >= init where p occurs"                                   *)
RECURSIVE MemFind(_, _, _)
MemFind(s, p, k) ==                        \* k = current offset; -1 = not found
    IF Len(p) = 0 THEN k
    ELSE IF Len(p) > Len(s) - k THEN -1
    ELSE IF s[k + 1] = p[1] /\ SubSeq(s, k + 2, k + Len(p)) = Tail(p) THEN k
    ELSE MemFind(s, p, k + 1)
FindLaws == (Scope = "find" /\ done) =>
    LET s == c[1]  p == c[2]  r == FindPlain(s, p, c[3])
        k == MemFind(s, p, FindInit(Len(s), c[3]))
    IN /\ (k = -1) = (r = <<>>)
       /\ (k # -1 => r = <<k + 1, k + Len(p)>>)
       /\ (r # <<>> => Sub(s, r[1], r[2]) = p \/ (p = <<>> /\ r[2] = r[1] - 1))
       /\ (r # <<>> => r[1] >= 1 /\ r[1] >= SMin(AbsIdx(c[3], Len(s)), Len(s) + 1) /\ r[2] <= Len(s))
       /\ FindInit(Len(s), c[3]) \in 0..Len(s)

-----------------------------------------------------------------------------
(* format laws, case <<conv, flags, width, prec, v>> *)
Strip(t) == SelectSeq(t, LAMBDA b : b # 32)
DigitVal(b) == IF b \in 48..57 THEN b - 48 ELSE IF b \in 97..102 THEN b - 87 ELSE b - 55
RECURSIVE ValOf(_, _)
ValOf(ds, base) == IF ds = <<>> THEN 0 ELSE base * ValOf(SubSeq(ds, 1, Len(ds) - 1), base) + DigitVal(ds[Len(ds)])
WidthDigits(w) == IF w = 0 THEN <<>> ELSE DigitsOf(w, 10, FALSE)
PrecDigits(pr) == IF pr < 0 THEN <<>> ELSE <<46>> \o DigitsOf(pr, 10, FALSE)
IsAllDigits(t, base) == \A k \in 1..Len(t) : (t[k] \in 48..57 \/ t[k] \in 97..102 \/ t[k] \in 65..70) /\ DigitVal(t[k]) < base

FmtLaws == (Scope = "fmt" /\ done) =>
    LET conv == c[1]  fl == c[2]  w == c[3]  pr == c[4]  v == c[5]
        signed == conv = 100
        base == IF conv = 100 THEN 10 ELSE IF conv = 111 THEN 8 ELSE 16
        applicable == IF signed THEN 35 \notin fl ELSE v >= 0
        full == IF signed THEN FmtSigned(fl, w, pr, v) ELSE FmtUnsigned(fl, w, pr, v, conv)
        bare == IF signed THEN FmtSigned(fl, 0, pr, v) ELSE FmtUnsigned(fl, 0, pr, v, conv)
        text == Directive(fl, WidthDigits(w), PrecDigits(pr), conv)
        d == ScanDirective(text, 2)
        (* the digits: drop sign / prefix *)
        nosign == IF signed /\ Len(bare) > 0 /\ bare[1] \in {45, 43, 32} THEN Tail(bare) ELSE bare
        noprefix == IF ~signed /\ conv # 111 /\ 35 \in fl /\ v # 0 THEN SubSeq(nosign, 3, Len(nosign)) ELSE nosign
    IN applicable =>
       (* the directive text scans back to its parts *)
       /\ ~d.bad /\ d.flags = fl /\ d.width = w /\ d.prec = pr /\ d.conv = conv /\ d.next = Len(text) + 1
       (* through the front door: format("%..", v) is this rendering *)
       /\ Eval("format", <<S(text), N(v)>>) = VOk(<<S(full)>>)
       (* field width: never truncates, pads exactly to the width *)
       /\ Len(full) = SMax(w, Len(bare))
       /\ (45 \in fl => full = bare \o Spaces(Len(full) - Len(bare)))
       /\ ((45 \notin fl /\ (48 \notin fl \/ pr >= 0)) => full = Spaces(Len(full) - Len(bare)) \o bare)
       /\ ((45 \notin fl /\ 48 \in fl /\ pr < 0) => \A k \in 1..Len(full) : full[k] # 32 \/ (k = 1 /\ signed /\ 32 \in fl))
       (* the digits denote the value; precision = minimum number of digits *)
       /\ IsAllDigits(noprefix, base)
       /\ ValOf(noprefix, base) = Abs(v)
       /\ Len(noprefix) >= pr
       /\ (Len(noprefix) > SMax(pr, 1) => noprefix[1] # 48 \/ (conv = 111 /\ 35 \in fl))
       /\ (noprefix = <<>> <=> (v = 0 /\ pr = 0 /\ ~(conv = 111 /\ 35 \in fl)))
       (* sign rules *)
       /\ (signed /\ v < 0 => bare[1] = 45)
       /\ (signed /\ v >= 0 /\ 43 \in fl => bare[1] = 43)
       /\ (signed /\ v >= 0 /\ 43 \notin fl /\ 32 \in fl => bare[1] = 32)
       /\ (signed /\ v >= 0 /\ 43 \notin fl /\ 32 \notin fl => bare = nosign)
       /\ (conv = 111 /\ 35 \in fl => bare[1] = 48)

-----------------------------------------------------------------------------
(* number laws, case <<x, y>> of grid tokens *)
V(t) == D(t)
One == DInt(1)
Zero == DInt(0)
DAbs(a) == [m |-> Abs(a.m), e |-> a.e]
DLe(a, b) == DLess(a, b) \/ DEq(a, b)
Fin(r) == D(r)

NumLaws == (Scope = "num" /\ done) =>
    LET x == c[1]  y == c[2]  dx == V(x)  dy == V(y)
        fl == V(MFloor(x)[1])  ce == V(MCeil(x)[1])
        mf == MModf(x)  fr == MFrexp(x)[2]
        sq == MSqrt(x)
        P(a, b) == MPow(a, b)
    IN
    (* token normal form is canonical *)
    /\ (DEq(dx, dy) <=> x = y) /\ Tok(dx) = x
    (* floor / ceil / abs *)
    /\ DIsInt(fl) /\ DLe(fl, dx) /\ DLess(dx, DAdd(fl, One))
    /\ DIsInt(ce) /\ DLe(dx, ce) /\ DLess(DSub(ce, One), dx)
    /\ MCeil(x)[1] = MNeg(MFloor(MNeg(x))[1])
    (* signed zeros: a zero result carries the sign these functions define *)
    /\ (IsZeroTok(MFloor(x)[1]) => ~SignNeg(MFloor(x)[1]))                   \* floor of [0, 1) is +0
    /\ (IsZeroTok(MCeil(x)[1]) => SignNeg(MCeil(x)[1]) = SignNeg(x))
    /\ ~SignNeg(MAbs(x)[1])
    /\ SignNeg(mf[1]) = SignNeg(x) /\ SignNeg(mf[2]) = SignNeg(x)           \* both parts of modf
    /\ (dy.m # 0 => SignNeg(MFmod(x, y)[1]) = SignNeg(x))
    /\ MFmod(x, y) = MFmod(x, MNeg(y))
    /\ (dy.m # 0 => MFmod(MNeg(x), y) = <<MNeg(MFmod(x, y)[1])>>)
    /\ ~DLess(V(MAbs(x)[1]), Zero) /\ (DEq(V(MAbs(x)[1]), dx) \/ DEq(V(MAbs(x)[1]), DNeg(dx)))
    (* modf: parts recompose exactly, fraction in (-1, 1) with the sign of x *)
    /\ DEq(DAdd(V(mf[1]), V(mf[2])), dx) /\ DIsInt(V(mf[1]))
    /\ DLess(DAbs(V(mf[2])), One) /\ Sgn(V(mf[2]).m) \in {0, Sgn(dx.m)} /\ Sgn(V(mf[1]).m) \in {0, Sgn(dx.m)}
    (* frexp: x = f * 2^ex, 1/2 <= |f| < 1; ldexp inverts it *)
    /\ MFrexp(x)[1] = "ok"
    /\ (dx.m = 0 => fr = <<N(0), N(0)>>)
    /\ (dx.m # 0 => /\ DEq([m |-> V(fr[1]).m, e |-> V(fr[1]).e + fr[2][2]], dx)
                    /\ DLe([m |-> 1, e |-> -1], DAbs(V(fr[1]))) /\ DLess(DAbs(V(fr[1])), One))
    /\ MLdexp(fr[1], fr[2][2]) = <<x>>
    (* fmod: sign of the dividend, |r| < |y|, x - r an integral multiple of y *)
    /\ (dy.m # 0 =>
          LET r == V(MFmod(x, y)[1])
              e0 == E0(DSub(dx, r), dy)
          IN /\ Sgn(r.m) \in {0, Sgn(dx.m)}
             /\ DLess(DAbs(r), DAbs(dy))
             /\ Al(DSub(dx, r), e0) % Abs(Al(dy, e0)) = 0
             /\ (DLess(DAbs(dx), DAbs(dy)) => DEq(r, dx)))
    /\ (dy.m = 0 => MFmod(x, y) = <<NaN>>)
    (* max / min *)
    /\ MMax(<<x, y>>)[1] \in {x, y} /\ ~TLess(MMax(<<x, y>>)[1], x) /\ ~TLess(MMax(<<x, y>>)[1], y)
    /\ MMin(<<x, y>>)[1] \in {x, y} /\ ~TLess(x, MMin(<<x, y>>)[1]) /\ ~TLess(y, MMin(<<x, y>>)[1])
    /\ MMax(<<x, y, x>>) = MMax(<<y, x>>) /\ MMin(<<y, x, y>>) = MMin(<<x, y>>)
    (* pow: x^0 = 1, x^1 = x, x^2 = x*x, x^(k+1) = x^k * x, x^-1 * x = 1, sqrt(x)^2 = x, x^(1/2) = sqrt x *)
    /\ P(x, N(0)) = Def(<<N(1)>>) /\ P(x, N(1)) = Def(<<x>>) /\ P(x, N(2)) = Def(<<Tok(DMul(dx, dx))>>)
    /\ \A k \in 1..3 : P(x, N(k + 1)) = Def(<<Tok(DMul(V(P(x, N(k))[2][1]), dx))>>)
    /\ (dx.m = 0 <=> P(x, N(-1)) = Def(<<Inf(1)>>))
    /\ ((dx.m # 0 /\ P(x, N(-1))[1] = "ok") => DEq(DMul(V(P(x, N(-1))[2][1]), dx), One))
    /\ (dx.m < 0 <=> sq = Def(<<NaN>>))
    /\ ((dx.m >= 0 /\ sq[1] = "ok") => DEq(DMul(V(sq[2][1]), V(sq[2][1])), dx) /\ ~DLess(V(sq[2][1]), Zero))
    /\ (dx.m >= 0 => P(x, <<"q", 1, -1>>) = sq)
    /\ (dx.m < 0 => P(x, <<"q", 1, -1>>) = Def(<<NaN>>))
    /\ ((dx.m > 0 /\ sq[1] = "ok") => P(x, <<"q", 3, -1>>) = Def(<<Tok(DMul(dx, V(sq[2][1])))>>))
    (* pow(x, y) on the grid agrees with repeated multiplication for small integral y >= 0 *)
    /\ ((Tok(dy)[1] = "n" /\ Tok(dy)[2] >= 0 /\ Tok(dy)[2] <= 4) =>
          LET RECURSIVE Times(_)
              Times(k) == IF k = 0 THEN One ELSE DMul(Times(k - 1), dx)
          IN P(x, y) = Def(<<Tok(Times(Tok(dy)[2]))>>))
-----------------------------------------------------------------------------
(* floating conversions, case <<conv, flags, width, prec, neg, <<mag, e>>>>:  *)
(* the printed text, read back as a decimal number, is the correctly        *)
(* rounded value (|x - printed| <= 1/2 unit of the last printed digit, ties  *)
(* to even) in the style the conversion prescribes                          *)
IndexOf(t, bs) == IF \E k \in 1..Len(t) : t[k] \in bs
                  THEN CHOOSE k \in 1..Len(t) : t[k] \in bs /\ \A i \in 1..(k - 1) : t[i] \notin bs
                  ELSE 0
(* [n, t]: printed value = n * 10^t, n built from all mantissa digits *)
ParseDec(body) ==
    LET ep == IndexOf(body, {101, 69})
        mant == IF ep = 0 THEN body ELSE SubSeq(body, 1, ep - 1)
        pp == IndexOf(mant, {46})
        digs == SelectSeq(mant, LAMBDA b : b # 46)
        fd == IF pp = 0 THEN 0 ELSE Len(mant) - pp
        ex == IF ep = 0 THEN 0
              ELSE (IF body[ep + 1] = 45 THEN -1 ELSE 1) * DecVal(SubSeq(body, ep + 2, Len(body)))
    IN [n |-> DecVal(digs), t |-> ex - fd, nd |-> Len(digs), lead |-> digs[1] - 48, ex |-> ex, expdigits |-> IF ep = 0 THEN 0 ELSE Len(body) - ep - 1]
(* 2 * |mag * 2^e - n * 10^t| compared with 10^t, all scaled to integers (e <= 0) *)
ErrTimes2(mag, e, n, t) ==
    IF t >= 0 THEN 2 * Abs(mag - n * (10 ^ t) * (2 ^ (-e))) ELSE 2 * Abs(mag * (10 ^ (-t)) - n * (2 ^ (-e)))
Unit(e, t) == IF t >= 0 THEN (10 ^ t) * (2 ^ (-e)) ELSE 2 ^ (-e)
CorrectlyRounded(mag, e, pd) ==
    /\ ErrTimes2(mag, e, pd.n, pd.t) <= Unit(e, pd.t)
    /\ (ErrTimes2(mag, e, pd.n, pd.t) = Unit(e, pd.t) => pd.n % 2 = 0)

FltLaws == (Scope = "flt" /\ done) =>
    LET conv == c[1]  fl == c[2]  w == c[3]  pr == c[4]  neg == c[5]  mag == c[6][1]  e == c[6][2]
        flt == <<"fin", neg, mag, e>>
        tok == Tok([m |-> IF neg THEN -mag ELSE mag, e |-> e])
        full == FmtFloat(conv, fl, w, pr, flt)
        bare == FmtFloat(conv, fl, 0, pr, flt)
        text == Directive(fl, WidthDigits(w), PrecDigits(pr), conv)
        body == IF bare[1] \in {45, 43, 32} THEN Tail(bare) ELSE bare
        pd == ParseDec(body)
        P == IF pr < 0 THEN 6 ELSE IF pr = 0 THEN 1 ELSE pr
        small == pr >= 0                                  \* keeps the read-back inside 32-bit integers
    IN
    (* through the front door (a negative zero cannot be written as a token) *)
    /\ (~(neg /\ mag = 0) => Eval("format", <<S(text), tok>>) = VOk(<<S(full)>>))
    (* an omitted precision is 6 *)
    /\ (pr < 0 => full = FmtFloat(conv, fl, w, 6, flt))
    (* field width and padding *)
    /\ Len(full) = SMax(w, Len(bare))
    /\ (45 \in fl => full = bare \o Spaces(Len(full) - Len(bare)))
    /\ ((45 \notin fl /\ 48 \notin fl) => full = Spaces(Len(full) - Len(bare)) \o bare)
    /\ ((45 \notin fl /\ 48 \in fl) =>
          full = SubSeq(bare, 1, Len(bare) - Len(body)) \o Zeros(Len(full) - Len(bare)) \o body)
    (* sign *)
    /\ (neg => bare[1] = 45)
    /\ (~neg /\ 43 \in fl => bare[1] = 43)
    /\ (~neg /\ 43 \notin fl /\ 32 \in fl => bare[1] = 32)
    /\ (~neg /\ 43 \notin fl /\ 32 \notin fl => bare = body /\ body[1] \in 48..57)
    (* shape and value *)
    /\ (conv = 102 => /\ pd.expdigits = 0 /\ -pd.t = (IF pr < 0 THEN 6 ELSE pr)
                      /\ (IndexOf(body, {46}) # 0 <=> (pr # 0 \/ 35 \in fl))
                      /\ (small => CorrectlyRounded(mag, e, pd)))
    /\ (conv = 101 => /\ pd.expdigits >= 2 /\ pd.nd = (IF pr < 0 THEN 6 ELSE pr) + 1
                      /\ (mag # 0 => pd.lead # 0) /\ (mag = 0 => pd.n = 0 /\ pd.ex = 0)
                      /\ (IndexOf(body, {46}) # 0 <=> (pr # 0 \/ 35 \in fl))
                      /\ (small => CorrectlyRounded(mag, e, pd)))
    /\ (conv = 103 =>
          (* the value printed is that of %e with precision P-1; the style is fixed iff -4 <= X < P *)
          LET eb == FmtFloat(101, {}, 0, P - 1, <<"fin", FALSE, mag, e>>)
              pe == ParseDec(eb)
          IN /\ LET t0 == SMin(pd.t, pe.t) IN pd.n * (10 ^ (pd.t - t0)) = pe.n * (10 ^ (pe.t - t0))
             /\ ((pd.expdigits = 0) <=> (pe.ex >= -4 /\ pe.ex < P))
             /\ (35 \in fl => pd.nd >= P)
             /\ (35 \notin fl /\ IndexOf(body, {46}) # 0 =>
                    LET m == IF IndexOf(body, {101, 69}) = 0 THEN body ELSE SubSeq(body, 1, IndexOf(body, {101, 69}) - 1)
                    IN m[Len(m)] \notin {48, 46}))

-----------------------------------------------------------------------------
(* ldexp / frexp over the whole exponent range, case <<x, k1, k2>> *)
WideLaws == (Scope = "wide" /\ done) =>
    LET x == c[1]  k1 == c[2]  k2 == c[3]
        dx == D(x)
        r1 == MLdexp(x, k1)[1]
        fr == MFrexp(x)[2]
        n == NormME(dx.m, dx.e)
        top == n.e + k1 + BitLen(Abs(n.m)) - 1
        sh == -1074 - (n.e + k1)
    IN
    (* frexp recomposes every finite double, subnormals included *)
    /\ MFrexp(x)[1] = "ok" /\ MLdexp(fr[1], fr[2][2]) = <<x>>
    /\ (dx.m # 0 => BitLen(Abs(D(fr[1]).m)) = -D(fr[1]).e)             \* 1/2 <= |f| < 1
    (* inside the range ldexp is exact, above it an infinity with the sign of x *)
    /\ ((dx.m # 0 /\ top <= 1023 /\ sh <= 0) => r1 = Tok([m |-> n.m, e |-> n.e + k1]))
    /\ ((dx.m # 0 /\ top > 1023) => r1 = Inf(Sgn(dx.m)))
    (* below 2^-1074: the nearest multiple of 2^-1074, ties to even; never changes sign *)
    /\ ((dx.m # 0 /\ sh > 0) =>
          /\ IsFinite(r1) /\ Sgn(D(r1).m) \in {0, Sgn(dx.m)}
          /\ LET q == IF D(r1).m = 0 THEN 0 ELSE Abs(Al(D(r1), -1074)) IN
             IF sh <= 24 THEN /\ 2 * Abs(Abs(n.m) - q * (2 ^ sh)) <= 2 ^ sh
                              /\ (2 * Abs(Abs(n.m) - q * (2 ^ sh)) = 2 ^ sh => q % 2 = 0)
             ELSE q = 0)
    (* the result is a double *)
    /\ Representable(r1)
    /\ (IsFinite(r1) => SignNeg(r1) = SignNeg(x))                      \* also when it underflows to zero
    (* ldexp composes while no rounding happened in between *)
    /\ ((dx.m # 0 /\ top <= 1023 /\ sh <= 0) => MLdexp(r1, k2) = MLdexp(x, k1 + k2))
    /\ MLdexp(x, 0) = <<x>>
-----------------------------------------------------------------------------
(* signed zeros, infinities, NaN: pow (C99 F.9.4.4) and the operators, case <<a, b>> *)
OneT == <<"n", 1>>
Val(r) == r[2][1]                         \* the single result of a Def(..)
SzLaws == (Scope = "sz" /\ done) =>
    LET a == c[1]  b == c[2]
        p == MPow(a, b)
        pn == MPow(a, MNeg(b))
        q == MDiv(a, b)
        isInt(t) == IsFinite(t) /\ DIsInt(D(t))
    IN
    (* operators: identities that pin the sign of a zero *)
    /\ MAdd(a, b) = MAdd(b, a) /\ MMul(a, b) = MMul(b, a)
    /\ MSub(a, b) = MAdd(a, MNeg(b)) /\ MNeg(MNeg(a)) = a
    /\ MAdd(a, NegZero) = a /\ MMul(a, OneT) = a /\ MMul(a, <<"n", -1>>) = MNeg(a)
    /\ MDiv(a, OneT) = Def(<<a>>) /\ MDiv(a, <<"n", -1>>) = Def(<<MNeg(a)>>)
    /\ (IsFinite(a) => MAdd(a, MNeg(a)) = PosZero /\ MSub(a, a) = PosZero)        \* x - x = +0 (round to nearest)
    /\ (a[1] # "nan" /\ b[1] # "nan" /\ MMul(a, b)[1] # "nan" => SignNeg(MMul(a, b)) = (SignNeg(a) # SignNeg(b)))
    /\ (q[1] = "ok" /\ Val(q)[1] # "nan" => SignNeg(Val(q)) = (SignNeg(a) # SignNeg(b)))
    /\ (q[1] = "ok" /\ IsFinite(a) /\ IsFinite(b) /\ D(b).m # 0 => MMul(Val(q), b) = a)   \* an exact quotient
    /\ MDiv(MNeg(a), b) = (IF q[1] = "ok" THEN Def(<<MNeg(Val(q))>>) ELSE q)
    /\ (a \in {PosZero, NegZero, Inf(1), Inf(-1)} => MDiv(OneT, Val(MDiv(OneT, a))) = Def(<<a>>))  \* 1/(1/x) = x
    (* %: literally the manual's a - floor(a/b)*b, evaluated with the operators above *)
    /\ (MMod(a, b)[1] = "ok" /\ q[1] = "ok" =>
          MMod(a, b) = Def(<<MSub(a, MMul(MFloor(Val(q))[1], b))>>))
    /\ (MMod(a, b)[1] = "ok" /\ IsFinite(Val(MMod(a, b))) /\ ~IsZeroTok(Val(MMod(a, b))) =>
          SignNeg(Val(MMod(a, b))) = SignNeg(b) /\ DLess(DAbsV(D(Val(MMod(a, b)))), DAbsV(D(b))))
    (* pow: the special cases are consistent with each other *)
    /\ MPow(a, PosZero) = Def(<<OneT>>) /\ MPow(a, NegZero) = Def(<<OneT>>) /\ MPow(OneT, b) = Def(<<OneT>>)
    /\ (a[1] # "nan" => MPow(a, OneT) = Def(<<a>>))
    /\ (p[1] = "ok" /\ pn[1] = "ok" /\ MDiv(OneT, Val(p))[1] = "ok" => pn = MDiv(OneT, Val(p)))   \* x^-y = 1 / x^y
    /\ (p[1] = "ok" /\ isInt(b) /\ D(b).m # 0 /\ a[1] # "nan" =>
          MPow(MNeg(a), b) = Def(<<IF YOddInt(b) THEN MNeg(Val(p)) ELSE Val(p)>>))                 \* parity of the exponent
    /\ (p[1] = "ok" /\ IsFinite(b) /\ ~isInt(b) /\ a[1] # "nan" /\ SignNeg(a) /\ IsFinite(a) /\ D(a).m # 0 => p = Def(<<NaN>>))
    /\ (p[1] = "ok" /\ a[1] # "nan" /\ ~SignNeg(a) /\ Val(p)[1] # "nan" => ~SignNeg(Val(p)))       \* a base without sign bit never gives one
    /\ (b = <<"n", 2>> /\ p[1] = "ok" => p = Def(<<MMul(a, a)>>))
    /\ (b = <<"n", 3>> /\ p[1] = "ok" => p = Def(<<MMul(MMul(a, a), a)>>))
    /\ (b = <<"q", 1, -1>> /\ a[1] # "nan" /\ ~SignNeg(a) => p = MSqrt(a))                         \* only then is pow(x, 1/2) sqrt(x)
    /\ (b = <<"q", 1, -1>> /\ a = NegZero => p = Def(<<PosZero>>) /\ MSqrt(a) = Def(<<NegZero>>))
    /\ (b = <<"q", 1, -1>> /\ a = Inf(-1) => p = Def(<<Inf(1)>>) /\ MSqrt(a) = Def(<<NaN>>))
-----------------------------------------------------------------------------
(* the constant of deg / rad and the big-natural arithmetic that judges them (checked once) *)
ASSUME BigMul(BigOf(123456789), BigOf(987654321)) = <<4997, 8186, 1342, 610, 27>>
ASSUME BigLe(BigOf(5), BigOf(8192)) /\ ~BigLe(BigOf(8192), BigOf(5)) /\ BigShl(BigOf(3), 14) = BigOf(49152)
(* RADIANS_PER_DEGREE is the correctly rounded quotient of the double PI by 180: |PI - 180 c| <= 180 ulp(c)/2 *)
ASSUME WithinHalf(PiM, PiE, BigMul(RadPerDegM, BigOf(180)), RadPerDegE, BigOf(90), RadPerDegE, FALSE)
(* and rad(180) = PI, deg(PI) is 180 within one rounding *)
ASSUME DegRadOK(FALSE, <<"n", 180>>, <<"w", FALSE, PiM, PiE>>)
ASSUME ~DegRadOK(FALSE, <<"n", 180>>, <<"w", FALSE, BigAdd(PiM, <<1>>), PiE>>)
=============================================================================
