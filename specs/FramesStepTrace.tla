--------------------------- MODULE FramesStepTrace ---------------------------
(* Validates the recorded steps of real runs (one run per line of File) against *)
(* the footprint laws of FramesStep; one VERDICT line per run.                   *)
EXTENDS FramesStep, TLC, Json

CONSTANT File
Data == ndJsonDeserialize(File)
VARIABLE idx
Init == idx \in 1..Len(Data)
Next == FALSE /\ idx' = idx
Spec == Init /\ [][Next]_idx

Steps == Data[idx].steps
Bad == {i \in 1..Len(Steps) : Broken(Steps[i]) # ""}
First == IF Bad = {} THEN 0 ELSE CHOOSE i \in Bad : \A j \in Bad : i <= j
Verdict == PrintT("VERDICT " \o ToJson([id |-> Data[idx].id, ok |-> Bad = {}, rule |-> IF First = 0 THEN "" ELSE Broken(Steps[First]),
                                        at |-> First, n |-> Len(Steps)]))
=============================================================================
