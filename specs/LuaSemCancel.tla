---------------------------- MODULE LuaSemCancel ----------------------------
(***************************************************************************)
(* Cancellation sweep for property C11.  The harness runs each (possibly   *)
(* non-terminating) program once per dispatch poll k with the context done *)
(* from poll k on.  Once the context is done no further Lua instruction    *)
(* completes, so what the program did must be a PREFIX of what the         *)
(* reference semantics does when left alone, and the outermost call ends   *)
(* in an error carrying the reason.  The spec runs the program for         *)
(* MaxSteps steps (or to completion); every recorded run is judged against *)
(* that prefix of its behaviour.                                           *)
(***************************************************************************)
EXTENDS LuaSemTrace

Runs == Data[idx].runs      \* runs[k] = [emits, outcome, after, cancelsp, finished]

Reason == <<118, 101, 114, 105, 102, 45, 99, 97, 110, 99, 101, 108>>    \* "verif-cancel"

IsPrefixOfOut(ev) == Len(ev) <= Len(st.out) /\ \A i \in 1..Len(ev) : ListMatch(st.out[i], ev[i])

(* judgement of run k in the terminal state of the spec run:
   "ok", "bad:<why>" or "unknown" (the spec prefix is too short to decide) *)
Judge(r) ==
    IF r.cancelled
    THEN (IF ~(r.outcome[1] = "err" /\ r.outcome[2][1] = "s" /\ HasSuffix(r.outcome[2][2], Reason)) THEN "bad:outcome is not an error carrying the reason"
          ELSE IF Len(r.emits) > Len(st.out) THEN (IF st.mode = "done" THEN "bad:more effects than the program has" ELSE "unknown")
          ELSE IF ~IsPrefixOfOut(r.emits) THEN "bad:effects are not a prefix of the uncancelled behaviour"
          ELSE IF Len(r.emits) # r.cancelemits THEN "bad:an effect happened after the context was done"
          ELSE IF r.after > r.cancelsp + 1 THEN "bad:more dispatch attempts after cancellation than the call depth allows"
          ELSE "ok")
    ELSE \* the program ended before poll k: it must be the uncancelled behaviour
         (IF st.mode # "done" THEN "unknown"
          ELSE IF Len(r.emits) = Len(st.out) /\ IsPrefixOfOut(r.emits) /\ OutcomeMatchFor(r.outcome) THEN "ok"
          ELSE "bad:finished run differs from the uncancelled behaviour")

CancelVerdict ==
    Terminal => PrintT("CANCEL " \o ToJson(
        [id |-> Data[idx].id, mode |-> st.mode, steps |-> st.steps, nout |-> Len(st.out),
         js |-> [k \in 1..Len(Runs) |-> Judge(Runs[k])]]))
=============================================================================
