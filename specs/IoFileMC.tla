------------------------------ MODULE IoFileMC ------------------------------
(***************************************************************************)
(* Property C19 - state machine over IoFile (oracle) run in lock-step with *)
(* ByteFile (reference) for model checking, and exported as histories      *)
(* (GEN) for replay on the real io library.                                *)
(*   Naive = TRUE : carry the explicit byte sequence and check, after      *)
(*                  every operation, that the sparse oracle returned       *)
(*                  exactly the reference result (small files).            *)
(*   Gen = TRUE   : print one GEN line per transition: the history with    *)
(*                  the expected result of every operation.                *)
(***************************************************************************)
EXTENDS IoFile, TLC, Json

CONSTANTS Sizes,      \* initial sizes; -1 = the file does not exist
          Lays,       \* layouts
          Modes,      \* open modes
          RCounts,    \* read counts
          WCounts,    \* write counts
          SOffs,      \* seek offsets
          VBufs,      \* setvbuf modes
          VSizes,     \* setvbuf sizes (0 = omitted)
          MFmts,      \* format lists of the multi-format reads f:read(fmt1, fmt2, ..)
          Extra,      \* names of the argument-less operations in the alphabet
          MaxHist, Naive, Gen

B == INSTANCE ByteFile

VARIABLES st, nv, hist, init
vars == <<st, nv, hist, init>>
view == <<st, nv, init>>
genview == <<st, nv, init, Len(hist)>>     \* export: one history per (state, depth) transition

Op(op, a, n) == [op |-> op, a |-> a, n |-> n, fs |-> <<>>]
Ops == {Op("open", m, 0) : m \in Modes}
       \cup {[op |-> "readm", a |-> "", n |-> 0, fs |-> f] : f \in MFmts}
       \cup {Op(x, "long", 0) : x \in IF "long" \in Extra THEN {"readline", "readall", "readnum"} ELSE {}}
       \cup {Op("calliter", "arg", 0) : x \in IF "iterarg" \in Extra THEN {1} ELSE {}}
       \cup {Op("read", "", n) : n \in RCounts}
       \cup {Op("read", c, 0) : c \in IF "rest" \in Extra THEN {"-1", "2^40"} ELSE {}}
       \cup {Op("write", "", n) : n \in WCounts}
       \cup {Op("seek", w, k) : w \in {"set", "cur", "end"}, k \in SOffs}
       \cup {Op("setvbuf", v, k) : v \in VBufs, k \in VSizes}
       \cup {Op("seek1", w, 0) : w \in IF "seek1" \in Extra THEN {"set", "cur", "end"} ELSE {}}
       \cup {o \in {Op("seek0", "", 0), Op("getiter", "", 0), Op("calliter", "", 0),
                    Op("lines", "", 2), Op("readline", "", 0), Op("readall", "", 0), Op("readnum", "", 0),
                    Op("flush", "", 0), Op("close", "", 0), Op("peek", "", 0)} : o.op \in Extra}

Init ==
    \E size \in Sizes, lay \in Lays :
        /\ st = Init0(size, lay)
        /\ nv = [s |-> B!BInit(IF Naive THEN size ELSE -1, lay), res |-> <<"none">>]
        /\ hist = <<>>
        /\ init = [size |-> size, lay |-> lay]

Next ==
    /\ Len(hist) < MaxHist
    /\ \E o \in Ops :
        /\ Legal(st, o)
        /\ LET r == Apply(st, o) IN
           /\ st' = r.st
           /\ hist' = Append(hist, StepRec(st, o, r.exp))
           /\ nv' = IF Naive THEN B!BApply(nv.s, o, st.nw) ELSE nv
    /\ UNCHANGED init

Spec == Init /\ [][Next]_vars

(* ---- the oracle returns what the reference model returns ------------------ *)
ByteOf(st0, d, j) ==          \* j-th byte (0-based) of run descriptor d
    CASE d[1] = "b" -> BaseByte(st0.lay, d[3] + j)
      [] d[1] = "w" -> WByte(d[2], d[3] + j)
      [] d[1] = "z" -> 0
RECURSIVE Expand(_, _)
Expand(st0, ds) ==
    IF ds = <<>> THEN <<>>
    ELSE [j \in 1..Head(ds)[4] |-> ByteOf(st0, Head(ds), j - 1)] \o Expand(st0, Tail(ds))
ExpandRes(st0, e) ==
    IF e[1] = "data" THEN <<"data", Expand(st0, e[2])>>
    ELSE IF e[1] \in {"lines", "multi"}
         THEN <<e[1], [i \in DOMAIN e[2] |->
                   IF e[2][i][1] = "data" THEN <<"data", Expand(st0, e[2][i][2])>> ELSE e[2][i]]>>
    ELSE e

Refines ==
    Naive =>
      /\ st.ex = nv.s.ex /\ st.opened = nv.s.opened /\ st.closed = nv.s.closed
      /\ st.mode = nv.s.mode /\ st.cur = nv.s.cur /\ st.it = nv.s.it
      /\ st.len = Len(nv.s.f)
      /\ Expand(st, Data(st, 0, st.len)[2]) = nv.s.f               \* same content
      /\ Len(hist) > 0 => ExpandRes(st, hist[Len(hist)].exp) = nv.res   \* same result

(* ---- structural invariants of the oracle ---------------------------------- *)
TypeOK ==
    /\ st.len >= 0 /\ st.bl >= 0 /\ st.bl <= st.len /\ st.cur >= -1
    /\ st.cur = -1 => AppendM(st.mode)
    /\ \A j \in DOMAIN st.ov : st.ov[j][1] >= 0 /\ st.ov[j][2] > 0 /\ st.ov[j][1] + st.ov[j][2] <= st.len
    /\ \A s \in {Segs(st, 0, st.len)} :                           \* segments tile [0, len)
          /\ (st.len > 0 => s[1].x = 0 /\ s[Len(s)].x + s[Len(s)].n = st.len)
          /\ \A i \in 1..(Len(s) - 1) : s[i].x + s[i].n = s[i + 1].x
          /\ \A i \in DOMAIN s : s[i].k = "b" => s[i].x + s[i].n <= st.bl   \* base bytes only below bl
    /\ st.pend => (st.opened /\ ~st.closed)
    /\ ~st.ex => (st.len = 0 /\ ~st.opened)
    /\ st.it \in {"none", "cur", "old"} /\ (st.it # "none" => st.opened)

(* closed-handle guard: every operation on a closed handle raises and leaves
   the file as it was; visibility: whatever was written is in the file that a
   second handle sees (peek is the whole current content) *)
ClosedGuard ==
    [][\A o \in Ops : (st.closed /\ o.op \notin {"open", "peek"}) =>
          (Apply(st, o).exp = <<"error">> /\ Apply(st, o).st = st)]_vars

(* cursor laws: a read of n bytes advances by what it returned; a successful
   seek("cur",0) returns the cursor and changes nothing else the handle sees *)
DataLen(e) == IF e[1] # "data" THEN 0
              ELSE LET S == e[2] IN IF S = <<>> THEN 0 ELSE FoldLeft(LAMBDA acc, d : acc + d[4], 0, S)
CursorLaws ==
    (st.opened /\ ~st.closed /\ st.cur # -1) =>
      /\ \A n \in RCounts : Readable(st.mode) =>
            LET r == Apply(st, Op("read", "", n))
            IN r.st.cur = st.cur + DataLen(r.exp) /\ DataLen(r.exp) <= n /\ r.st.cur <= IMax(st.cur, st.len)
               /\ (r.exp[1] = "eof" <=> st.cur >= st.len)
      /\ Apply(st, Op("seek", "cur", 0)).exp = <<"num", st.cur>>
      /\ Apply(st, Op("seek0", "", 0)) = Apply(st, Op("seek", "cur", 0))      \* call forms with defaults
      /\ \A w \in {"set", "cur", "end"} : Apply(st, Op("seek1", w, 0)) = Apply(st, Op("seek", w, 0))
      /\ (st.it = "cur" /\ Readable(st.mode)) =>                            \* a kept iterator is read("*l")
            Apply(st, Op("calliter", "", 0)) = Apply(st, Op("readline", "", 0))
      /\ Writable(st.mode) => \A n \in WCounts \ {0} :
            LET r == Apply(st, Op("write", "", n)).st
                p == IF AppendM(st.mode) THEN st.len ELSE st.cur
            IN /\ r.cur = p + n /\ r.len = IMax(st.len, p + n)
               /\ \A d \in {Segs(r, p, p + n)[i] : i \in DOMAIN Segs(r, p, p + n)} :
                      d.k = "w" /\ d.t = st.nw /\ d.j0 = d.x - p                 \* the bytes landed at p
               /\ (p > 0 => Data(r, 0, IMin(p, st.len)) = Data(st, 0, IMin(p, st.len)))  \* nothing before p moved

(* ---- constants for the configurations ------------------------------------- *)
MC_SmallLays == {<<"per", 3>>, <<"crlf", 4>>, <<"at", 2>>, <<"num", 3>>}
MC_NumLays == {<<"num", 4>>, <<"num", 2>>}
MC_SmallSizes == {-1, 0, 1, 5}
MC_SmallSOffs == {-1, 0, 2, 7}
MC_SmallqSizes == {-1, 5}
MC_SmallqSOffs == {-1, 0, 2}
MC_BigLays == {<<"per", 37>>, <<"per", 0>>}
MC_BigSOffs == {-1, 0, 4096}
MC_ModesSizes == {-1, 1, 4097}
MC_ModesLays == {<<"per", 37>>}
MC_LinesLays == {<<"per", 0>>, <<"at", 4095>>, <<"at", 4096>>, <<"crlf", 37>>, <<"per", 4097>>}
MC_None == {}
(* files much larger than every internal buffer / chunk size of the io library
   (4096-byte bufio buffers, 65536-byte read chunks), counts just below, at and
   above those sizes *)
MC_HugeSizes == {70000, 200000}
MC_HugeCounts == {65535, 65536, 65537, 70000, 131073}
MC_HugeSOffs == {0, 65536}
(* format lists *)
F_c(n) == <<"c", n>>
F_l == <<"l", 0>>
F_n == <<"n", 0>>
F_a == <<"a", 0>>
F_ll == <<"l", 1>>     \* the long spellings "*line" "*number" "*all"
F_nn == <<"n", 1>>
F_aa == <<"a", 1>>
MC_SmallFmts == {<<F_c(2), F_a>>, <<F_c(0), F_l, F_c(7)>>, <<F_n, F_c(1), F_a>>}
MC_Atoms == {F_c(0), F_c(2), F_l, F_n, F_a}
MC_MultiFmts == {<<x, y>> : x \in MC_Atoms, y \in MC_Atoms} \cup
                {<<x, y, F_a>> : x \in MC_Atoms, y \in MC_Atoms} \cup
                {<<F_c(2), F_c(1), x>> : x \in MC_Atoms} \cup
                {<<F_ll, F_aa>>, <<F_aa, F_ll>>, <<F_nn, F_ll, F_aa>>, <<F_c(2), F_aa>>, <<F_ll, F_c(2)>>} \cup
                {<<F_c(4096), F_c(1), F_a>>, <<F_c(5000), F_a>>, <<F_l, F_c(4096), F_l>>}
MC_MultiLays == {<<"num", 4>>, <<"per", 37>>}
MC_AllExtra == {"long", "iterarg", "rest", "seek0", "seek1", "getiter", "calliter", "lines", "readline", "readall", "readnum", "flush", "close", "peek"}

(* generation-only filter of the stream-buffer slices: once setvbuf gave a
   size b, only write sizes around b are exported (b-1, b, b+1, 2b+1, > 4096) *)
RelSizes(b) == {b - 1, b, b + 1, 2 * b + 1, 5000}
WriteRel == LET s == hist'[Len(hist')] IN (s.op = "write" /\ st.bsz > 0) => s.n \in RelSizes(st.bsz)
MC_WbufCounts == {1, 2, 3, 5, 15, 16, 17, 33, 99, 100, 101, 201, 5000}
MC_WbufSizes == {1, 2, 16, 100}

GenPrint == Gen => PrintT("GEN " \o ToJson([init |-> init, steps |-> hist', final |-> Final(st')]))
(* guided slices: at most k writes and one setvbuf per exported history *)
CountOp(h, name) == Len(SelectSeq(h, LAMBDA x : x.op = name))
Guided(k) == CountOp(hist', "write") <= k /\ CountOp(hist', "setvbuf") <= 1
GenPrintG1 == Guided(1) /\ WriteRel /\ GenPrint
GenPrintG2 == Guided(2) /\ WriteRel /\ GenPrint
GenPrintG3 == CountOp(hist', "write") <= 2 /\ CountOp(hist', "setvbuf") <= 2 /\ GenPrint
=============================================================================
