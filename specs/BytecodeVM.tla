----------------------------- MODULE BytecodeVM -----------------------------
(***************************************************************************)
(* MC for property C07: the static predicate of module Bytecode implies    *)
(* dynamic safety.  An abstract VM executes a prototype the way vm.go      *)
(* does - fetch Code[pc], dispatch on the opcode, dereference registers,   *)
(* constants, upvalues, nested prototypes and following code words exactly *)
(* where the Go handlers do, consume multi-word groups by advancing pc,    *)
(* follow jumps and skips nondeterministically - and records a fault       *)
(* whenever an index leaves its table / the declared frame, an interior    *)
(* word is dispatched, or an "up to the top" window is used although the   *)
(* previous instruction did not leave the top at or above its base.        *)
(*                                                                         *)
(* TLC enumerates every code sequence of at most MaxLen words over a       *)
(* reduced alphabet (well-formed and ill-formed instances of every opcode),*)
(* closed by RETURN, and checks on all of them:                            *)
(*    WF(p)  =>  [] (no fault  /\  pc is an instruction boundary)          *)
(* plus: the divide-and-conquer boundary scan equals the naive one.        *)
(***************************************************************************)
EXTENDS Integers, Sequences, FiniteSets, TLC, Json

CONSTANTS FrameLimit, MaxLen, Alphabet, Shapes

INSTANCE Bytecode

VARIABLES phase, code, p, hd, wf, pc, open, fault
vars == <<phase, code, p, hd, wf, pc, open, fault>>

Halt == -1
None == -1

MkProto(c, Shape) ==
              [hi |-> [i \in 1..Len(c) |-> c[i][1]], lo |-> [i \in 1..Len(c) |-> c[i][2]],
               nreg |-> Shape.nreg, nup |-> Shape.nup, np |-> Shape.np, va |-> Shape.va,
               nline |-> Len(c), ndbgup |-> Shape.nup, kt |-> Shape.kt, ks |-> Shape.ks, sk |-> Shape.sk,
               pnup |-> Shape.pnup, ls |-> <<>>, le |-> <<>>]

(* function entry (initCallFrame): the caller's arguments fill R(0)..R(np-1), *)
(* with VarArgHasArg the arg table / nil is stored in R(np), then the top is  *)
(* set to NumUsedRegisters - anything at or above it is wiped                 *)
EntryFaults(pp) ==
    (IF pp.np > pp.nreg THEN {"frame:parameters"} ELSE {}) \cup
    (IF pp.va % 2 = 1 /\ pp.np >= pp.nreg THEN {"frame:arg-slot"} ELSE {})

(* ---- one step of the abstract VM ---------------------------------------- *)
(* returns the faults of executing the word at q, the possible next pcs and *)
(* the register from which results are open up to the top (or None)         *)
VMStep(pp, q, opn) ==
    LET n == NW(pp) IN
    IF q < 0 \/ q >= n THEN [f |-> {"fetch-outside-code"}, nxt |-> {}, opn |-> None]
    ELSE
    LET o == Op(pp, q)  a == ArgA(pp, q)  b == ArgB(pp, q)  c == ArgC(pp, q)
        bx == ArgBx(pp, q)  sbx == ArgSbx(pp, q)
        reg(r)  == IF r >= pp.nreg THEN {"frame"} ELSE {}
        kst(k)  == IF k >= Len(pp.kt) THEN {"constants"} ELSE {}
        skst(k) == IF k >= Len(pp.sk) THEN {"stringConstants"}
                   ELSE IF k >= Len(pp.kt) \/ pp.kt[k + 1] # 3 THEN {"string-key-names-non-string"} ELSE {}
        rk(x)   == IF x >= 256 THEN kst(x - 256) ELSE reg(x)
        rks(x)  == IF x >= 256 THEN skst(x - 256) ELSE reg(x)
        upv(u)  == IF u >= pp.nup THEN {"upvalues"} ELSE {}
        word(i) == IF i > n - 1 THEN {"code"} ELSE {}
        \* opn: lower bound of the top left by the previous instruction, or None
        top(strict) == IF opn = None \/ opn < a \/ (strict /\ opn = a) THEN {"top"} ELSE {}
        R(f, nx, op2) == [f |-> f, nxt |-> nx, opn |-> op2]
        Seq1(f) == R(f, {q + 1}, None)
    IN
    CASE o = OP_MOVE -> Seq1(reg(b) \cup reg(a))
      [] o = OP_MOVEN ->
            R(reg(b) \cup reg(a) \cup
              UNION {word(q + i) \cup (IF q + i <= n - 1 THEN reg(ArgB(pp, q + i)) \cup reg(ArgA(pp, q + i)) ELSE {})
                     : i \in 1..c},
              {q + 1 + c}, None)
      [] o = OP_LOADK -> Seq1(kst(bx) \cup reg(a))
      [] o = OP_LOADBOOL -> R(reg(a), {IF c # 0 THEN q + 2 ELSE q + 1}, None)
      [] o = OP_LOADNIL -> Seq1(IF a <= b THEN reg(b) ELSE {})
      [] o = OP_GETUPVAL \/ o = OP_SETUPVAL -> Seq1(upv(b) \cup reg(a))
      [] o = OP_GETGLOBAL \/ o = OP_SETGLOBAL -> Seq1(skst(bx) \cup reg(a))
      [] o = OP_GETTABLE -> Seq1(reg(b) \cup rk(c) \cup reg(a))
      [] o = OP_GETTABLEKS -> Seq1(reg(b) \cup rks(c) \cup reg(a))
      [] o = OP_SETTABLE -> Seq1(reg(a) \cup rk(b) \cup rk(c))
      [] o = OP_SETTABLEKS -> Seq1(reg(a) \cup rks(b) \cup rk(c))
      [] o = OP_NEWTABLE -> Seq1(reg(a))
      [] o = OP_SELF -> Seq1(reg(b) \cup rks(c) \cup reg(a) \cup reg(a + 1))
      [] o >= OP_ADD /\ o <= OP_POW -> Seq1(rk(b) \cup rk(c) \cup reg(a))
      [] o = OP_UNM \/ o = OP_LEN -> Seq1(rk(b) \cup reg(a))
      [] o = OP_NOT -> Seq1(reg(b) \cup reg(a))
      [] o = OP_CONCAT -> Seq1(reg(c) \cup reg(a))
      [] o = OP_JMP -> R({}, {q + 1 + sbx}, None)
      [] o \in {OP_EQ, OP_LT, OP_LE} -> R(rk(b) \cup rk(c), {q + 1, q + 2}, None)
      [] o = OP_TEST -> R(reg(a), {q + 1, q + 2}, None)
      [] o = OP_TESTSET -> R(reg(b) \cup reg(a), {q + 1, q + 2}, None)
      [] o = OP_CALL ->
            R(reg(a) \cup (IF b >= 2 THEN reg(a + b - 1) ELSE {}) \cup (IF b = 0 THEN top(TRUE) ELSE {}) \cup
              (IF c >= 2 THEN reg(a + c - 2) ELSE {}),
              {q + 1}, IF c = 0 THEN a ELSE a + c - 1)
      [] o = OP_TAILCALL ->
            R(reg(a) \cup (IF b >= 2 THEN reg(a + b - 1) ELSE {}) \cup (IF b = 0 THEN top(TRUE) ELSE {}), {}, None)
      [] o = OP_RETURN ->
            R((IF b >= 2 THEN reg(a + b - 2) ELSE {}) \cup (IF b = 0 THEN top(FALSE) ELSE {}), {}, None)
      [] o = OP_FORLOOP -> R(reg(a + 3), {q + 1, q + 1 + sbx}, None)
      [] o = OP_FORPREP -> R(reg(a + 2), {q + 1 + sbx}, None)
      [] o = OP_TFORLOOP ->
            \* generator, state and control are copied to A+3..A+5, the results land in A+3..A+2+C
            R(reg(a + 5) \cup reg(a + 2 + c) \cup word(q + 1),
              {q + 2} \cup (IF q + 1 <= n - 1 THEN {q + 2 + ArgSbx(pp, q + 1)} ELSE {}), None)
      [] o = OP_SETLIST ->
            R(reg(a) \cup (IF b >= 1 THEN reg(a + b) ELSE top(TRUE)) \cup
              (IF c = 0 THEN word(q + 1) \cup
                              (IF q + 1 <= n - 1 /\ Hi(pp, q + 1) = 0 /\ Lo(pp, q + 1) = 0
                               THEN {"setlist-batch-below-1"} ELSE {})
               ELSE {}),
              {IF c = 0 THEN q + 2 ELSE q + 1}, None)
      [] o = OP_CLOSE \/ o = OP_NOP -> Seq1({})
      [] o = OP_CLOSURE ->
            IF bx >= Len(pp.pnup) THEN R({"prototypes"} \cup reg(a), {q + 1}, None)
            ELSE LET k == pp.pnup[bx + 1] IN
                 R(reg(a) \cup
                   UNION {word(q + i) \cup
                          (IF q + i <= n - 1
                           THEN (CASE Op(pp, q + i) = OP_MOVE -> reg(ArgB(pp, q + i))
                                   [] Op(pp, q + i) = OP_GETUPVAL -> upv(ArgB(pp, q + i))
                                   [] OTHER -> {"nil-upvalue"})
                           ELSE {}) : i \in 1..k},
                   {q + 1 + k}, None)
      [] o = OP_VARARG ->
            R((IF ~IsVarArgFn(pp) THEN {"vararg-base"} ELSE {}) \cup (IF b >= 2 THEN reg(a + b - 2) ELSE {}) \cup
              (IF b = 0 THEN reg(a) ELSE {}),
              {q + 1}, IF b = 0 THEN a ELSE a + b - 1)
      [] OTHER -> R({"dispatch"}, {}, None)

(* ---- naive sequential boundary scan (reference for Heads) -------------- *)
RECURSIVE NaiveHeads(_, _, _)
NaiveHeads(pp, q, acc) ==
    IF q >= NW(pp) THEN [i \in 1..NW(pp) |-> (i - 1) \in acc]
    ELSE NaiveHeads(pp, q + GLen(pp, q), acc \cup {q})

(* ---- the state machine: build a code sequence, seal it, run it --------- *)
RET == <<OP_RETURN * 1024, 1>>      \* RETURN 0 1

Init == /\ phase = "build" /\ code = <<>> /\ p = <<>> /\ hd = <<>> /\ wf = FALSE
        /\ pc = 0 /\ open = None /\ fault = {}

Extend == /\ phase = "build" /\ Len(code) < MaxLen
          /\ \E w \in Alphabet : code' = Append(code, w)
          /\ UNCHANGED <<phase, p, hd, wf, pc, open, fault>>

Seal == /\ phase = "build"
        /\ \E sh \in Shapes :
             LET pp == MkProto(Append(code, RET), sh)  h == Frame(pp) IN
             /\ p' = pp /\ hd' = h /\ wf' = (ViolPairs(pp, h) = {})
             /\ fault' = EntryFaults(pp)
        /\ phase' = "run" /\ pc' = 0
        /\ UNCHANGED <<code, open>>

Run == /\ phase = "run" /\ pc # Halt /\ fault = {}
       /\ LET s == VMStep(p, pc, open) IN
          /\ fault' = s.f
          /\ open' = s.opn
          /\ IF s.nxt = {} \/ s.f # {} THEN pc' = Halt ELSE pc' \in s.nxt
       /\ UNCHANGED <<phase, code, p, hd, wf>>

Next == Extend \/ Seal \/ Run
Spec == Init /\ [][Next]_vars

(* ---- the theorem --------------------------------------------------------- *)
Safe == (phase = "run" /\ wf) => fault = {}
OnBoundary == (phase = "run" /\ wf /\ pc # Halt) => (pc >= 0 /\ pc < NW(p) /\ hd.h[pc + 1])
ScanAgrees == (phase = "run" /\ pc = 0) => hd.h = NaiveHeads(p, 0, {})

(* non-vacuity: one line per sealed well-formed prototype *)
Report == (phase = "run" /\ pc = 0 /\ open = None /\ fault = {} /\ wf) =>
              PrintT("WFP " \o ToJson([n |-> NW(p),
                  g |-> Cardinality({q \in 0..NW(p) - 1 : hd.h[q + 1] /\ GLen(p, q) > 1}),
                  j |-> Cardinality({q \in 0..NW(p) - 1 : hd.h[q + 1] /\ Op(p, q) \in
                          {OP_JMP, OP_EQ, OP_LT, OP_LE, OP_TEST, OP_TESTSET, OP_FORLOOP, OP_FORPREP, OP_TFORLOOP}})]))
=============================================================================
