----------------------------- MODULE IoFileEval -----------------------------
(***************************************************************************)
(* Property C19 - the oracle IoFile as a function on given operation       *)
(* lists.  Each line of File is  {id, size, lay, ops:[{op,a,n}..]}  (seeded *)
(* random proposals, or the operations of a replay file).  Operations that *)
(* are not Legal in the state reached (outside the property's quantifier)  *)
(* are dropped; for the rest the expected result is computed by Apply.     *)
(* One GEN line per record, in the format of IoFileMC's GenPrint.          *)
(***************************************************************************)
EXTENDS IoFile, TLC, Json

CONSTANT File
Input == ndJsonDeserialize(File)

VARIABLE idx
Init == idx \in 1..Len(Input)
Spec == Init /\ [][UNCHANGED idx]_idx

RECURSIVE Run(_, _, _, _)
Run(st, ops, i, acc) ==
    IF i > Len(ops) THEN [st |-> st, steps |-> acc]
    ELSE LET o == ops[i] IN
         IF Legal(st, o)
         THEN LET r == Apply(st, o) IN Run(r.st, ops, i + 1, Append(acc, StepRec(st, o, r.exp)))
         ELSE Run(st, ops, i + 1, acc)

GenLine ==
    LET d == Input[idx]
        lay == <<d.lay[1], d.lay[2]>>
        r == Run(Init0(d.size, lay), d.ops, 1, <<>>)
    IN PrintT("GEN " \o ToJson([id |-> d.id, init |-> [size |-> d.size, lay |-> lay],
                               steps |-> r.steps, final |-> Final(r.st)]))
=============================================================================
