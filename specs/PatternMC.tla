----------------------------- MODULE PatternMC -----------------------------
(***************************************************************************)
(* C14: model checking of the Pattern specification over a bounded-         *)
(* exhaustive scope, and export (GEN) of the reference results for the same *)
(* scope.  A state is one pattern; the state graph is the tree of all       *)
(* patterns over PAlpha up to length MaxP (so the work is spread over the   *)
(* TLC workers).  The invariants quantify over every subject over SAlpha up *)
(* to length MaxS and every init in Inits.                                  *)
(***************************************************************************)
EXTENDS Pattern, TLC, Json

CONSTANTS PAlpha,    \* set of pattern bytes
          SAlpha,    \* set of subject bytes
          MaxP, MaxS,
          First      \* set of admissible first pattern bytes (chunking)

VARIABLE pat
vars == <<pat>>

Init == pat = <<>>
Next == /\ Len(pat) < MaxP
        /\ \E c \in (IF pat = <<>> THEN First ELSE PAlpha) : pat' = Append(pat, c)
Spec == Init /\ [][Next]_vars

Inits == -5..5
SubjectsOfLen(n) == [1..n -> SAlpha]
Subjects == UNION {SubjectsOfLen(n) : n \in 0..MaxS}

(* a fixed enumeration order of the subjects (any order will do, it is     *)
(* printed in the header and used positionally afterwards)                 *)
RECURSIVE SetToSeq(_)
SetToSeq(S0) == IF S0 = {} THEN <<>>
                ELSE LET e == CHOOSE e \in S0 : TRUE IN <<e>> \o SetToSeq(S0 \ {e})
SubjSeq == SetToSeq(Subjects)
InitSeq == [i \in 1..11 |-> i - 6]

(* ---- replacement cases used by GEN -------------------------------------- *)
GMap == << << <<"s", <<97>>>>, <<"s", <<84>>>> >>,          \* "a" -> "T"
           << <<"s", <<98>>>>, <<"b", TRUE>> >>,            \* "b" -> true (invalid)
           << <<"s", <<97, 98>>>>, <<"n", 7>> >>,           \* "ab" -> 7
           << <<"s", <<49>>>>, <<"b", FALSE>> >>,           \* "1" -> false
           << <<"s", <<>>>>, <<"s", <<95>>>> >>,            \* "" -> "_"
           << <<"n", 1>>, <<"s", <<80>>>> >>,               \* 1 -> "P"
           << <<"n", 2>>, <<"s", <<>>>> >> >>               \* 2 -> ""
ReplCases == <<
    [repl |-> <<"s", <<120>>>>, n |-> <<"nil">>],                    \* "x"
    [repl |-> <<"s", <<91, 37, 48, 37, 49, 93>>>>, n |-> <<"nil">>], \* "[%0%1]"
    [repl |-> <<"s", <<37, 50, 37, 37>>>>, n |-> <<"nil">>],         \* "%2%%"
    [repl |-> <<"s", <<120>>>>, n |-> <<"n", 1>>],
    [repl |-> <<"s", <<120>>>>, n |-> <<"n", 0>>],
    [repl |-> <<"t", GMap>>, n |-> <<"nil">>],
    [repl |-> <<"f", GMap>>, n |-> <<"nil">>],
    [repl |-> <<"n", 5>>, n |-> <<"nil">>] >>                        \* a number is a replacement string

(* ---- admissible outcomes as data ---------------------------------------- *)
NoErrMsg(r) == IF r[1] = "err" THEN <<"err">> ELSE r
Adm(exp, nomatch, malformed) ==
    IF IsErr(exp) THEN << nomatch, <<"err">> >>
    ELSE IF malformed /\ exp # nomatch THEN << exp, nomatch, <<"err">> >>
    ELSE IF malformed THEN << nomatch, <<"err">> >>
    ELSE << exp >>

NilR == <<"nil">>
NoG == <<"g", <<>>>>
NoSub(s) == <<"r", s, 0, <<>>>>

Entry(s, p) ==
    LET mf == ~WellFormed(p, TRUE)
        mg == ~WellFormed(p, FALSE)
    IN << [o \in 1..(Len(s) + 1) |-> Adm(StrFind(s, p, o), NilR, mf)],
          [o \in 1..(Len(s) + 1) |-> Adm(StrMatch(s, p, o), NilR, mf)],
          Adm(StrGMatch(s, p), NoG, mg),
          [k \in 1..Len(ReplCases) |->
              Adm(StrGSub(s, p, ReplCases[k].repl, ReplCases[k].n), NoSub(s),
                  mf \/ (ReplCases[k].repl[1] = "s" /\ ReplDangling(ReplCases[k].repl[2], 1)))] >>

(* the entry of a well-formed pattern that matches nowhere / of a          *)
(* malformed pattern that matches nowhere (codes 0 and 1 in the export)    *)
NmEntry(s, lax) ==
    LET A(nm) == IF lax THEN <<nm, <<"err">>>> ELSE <<nm>> IN
    << [o \in 1..(Len(s) + 1) |-> A(NilR)], [o \in 1..(Len(s) + 1) |-> A(NilR)],
       A(NoG), [k \in 1..Len(ReplCases) |-> A(NoSub(s))] >>

(* ---- GEN: one header line, one line per pattern -------------------------- *)
Header ==
    [subjects |-> SubjSeq,
     inits |-> InitSeq,
     io |-> [j \in 1..Len(SubjSeq) |-> [i \in 1..Len(InitSeq) |-> InitOffset(InitSeq[i], Len(SubjSeq[j]))]],
     repls |-> ReplCases,
     nm |-> [j \in 1..Len(SubjSeq) |-> NmEntry(SubjSeq[j], FALSE)],
     nmlax |-> [j \in 1..Len(SubjSeq) |-> NmEntry(SubjSeq[j], TRUE)]]

Code(s, p) ==
    LET e == Entry(s, p) IN
    IF e = NmEntry(s, FALSE) THEN <<0>>
    ELSE IF e = NmEntry(s, TRUE) THEN <<1>>
    ELSE e

(* lower-case tags: the lines are consumed by the Go harness directly *)
GenPrint ==
    /\ pat = <<>> => PrintT("hdr " \o ToJson(Header))
    /\ PrintT("gen " \o ToJson([p |-> pat, r |-> [j \in 1..Len(SubjSeq) |-> Code(SubjSeq[j], pat)]]))

(* ======================= laws checked by TLC (MC) ======================== *)
X(s) == Ctx(s, pat, TRUE)

(* L1: static well-formedness coincides with the matcher's lazy errors:    *)
(* a well-formed pattern never raises, a malformed one never matches.      *)
LawWellFormed ==
    \A s \in Subjects :
        /\ \A o \in 1..(Len(s) + 1) :
              LET f == StrFind(s, pat, o) IN
              IF WellFormed(pat, TRUE) THEN f[1] # "err" ELSE f[1] \in {"err", "nil"}
        /\ LET g == StrGMatch(s, pat) IN
           IF WellFormed(pat, FALSE) THEN g[1] # "err" ELSE (g[1] = "err" \/ g = NoG)

(* L2: declarative (set based) semantics of the capture-free fragment:     *)
(* items = single-character class with an optional quantifier.             *)
RECURSIVE Items(_, _, _)
Items(x, pi, acc) ==      \* <<ok, items, dollar>>
    LET c == P(x, pi) IN
    IF c = 0 THEN <<TRUE, acc, FALSE>>
    ELSE IF c = DOLLAR /\ P(x, pi + 1) = 0 THEN <<TRUE, acc, TRUE>>
    ELSE IF c \in {LPAR, RPAR} \/ (c = ESC /\ (P(x, pi + 1) \in {98, 102} \/ IsDigit(P(x, pi + 1))))
    THEN <<FALSE, acc, FALSE>>
    ELSE LET ep == ClassEnd(x, pi) IN
         IF ep < 0 THEN <<FALSE, acc, FALSE>>
         ELSE IF P(x, ep) \in {QMARK, STAR, PLUS, DASH}
              THEN Items(x, ep + 1, Append(acc, <<pi, ep, P(x, ep)>>))
              ELSE Items(x, ep, Append(acc, <<pi, ep, 0>>))

One(x, it, q) == q <= LS(x) /\ SingleMatch(x, S(x, q), it[1], it[2])
Run(x, it, a, b) == \A j \in a..(b - 1) : One(x, it, j)     \* s[a..b) all match
StepSet(x, it, Q) ==
    CASE it[3] = 0 -> {q + 1 : q \in {q \in Q : One(x, it, q)}}
      [] it[3] = QMARK -> Q \cup {q + 1 : q \in {q \in Q : One(x, it, q)}}
      [] it[3] = PLUS -> {e \in 1..(LS(x) + 1) : \E q \in Q : q < e /\ Run(x, it, q, e)}
      [] OTHER -> {e \in 1..(LS(x) + 1) : \E q \in Q : q <= e /\ Run(x, it, q, e)}
RECURSIVE Reach(_, _, _, _)
Reach(x, its, k, Q) == IF k > Len(its) THEN Q ELSE Reach(x, its, k + 1, StepSet(x, its[k], Q))
Ends(x, its, si) ==
    LET Q == Reach(x, its[2], 1, {si}) IN IF its[3] THEN Q \cap {LS(x) + 1} ELSE Q

NQuant(its) == Cardinality({k \in 1..Len(its[2]) : its[2][k][3] # 0})
Min(Q) == CHOOSE m \in Q : \A o \in Q : m <= o

LawRegular ==
    \A s \in Subjects :
        LET x == X(s)
            its == Items(x, 1, <<>>)
        IN its[1] =>
           \A si \in 1..(Len(s) + 1) :
              LET r == Match(x, si, 1, <<>>)
                  E == Ends(x, its, si)
              IN /\ r.k # "err"
                 /\ (r.k = "fail") = (E = {})              \* backtracking is complete
                 /\ r.k = "ok" => r.e \in E /\ r.c = <<>>  \* and sound
                 \* no quantifier: the end is unique; one quantifier: greedy takes
                 \* the longest, lazy the shortest admissible end
                 /\ (r.k = "ok" /\ NQuant(its) = 0) => E = {r.e}
                 /\ (r.k = "ok" /\ NQuant(its) = 1) =>
                      LET q == (CHOOSE k \in 1..Len(its[2]) : its[2][k][3] # 0) IN
                      IF its[2][q][3] = DASH THEN r.e = Min(E) ELSE r.e = Max(E)

(* L3: capture bookkeeping of every successful match *)
LawCaptures ==
    \A s \in Subjects : \A si \in 1..(Len(s) + 1) :
        LET r == Match(X(s), si, 1, <<>>) IN
        r.k = "ok" =>
          /\ r.e >= si /\ r.e <= Len(s) + 1
          /\ \A i \in 1..Len(r.c) :
               LET c == r.c[i] IN
               /\ c[1] >= si /\ c[1] <= r.e
               /\ c[2] >= 0 => c[1] + c[2] <= r.e
               /\ WellFormed(pat, TRUE) => c[2] # CAP_UNFINISHED
               /\ i > 1 => r.c[i - 1][1] <= c[1]

(* L4: the drivers agree with each other and with the declarative          *)
(* semantics (leftmost match, gsub identity, counts)                       *)
LawDrivers ==
    \A s \in Subjects :
        LET x == X(s)
            its == Items(x, 1, <<>>)
            idn == StrGSub(s, pat, <<"s", <<37, 48>>>>, <<"nil">>)      \* "%0"
            gm == StrGMatch(s, pat)
            m1 == StrMatch(s, pat, 1)
        IN
        /\ \A o \in 1..(Len(s) + 1) :
             LET f == StrFind(s, pat, o)
                 m == StrMatch(s, pat, o)
             IN /\ (f[1] = "nil") = (m[1] = "nil")
                /\ (f[1] = "err") = (m[1] = "err")
                /\ f[1] = "m" =>
                     /\ f[2] >= o /\ f[3] >= f[2] - 1 /\ f[3] <= Len(s)
                     /\ IF f[4] = <<>> THEN m[2] = << <<"s", Sub(s, f[2], f[3])>> >> ELSE m[2] = f[4]
                /\ its[1] =>
                     LET T == IF IsAnchored(pat)
                              THEN (IF Ends(x, its, o) # {} THEN {o} ELSE {})
                              ELSE {t \in o..(Len(s) + 1) : Ends(x, its, t) # {}}
                     IN IF T = {} THEN f = NilR ELSE f[1] = "m" /\ f[2] = Min(T)
        /\ idn[1] = "r" => idn[2] = s
        /\ StrGSub(s, pat, <<"s", <<120>>>>, <<"n", 0>>) = NoSub(s)
        /\ (~IsAnchored(pat) /\ gm[1] = "g") =>
             /\ idn[1] = "r" => idn[3] = Len(gm[2])
             /\ IF gm[2] = <<>> THEN m1 = NilR ELSE m1 = <<"m", gm[2][1]>>
        /\ \A i \in Inits : InitOffset(i, Len(s)) \in 0..Len(s)

(* L5: known results (Lua 5.1 reference manual / test-suite examples)      *)
Vectors ==
    /\ StrFind(<<104,101,108,108,111>>, <<108,43>>, 1) = <<"m", 3, 4, <<>>>>                \* hello, l+
    /\ StrFind(<<104,101,108,108,111>>, <<40,108,41,40,108,41>>, -3)
         = <<"m", 3, 4, << <<"s", <<108>>>>, <<"s", <<108>>>> >> >>
    /\ StrFind(<<97,98,99>>, <<>>, 10) = <<"m", 4, 3, <<>>>>
    /\ StrFind(<<97,98,99>>, <<98,45>>, 2) = <<"m", 2, 1, <<>>>>
    /\ StrFind(<<97,32,98>>, <<91,94,37,115,93,43,36>>, 1) = <<"m", 3, 3, <<>>>>            \* [^%s]+$
    /\ StrFind(<<40,97,40,98,41,41,99>>, <<37,98,40,41>>, 1) = <<"m", 1, 6, <<>>>>          \* %b()
    /\ StrFind(<<97,97,98>>, <<40,97,42,41,37,49,98>>, 1) = <<"m", 1, 3, << <<"s", <<97>>>> >> >>
    /\ StrFind(<<97>>, <<40,41,97,40,41>>, 1) = <<"m", 1, 1, << <<"n", 1>>, <<"n", 2>> >> >>
    /\ StrFind(<<97>>, <<97,37>>, 1)[1] = "err"
    /\ StrFind(<<98>>, <<97,37>>, 1) = NilR
    /\ StrFind(<<97>>, <<40,97>>, 1)[1] = "err"
    /\ StrFind(<<97>>, <<37,49>>, 1)[1] = "err"
    /\ StrFind(<<84,72,69,32,40,113,117,105,99,107,41,32,102,111,120>>,
               <<37,40,40,37,97,43,41,37,41>>, 1)
         = <<"m", 5, 11, << <<"s", <<113,117,105,99,107>>>> >> >>                          \* %((%a+)%)
    /\ StrFind(<<97,93,98>>, <<91,93,93>>, 1) = <<"m", 2, 2, <<>>>>                         \* []]
    /\ StrFind(<<97,45,98>>, <<91,97,45,93,43>>, 1) = <<"m", 1, 2, <<>>>>                   \* [a-]+
    /\ StrFind(<<97,94,98>>, <<97,94>>, 1) = <<"m", 1, 2, <<>>>>                            \* ^ inside
    /\ StrFind(<<97,36,98>>, <<36,98>>, 1) = <<"m", 2, 3, <<>>>>                            \* $ inside
    /\ StrGMatch(<<97,98>>, <<94,97>>) = NoG                                                \* gmatch: no anchor
    /\ StrGMatch(<<94,97>>, <<94,97>>) = <<"g", << << <<"s", <<94,97>>>> >> >> >>
    /\ StrGMatch(<<97,98>>, <<>>) = <<"g", << << <<"s", <<>>>> >>, << <<"s", <<>>>> >>, << <<"s", <<>>>> >> >> >>
    /\ StrGSub(<<97,98,99>>, <<>>, <<"s", <<45>>>>, <<"nil">>) = <<"r", <<45,97,45,98,45,99,45>>, 4, <<>>>>
    /\ StrGSub(<<97,98,99>>, <<37,119>>, <<"s", <<37,48,37,48>>>>, <<"n", 2>>)
         = <<"r", <<97,97,98,98,99>>, 2, <<>>>>
    /\ StrGSub(<<97,98,99>>, <<94,37,119>>, <<"s", <<120>>>>, <<"nil">>) = <<"r", <<120,98,99>>, 1, <<>>>>
    /\ StrGSub(<<97,98>>, <<40,41,37,119>>, <<"s", <<37,49>>>>, <<"nil">>) = <<"r", <<49,50>>, 2, <<>>>>
    /\ StrGSub(<<97,98>>, <<37,119>>, <<"s", <<37,50>>>>, <<"nil">>)[1] = "err"
    /\ StrGSub(<<97,98>>, <<119,42>>, <<"s", <<120>>>>, <<"nil">>) = <<"r", <<120,97,120,98,120>>, 3, <<>>>>
    /\ StrGSub(<<97,98,98>>, <<98,42>>, <<"s", <<120>>>>, <<"nil">>) = <<"r", <<120,97,120,120>>, 3, <<>>>>

ASSUME Vectors
=============================================================================
