---------------------------- MODULE PatternSets ----------------------------
(***************************************************************************)
(* C14: bounded-exhaustive scope dedicated to bracket sets.  A state is the*)
(* body of a set; the pattern judged is "[" body "]" (the body may start   *)
(* with '^', contain ']' first, '%' escapes and '-' in every position      *)
(* relative to ranges: as range start, as range end, after a complete      *)
(* range, leading, trailing, alone, after a %class).  The laws and the     *)
(* export of PatternMC are instantiated on that pattern; subjects are the  *)
(* single bytes adjacent to and between the range bounds.                  *)
(***************************************************************************)
EXTENDS Integers, Sequences, TLC, Json

CONSTANTS PAlpha,    \* bytes of the set body
          SAlpha,    \* subject bytes
          MaxP,      \* maximal length of the body
          MaxS

VARIABLE body
SetPat == <<91>> \o body \o <<93>>

M == INSTANCE PatternMC WITH First <- PAlpha, pat <- SetPat

Init == body = <<>>
Next == Len(body) < MaxP /\ \E c \in PAlpha : body' = Append(body, c)
Spec == Init /\ [][Next]_body

LawWellFormed == M!LawWellFormed
LawRegular == M!LawRegular
LawCaptures == M!LawCaptures
LawDrivers == M!LawDrivers

GenPrint ==
    /\ body = <<>> => PrintT("hdr " \o ToJson(M!Header))
    /\ PrintT("gen " \o ToJson([p |-> SetPat,
                                r |-> [j \in 1..Len(M!SubjSeq) |-> M!Code(M!SubjSeq[j], SetPat)]]))
=============================================================================
