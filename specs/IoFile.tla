------------------------------- MODULE IoFile -------------------------------
(***************************************************************************)
(* Property C19 - the ORACLE: the byte-sequence-with-one-cursor model of   *)
(* ByteFile.tla with a SPARSE content representation, so that files of     *)
(* 4-8 KiB (around the 4096-byte buffers of iolib.go) cost a few integers. *)
(*                                                                         *)
(*   len  length of the file          bl   bytes below bl that were never  *)
(*   ov   overwrites in order of application, <<off, n, kind, tag>>:       *)
(*        kind "w": byte off+j = WByte(tag, j)   kind "z": zero fill       *)
(*   byte i = the LAST overwrite covering i, else BaseByte(lay, i)         *)
(*                                                                         *)
(* Results of reads are run descriptors <<kind, tag, j0, n>>:              *)
(*   <<"b",0,x,n>> base bytes x..x+n-1   <<"w",t,j0,n>> WByte(t, j0..)     *)
(*   <<"z",0,0,n>> n zero bytes                                            *)
(* which the Go driver expands and compares with what the real handle      *)
(* returned.  Apply(st, o) is a pure function (state, operation) ->        *)
(* (state, expected result); Legal(st, o) restricts histories to those the *)
(* property quantifies over (ISO C stream discipline).                     *)
(***************************************************************************)
EXTENDS IoData, Sequences, FiniteSets, SequencesExt

Init0(size, lay) ==
    [ex |-> size >= 0, len |-> IMax(size, 0), bl |-> IMax(size, 0), lay |-> lay, ov |-> <<>>,
     opened |-> FALSE, mode |-> "r", cur |-> 0, closed |-> FALSE,
     last |-> "none",   \* none | read | write : the ISO C direction rule
     buf |-> "no",      \* setvbuf mode
     pend |-> FALSE,    \* written bytes may still sit in the stream buffer
     nw |-> 0,          \* number of writes so far = tag of the next payload
     bsz |-> 0,         \* setvbuf size argument (0 = omitted); no effect on results, kept so that
                        \* generated histories distinguish small stream buffers
     tmp |-> FALSE,     \* the handle came from io.tmpfile(): the file has no path
     it |-> "none"]     \* kept lines() iterator: none | cur (current handle) | old (an earlier handle)

(* ---- sparse content ------------------------------------------------------ *)
Covers(e, x) == e[1] <= x /\ x < e[1] + e[2]

TopAt(ov, x) ==
    LET S == {j \in DOMAIN ov : Covers(ov[j], x)}
    IN IF S = {} THEN 0 ELSE CHOOSE j \in S : \A k \in S : k <= j

(* the maximal uniform segments of [a, b) *)
Segs(st, a, b) ==
    IF a >= b THEN <<>>
    ELSE LET ov == st.ov
             inner == {ov[j][1] : j \in DOMAIN ov} \cup {ov[j][1] + ov[j][2] : j \in DOMAIN ov}
             cuts == SetToSortSeq({a, b} \cup {c \in inner : a < c /\ c < b}, LAMBDA u, v : u < v)
         IN [i \in 1..(Len(cuts) - 1) |->
               LET x == cuts[i]
                   n == cuts[i + 1] - x
                   j == TopAt(ov, x)
               IN IF j = 0 THEN [x |-> x, n |-> n, k |-> "b", t |-> 0, j0 |-> x]
                  ELSE IF ov[j][3] = "z" THEN [x |-> x, n |-> n, k |-> "z", t |-> 0, j0 |-> 0]
                  ELSE [x |-> x, n |-> n, k |-> "w", t |-> ov[j][4], j0 |-> x - ov[j][1]]]

Export(d) == <<d.k, d.t, d.j0, d.n>>
RECURSIVE ExportFrom(_, _)
ExportFrom(s, i) == IF i > Len(s) THEN <<>> ELSE <<Export(s[i])>> \o ExportFrom(s, i + 1)
Data(st, a, b) == <<"data", ExportFrom(Segs(st, a, b), 1)>>

(* offset of the first "\n" inside segment d, -1 when there is none;
   pure arithmetic on the generators of IoData *)
NLBase(lay, x, n) ==
    LET p == IF lay[1] = "num" THEN 2 * lay[2] ELSE lay[2] IN    \* "num": every second separator
    IF lay[1] = "at" THEN (IF x <= p /\ p < x + n THEN p ELSE -1)
    ELSE IF p = 0 THEN -1
    ELSE LET i == x + (p - 1 - (x % p)) IN IF i < x + n THEN i ELSE -1

NLSeg(lay, d) ==
    CASE d.k = "b" -> NLBase(lay, d.x, d.n)
      [] d.k = "z" -> -1
      [] d.k = "w" -> (LET j == d.j0 + (4 - ((d.j0 + d.t) % 5))
                       IN IF j < d.j0 + d.n THEN d.x + (j - d.j0) ELSE -1)

FirstNL(st, a) ==
    LET s == Segs(st, a, st.len)
        H == {i \in DOMAIN s : NLSeg(st.lay, s[i]) # -1}
    IN IF H = {} THEN -1 ELSE NLSeg(st.lay, s[CHOOSE i \in H : \A j \in H : i <= j])

LineAt(st, c) ==
    IF c >= st.len THEN [res |-> <<"eof">>, cur |-> c]
    ELSE LET q == FirstNL(st, c)
         IN IF q = -1 THEN [res |-> Data(st, c, st.len), cur |-> st.len]
            ELSE [res |-> Data(st, c, q), cur |-> q + 1]

RECURSIVE LinesFrom(_, _, _)
LinesFrom(st, c, k) ==
    IF k = 0 THEN [rs |-> <<>>, cur |-> c]
    ELSE LET r == LineAt(st, c) IN
         IF r.res[1] = "eof" THEN [rs |-> <<r.res>>, cur |-> c]
         ELSE LET t == LinesFrom(st, r.cur, k - 1) IN [rs |-> <<r.res>> \o t.rs, cur |-> t.cur]

(* ---- read("*n"): byte-wise, over a bounded window ------------------------ *)
ByteAt(st, i) ==
    LET j == TopAt(st.ov, i)
    IN IF j = 0 THEN BaseByte(st.lay, i)
       ELSE IF st.ov[j][3] = "z" THEN 0 ELSE WByte(st.ov[j][4], i - st.ov[j][1])

MaxWS == 40       \* longest white-space run / numeral a generated history reads across
MaxDigits == 9    \* (values stay inside TLC's 32-bit integers)
RECURSIVE SkipWS(_, _, _)
SkipWS(st, c, fuel) ==
    IF fuel > 0 /\ c < st.len /\ ByteAt(st, c) \in WS THEN SkipWS(st, c + 1, fuel - 1) ELSE c
RECURSIVE Digits(_, _, _, _)
Digits(st, c, acc, fuel) ==
    IF fuel > 0 /\ c < st.len /\ IsDigit(ByteAt(st, c)) THEN Digits(st, c + 1, acc * 10 + (ByteAt(st, c) - 48), fuel - 1)
    ELSE [cur |-> c, v |-> acc]
NumAt(st) ==
    LET c1 == SkipWS(st, st.cur, MaxWS)
        d == Digits(st, c1, 0, MaxDigits)
    IN [c1 |-> c1, cur |-> d.cur, v |-> d.v]
(* the input at the cursor is one the restricted model decides: white space,
   then either end of file or a numeral that ends at white space / end of file *)
NumWellFormed(st) ==
    LET r == NumAt(st) IN
    /\ (r.c1 < st.len => ByteAt(st, r.c1) \notin WS)                      \* window not exhausted
    /\ IF r.cur = r.c1                                                      \* no digit: nil, cursor behind the white space
       THEN r.c1 >= st.len \/ ~NumStartable(ByteAt(st, r.c1))              \* end of file, or a byte no numeral starts with
       ELSE (r.cur < st.len => ByteAt(st, r.cur) \in WS)                    \* numeral delimited

(* overwrites that a later overwrite covers completely can be forgotten *)
RECURSIVE CompactFrom(_, _)
CompactFrom(ov, j) ==
    IF j > Len(ov) THEN <<>>
    ELSE (IF \E k \in (j + 1)..Len(ov) :
                ov[k][1] <= ov[j][1] /\ ov[j][1] + ov[j][2] <= ov[k][1] + ov[k][2]
          THEN <<>> ELSE <<ov[j]>>) \o CompactFrom(ov, j + 1)
CompactOv(ov) == CompactFrom(ov, 1)

(* ---- operations ----------------------------------------------------------- *)
R(st, e) == [st |-> st, exp |-> e]

DoOpen(st, m) ==
    IF MustExist(m) /\ ~st.ex THEN R(st, <<"fail">>)
    ELSE R([st EXCEPT !.ex = TRUE,
                      !.len = IF TruncM(m) THEN 0 ELSE @,
                      !.bl = IF TruncM(m) THEN 0 ELSE @,
                      !.ov = IF TruncM(m) THEN <<>> ELSE @,
                      !.opened = TRUE, !.mode = m, !.closed = FALSE,
                      !.cur = IF AppendM(m) THEN -1 ELSE 0,
                      !.last = "none", !.buf = "no", !.bsz = 0, !.pend = FALSE,
                      !.tmp = (m = "tmp"),
                      !.it = IF @ = "cur" THEN "old" ELSE @],
           <<"ok">>)

DoWrite(st, n) ==
    LET p == IF AppendM(st.mode) THEN st.len ELSE st.cur
        gap == IF p > st.len THEN <<<<st.len, p - st.len, "z", 0>>>> ELSE <<>>
    IN IF n = 0 THEN R([st EXCEPT !.last = "write", !.nw = @ + 1], <<"ok">>)
       ELSE R([st EXCEPT !.ov = CompactOv(@ \o gap \o <<<<p, n, "w", st.nw>>>>),
                         !.len = IMax(@, p + n), !.cur = p + n,
                         !.last = "write", !.pend = (st.pend \/ st.buf # "no"), !.nw = @ + 1],
              <<"ok">>)

DoSeek(st, wh, off) ==
    LET base == CASE wh = "set" -> 0 [] wh = "cur" -> st.cur [] wh = "end" -> st.len
        r == base + off
    IN IF r < 0 THEN R(st, <<"fail">>)
       ELSE R([st EXCEPT !.cur = r, !.last = "none", !.pend = FALSE], <<"num", r>>)

(* A kept iterator (it = f:lines()) is repeated read("*l") on its handle:
   while that handle is open a call returns the next line at the CURRENT
   cursor, once it is closed the call raises (io_readline: "file is already
   closed"). *)
RECURSIVE Apply0(_, _), ReadM(_, _, _), LegalM(_, _, _)
Apply0(st, o) ==
    IF o.op = "open" THEN DoOpen(st, o.a)
    ELSE IF o.op = "peek" THEN R(st, Data(st, 0, st.len))
    ELSE IF o.op = "calliter" THEN
         (IF st.it = "old" \/ st.closed THEN R(st, <<"error">>)
          ELSE LET r == LineAt(st, st.cur) IN R([st EXCEPT !.cur = r.cur, !.last = "read"], r.res))
    ELSE IF st.closed THEN R(st, <<"error">>)
    ELSE IF o.op = "getiter" THEN
         (IF Readable(st.mode) THEN R([st EXCEPT !.it = "cur"], <<"ok">>) ELSE R(st, <<"any">>))
    ELSE IF o.op \in {"read", "readline", "readall", "readnum", "readm", "lines"} /\ ~Readable(st.mode)
         THEN R(st, IF o.op = "lines" THEN <<"any">> ELSE <<"fail">>)
    ELSE IF o.op = "write" /\ ~Writable(st.mode) THEN R(st, <<"fail">>)
    ELSE IF o.op = "flush" /\ ~Writable(st.mode) THEN R(st, <<"any">>)
    ELSE CASE o.op = "read" ->
                (IF st.cur >= st.len THEN R([st EXCEPT !.last = "read"], <<"eof">>)
                 ELSE LET e == IF o.a \in RestCounts THEN st.len ELSE IMin(st.cur + o.n, st.len)
                      IN R([st EXCEPT !.cur = e, !.last = "read"], Data(st, st.cur, e)))
           [] o.op = "readline" ->
                (LET r == LineAt(st, st.cur) IN R([st EXCEPT !.cur = r.cur, !.last = "read"], r.res))
           [] o.op = "readall" ->
                R([st EXCEPT !.cur = IMax(@, st.len), !.last = "read"], Data(st, st.cur, st.len))
           [] o.op = "readnum" ->
                (LET r == NumAt(st)
                 IN IF r.cur = r.c1 THEN R([st EXCEPT !.cur = r.c1, !.last = "read"], <<"eof">>)
                    ELSE R([st EXCEPT !.cur = r.cur, !.last = "read"], <<"num", r.v>>))
           [] o.op = "lines" ->
                (LET r == LinesFrom(st, st.cur, o.n)
                 IN R([st EXCEPT !.cur = r.cur, !.last = "read"], <<"lines", r.rs>>))
           [] o.op = "write" -> DoWrite(st, o.n)
           [] o.op = "seek" -> DoSeek(st, o.a, o.n)
           [] o.op = "flush" -> R([st EXCEPT !.last = "none", !.pend = FALSE], <<"ok">>)
           \* Lua 5.1 f_setvbuf reports success for any open file, read-only handles included
           \* (nothing is buffered there; position and content are unaffected)
           [] o.op = "setvbuf" -> R([st EXCEPT !.buf = o.a, !.bsz = o.n], <<"ok">>)
           [] o.op = "close" -> R([st EXCEPT !.closed = TRUE, !.last = "none", !.pend = FALSE], <<"ok">>)
           [] o.op = "readm" -> ReadM(st, o.fs, 1)

(* f:read(fmt1, fmt2, ..) (liolib.c g_read): formats are processed left to
   right and each pushes its result; the FIRST one that fails pushes nil and
   ends the call: later formats are not evaluated and push nothing, the
   cursor stays where the failing format left it.  "*a" never fails, count 0
   succeeds with "" unless at end of file.  Result <<"multi", <<r1, ..>>>>. *)
ReadM(st, fs, i) ==
    IF i > Len(fs) THEN R([st EXCEPT !.last = "read"], <<"multi", <<>>>>)
    ELSE LET r == Apply0(st, FmtOp(fs[i])) IN
         IF r.exp[1] = "eof" THEN R(r.st, <<"multi", <<r.exp>>>>)
         ELSE LET t == ReadM(r.st, fs, i + 1) IN R(t.st, <<"multi", <<r.exp>> \o t.exp[2]>>)

(* every "*n" that is reached must meet an input the restricted numeral model decides *)
LegalM(st, fs, i) ==
    IF i > Len(fs) THEN TRUE
    ELSE LET o == FmtOp(fs[i]) IN
         /\ (o.op = "readnum" => NumWellFormed(st))
         /\ LET r == Apply0(st, o) IN IF r.exp[1] = "eof" THEN TRUE ELSE LegalM(r.st, fs, i + 1)

(***************************************************************************)
(* The histories the property quantifies over.  ISO C 7.19.5.3: input must *)
(* not directly follow output, nor output input, without an intervening    *)
(* flush / file positioning call (the property: "a seek or flush between a *)
(* read and a following write"); setvbuf only while nothing is buffered;   *)
(* a second handle may look at the file only when nothing is pending; the  *)
(* position of an append stream is unknown (-1) until a seek or a write.   *)
(* Operations on a closed handle are all in scope (they must raise).       *)
(***************************************************************************)
Apply(st, o) == Apply0(st, NormOp(o))

Legal0(st, o) ==
    IF o.op = "open" THEN (~st.opened \/ st.closed) /\ ~st.tmp     \* after a tmpfile the path file is out of the model
    ELSE IF o.op = "peek" THEN st.ex /\ ~st.pend /\ ~st.tmp         \* an anonymous file cannot be opened a second time
    ELSE IF o.op = "calliter" THEN
         /\ st.it # "none"
         /\ (st.it = "old" \/ st.closed \/ (st.last # "write" /\ st.cur # -1))
    ELSE IF o.op = "getiter" THEN st.opened /\ (st.closed \/ Readable(st.mode))
    ELSE /\ st.opened
         /\ \/ st.closed
            \/ CASE o.op \in {"read", "readline", "readall", "lines"} ->
                       Readable(st.mode) => (st.last # "write" /\ st.cur # -1)
                 [] o.op = "readnum" ->
                       Readable(st.mode) => (st.last # "write" /\ st.cur # -1 /\ NumWellFormed(st))
                 [] o.op = "readm" ->
                       Readable(st.mode) => (st.last # "write" /\ st.cur # -1 /\ LegalM(st, o.fs, 1))
                 [] o.op = "write" -> Writable(st.mode) => st.last # "read"
                 [] o.op = "seek" -> o.a = "cur" => st.cur # -1
                 \* ISO C leaves setvbuf after I/O undefined; the choice made here (and by
                 \* glibc, which flushes): it is in scope at any point and must not lose
                 \* output the handle has accepted - the pending bytes stay pending (no
                 \* visibility claim) until the next flush / seek / close
                 [] o.op = "setvbuf" -> TRUE
                 [] OTHER -> TRUE

Legal(st, o) == Legal0(st, NormOp(o))

(* what a step record carries to the driver (pre-state flags: only used to
   name the case when the real code disagrees) *)
StepRec(st, o, e) ==
    [op |-> o.op, a |-> o.a, n |-> o.n, tag |-> st.nw, exp |-> e,
     fs |-> IF "fs" \in DOMAIN o THEN o.fs ELSE <<>>,
     pre |-> [closed |-> st.closed, mode |-> st.mode, pend |-> st.pend]]

(* the file on disk once the handle is closed *)
Final(st) == IF st.tmp THEN <<"skip">> ELSE IF st.ex THEN Data(st, 0, st.len) ELSE <<"absent">>
=============================================================================
