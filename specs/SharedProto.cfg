SPECIFICATION Spec
CONSTANTS
  NStates = 3
  Sites = {1, 2}
  Callees = {"a", "b"}
INVARIANTS Immutable OwnName
CHECK_DEADLOCK FALSE
