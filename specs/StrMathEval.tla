---------------------------- MODULE StrMathEval -----------------------------
(***************************************************************************)
(* Property C15: one library call as a function of its argument values.    *)
(*   Eval(f, args) = <<"ok", <<results>>>> | <<"err">> | <<"undef">>       *)
(* args and results are value tokens:                                      *)
(*   <<"s", bytes>>  <<"n", i>>  <<"q", m, e>>  <<"inf", s>>  <<"nan">>    *)
(*   <<"nil">>  <<"b", TRUE>>                                              *)
(* The argument conversions are those of lauxlib (luaL_checklstring        *)
(* accepts numbers, luaL_checkinteger / luaL_checknumber accept numeric    *)
(* strings, luaL_opt* treats nil like an absent argument; surplus          *)
(* arguments are ignored).  "undef" = not decided by this specification    *)
(* (platform dependent, ISO C undefined, floating point needed, pattern    *)
(* matching = property C14): never judged.  Error messages are not         *)
(* specified.                                                              *)
(***************************************************************************)
EXTENDS StrLib, MathLib, SequencesExt

Nil == <<"nil">>
None == <<"none">>
VOk(v) == <<"ok", v>>
VErr == <<"err">>
VUndef == <<"undef">>
S(b) == <<"s", AsSeq(b)>>
N(i) == <<"n", i>>

Arg(args, k) == IF k <= Len(args) THEN args[k] ELSE None
NoneOrNil(a) == a[1] \in {"none", "nil"}
Truthy(a) == ~(NoneOrNil(a) \/ (a[1] = "b" /\ a[2] = FALSE))

(* numeric strings: only the plain decimal integer form is modelled; the   *)
(* empty string and strings of letters x y z are certainly not numerals    *)
IsDecInt(b) ==
    LET ds == IF Len(b) > 0 /\ b[1] = 45 THEN Tail(b) ELSE b
    IN Len(ds) \in 1..9 /\ \A k \in 1..Len(ds) : IsDigit(ds[k])
DecToInt(b) == IF b[1] = 45 THEN -DecVal(Tail(b)) ELSE DecVal(b)
NotNumeral(b) == \A k \in 1..Len(b) : b[k] \in {120, 121, 122}

(* number -> string as lua_tolstring ("%.14g") for integers and small      *)
(* dyadic fractions                                                        *)
RECURSIVE FracDigits(_, _)
FracDigits(r, den) ==
    IF r = 0 THEN <<>>
    ELSE <<48 + ((r * 10) \div den)>> \o FracDigits((r * 10) % den, den)
FracToStr(m, e) ==                          \* e in -7..-1, m odd
    LET den == 2 ^ (-e)
        mag == Abs(m)
    IN (IF m < 0 THEN <<45>> ELSE <<>>) \o DigitsOf(mag \div den, 10, FALSE)
       \o <<46>> \o FracDigits(mag % den, den)

(* argument conversions: <<"ok", v>> / <<"err">> / <<"undef">> *)
AStr(a) ==
    CASE a[1] = "s" -> VOk(a[2])
      [] a[1] = "n" -> VOk(IntToDec(a[2]))
      [] a[1] = "q" -> (IF a[3] < 0 /\ SmallNum(a) THEN VOk(FracToStr(a[2], a[3])) ELSE VUndef)
      [] a[1] \in {"inf", "nan", "nz"} -> VUndef              \* tostring of these: property C16
      [] OTHER -> VErr
StrAsInt(b) == IF IsDecInt(b) THEN VOk(DecToInt(b)) ELSE IF NotNumeral(b) THEN VErr ELSE VUndef
(* luaL_checkinteger: the rounding of non-integral numbers depends on the platform *)
AInt(a) ==
    CASE a[1] = "n" -> VOk(a[2])
      [] a[1] = "nz" -> VOk(0)
      [] a[1] \in {"q", "inf", "nan"} -> VUndef
      [] a[1] = "s" -> StrAsInt(a[2])
      [] OTHER -> VErr
AOptInt(a, d) == IF NoneOrNil(a) THEN VOk(d) ELSE AInt(a)
(* luaL_checknumber as a number token *)
ANum(a) ==
    CASE a[1] \in {"n", "q"} -> (IF SmallNum(a) THEN VOk(a) ELSE VUndef)
      [] a[1] \in {"inf", "nz"} -> VOk(a)
      [] a[1] = "nan" -> VUndef
      [] a[1] = "s" -> (LET r == StrAsInt(a[2]) IN
                        IF r[1] # "ok" THEN r ELSE IF SmallNum(N(r[2])) THEN VOk(N(r[2])) ELSE VUndef)
      [] OTHER -> VErr
(* luaL_checknumber where a NaN is a defined argument too (pow, the operators) *)
ANumS(a) == IF a[1] = "nan" THEN VOk(a) ELSE ANum(a)
(* luaL_checknumber for ldexp / frexp: any representable dyadic double *)
ANumWide(a) ==
    CASE a[1] \in {"n", "q"} -> (IF WideNum(a) /\ Representable(a) THEN VOk(a) ELSE VUndef)
      [] OTHER -> ANum(a)
(* (double)luaL_checknumber as the view the floating conversions of format use *)
FinOf(i) == <<"fin", i < 0, Abs(i), 0>>
AFlt(a) ==
    CASE a[1] = "n" -> VOk(FinOf(a[2]))
      [] a[1] = "q" -> (IF a[2] >= -1073741823 /\ a[2] <= 1073741823 /\ a[3] >= -16 /\ a[3] <= 64
                        THEN VOk(<<"fin", a[2] < 0, Abs(a[2]), a[3]>>) ELSE VUndef)
      [] a[1] = "inf" -> VOk(<<"inf", a[2] < 0>>)
      [] a[1] = "nz" -> VOk(<<"fin", TRUE, 0, 0>>)
      [] a[1] = "nan" -> VUndef
      [] a[1] = "s" -> (LET r == StrAsInt(a[2]) IN IF r[1] # "ok" THEN r ELSE VOk(FinOf(r[2])))
      [] OTHER -> VErr
(* (long)luaL_checknumber: C conversion truncates toward zero *)
ALong(a) ==
    CASE a[1] = "n" -> VOk(a[2])
      [] a[1] = "q" -> (IF SmallNum(a) THEN VOk(Tok(DTrunc(D(a)))[2]) ELSE VUndef)
      [] a[1] = "nz" -> VOk(0)
      [] a[1] \in {"inf", "nan"} -> VUndef
      [] a[1] = "s" -> StrAsInt(a[2])
      [] OTHER -> VErr

Status(cs) ==
    IF \E k \in 1..Len(cs) : cs[k][1] = "undef" THEN "undef"
    ELSE IF \E k \in 1..Len(cs) : cs[k][1] = "err" THEN "err"
    ELSE "ok"

MWrap(r) == r                              \* Def(..) / Undef of MathLib are already in this form

Eval(f, args) ==
    LET a1 == Arg(args, 1)
        a2 == Arg(args, 2)
        a3 == Arg(args, 3)
        a4 == Arg(args, 4)
    IN
    CASE f = "sub" ->
           (LET s == AStr(a1)  i == AInt(a2)  j == AOptInt(a3, -1)  st == Status(<<s, i, j>>)
            IN IF st # "ok" THEN <<st>> ELSE VOk(<<S(Sub(s[2], i[2], j[2]))>>))
      [] f = "byte" ->
           (LET s == AStr(a1)  i == AOptInt(a2, 1)  j == AOptInt(a3, 0)  st == Status(<<s, i, j>>)
            IN IF st # "ok" THEN <<st>>
               ELSE LET bs == ByteRange(s[2], i[2], IF NoneOrNil(a3) THEN <<>> ELSE <<j[2]>>)
                    IN VOk(AsSeq([k \in 1..Len(bs) |-> N(bs[k])])))
      [] f = "char" ->
           (LET cs == [k \in 1..Len(args) |-> AInt(args[k])]  st == Status(cs)
            IN IF st # "ok" THEN <<st>>
               ELSE LET bs == [k \in 1..Len(args) |-> cs[k][2]]
                    IN IF CharOK(bs) THEN VOk(<<S(bs)>>) ELSE VErr)
      [] f = "len" ->
           (LET s == AStr(a1) IN IF s[1] # "ok" THEN s ELSE VOk(<<N(Len(s[2]))>>))
      [] f = "rep" ->
           (LET s == AStr(a1)  n == AInt(a2)  st == Status(<<s, n>>)
            IN IF st # "ok" THEN <<st>>
               ELSE IF n[2] > 0 /\ n[2] * Len(s[2]) > 4096 THEN VUndef
               ELSE VOk(<<S(Rep(s[2], n[2]))>>))
      [] f = "reverse" ->
           (LET s == AStr(a1) IN IF s[1] # "ok" THEN s ELSE VOk(<<S(RevStr(s[2]))>>))
      [] f = "upper" ->
           (LET s == AStr(a1) IN IF s[1] # "ok" THEN s ELSE VOk(<<S(Upper(s[2]))>>))
      [] f = "lower" ->
           (LET s == AStr(a1) IN IF s[1] # "ok" THEN s ELSE VOk(<<S(Lower(s[2]))>>))
      [] f = "find" ->
           (LET s == AStr(a1)  p == AStr(a2)  i == AOptInt(a3, 1)  st == Status(<<s, p, i>>)
            IN IF st # "ok" THEN <<st>>
               ELSE IF ~Truthy(a4) /\ ~PatIsLiteral(p[2]) THEN VUndef     \* pattern matching: C14
               ELSE LET r == FindPlain(s[2], p[2], i[2])
                    IN IF r = <<>> THEN VOk(<<Nil>>) ELSE VOk(<<N(r[1]), N(r[2])>>))
      [] f = "format" ->
           (LET s == AStr(a1) IN
            IF s[1] # "ok" THEN s
            ELSE LET nums == [k \in 1..(Len(args) - 1) |-> ALong(args[k + 1])]
                     strs == [k \in 1..(Len(args) - 1) |-> AStr(args[k + 1])]
                     flts == [k \in 1..(Len(args) - 1) |-> AFlt(args[k + 1])]
                     r == Format(s[2], nums, strs, flts)
                 IN IF r[1] # "ok" THEN r ELSE VOk(<<S(r[2])>>))
      [] f \in {"floor", "ceil", "abs", "modf", "frexp", "sqrt"} ->
           (LET x == IF f = "frexp" THEN ANumWide(a1) ELSE ANum(a1) IN
            IF x[1] # "ok" THEN x
            ELSE CASE f = "floor" -> VOk(MFloor(x[2]))
                   [] f = "ceil" -> VOk(MCeil(x[2]))
                   [] f = "abs" -> VOk(MAbs(x[2]))
                   [] f = "modf" -> VOk(MModf(x[2]))
                   [] f = "frexp" -> MWrap(MFrexp(x[2]))
                   [] f = "sqrt" -> MWrap(MSqrt(x[2])))
      [] f \in {"fmod", "mod", "pow"} ->                         \* math.mod is the old name of math.fmod
           (LET x == ANumS(a1)  y == ANumS(a2)  st == Status(<<x, y>>)
            IN IF st # "ok" THEN <<st>>
               ELSE IF f = "pow" THEN MWrap(MPow(x[2], y[2])) ELSE VOk(MFmod(x[2], y[2])))
      [] f \in {"op+", "op-", "op*", "op/", "op%", "op^"} ->        \* a <op> b with both operands in locals
           (LET x == ANumS(a1)  y == ANumS(a2)  st == Status(<<x, y>>)
            IN IF st # "ok" \/ Len(args) # 2 THEN <<IF st = "ok" THEN "undef" ELSE st>>
               ELSE CASE f = "op+" -> VOk(<<MAdd(x[2], y[2])>>)
                      [] f = "op-" -> VOk(<<MSub(x[2], y[2])>>)
                      [] f = "op*" -> VOk(<<MMul(x[2], y[2])>>)
                      [] f = "op/" -> MWrap(MDiv(x[2], y[2]))
                      [] f = "op%" -> MWrap(MMod(x[2], y[2]))
                      [] f = "op^" -> MWrap(MPow(x[2], y[2])))
      [] f = "opneg" ->
           (LET x == ANumS(a1) IN IF x[1] # "ok" \/ Len(args) # 1 THEN <<IF x[1] = "ok" THEN "undef" ELSE x[1]>>
                                  ELSE VOk(<<MNeg(x[2])>>))
      [] f \in {"log10", "log", "exp"} ->
           (* only the arguments with an exact result: the double nearest to 10^k (token <<"p10", k>>), 1, 0, the infinities *)
           (IF a1[1] = "p10" THEN (IF f = "log10" /\ Len(args) = 1 THEN VOk(<<N(a1[2])>>) ELSE VUndef)
            ELSE LET x == ANum(a1) IN
                 IF x[1] # "ok" THEN x
                 ELSE IF f = "exp"
                      THEN (CASE IsZeroTok(x[2]) -> VOk(<<N(1)>>)
                              [] x[2] = Inf(1) -> VOk(<<Inf(1)>>)
                              [] x[2] = Inf(-1) -> VOk(<<PosZero>>)
                              [] OTHER -> VUndef)
                      ELSE (CASE IsZeroTok(x[2]) -> VOk(<<Inf(-1)>>)                  \* log(+-0) = -inf
                              [] x[2] = N(1) -> VOk(<<PosZero>>)
                              [] x[2] = Inf(1) -> VOk(<<Inf(1)>>)
                              [] SignNeg(x[2]) -> VOk(<<NaN>>)
                              [] OTHER -> VUndef))
      [] f \in {"deg", "rad"} ->
           (* <<"degrad", isDeg, x>>: the observed double is judged by MathLib!DegRadOK *)
           (LET x == ANumWide(a1) IN
            IF x[1] # "ok" THEN x
            ELSE IF ~IsFinite(x[2]) \/ D(x[2]).m = 0 THEN VOk(<<x[2]>>)                 \* +-0 and +-inf are kept
            ELSE LET n == NormME(D(x[2]).m, D(x[2]).e) IN
                 IF n.e < -1000 \/ n.e + BitLen(Abs(n.m)) > (IF f = "deg" THEN 1017 ELSE 1023) THEN VUndef   \* may leave the normal range
                 ELSE <<"degrad", f = "deg", x[2]>>)
      [] f = "huge" -> VOk(<<Inf(1)>>)                            \* math.huge = HUGE_VAL
      [] f = "pi" -> VOk(<<<<"x", "3.141592653589793">>>>)          \* the double nearest to pi
      [] f = "ldexp" ->
           (LET x == ANumWide(a1)  k == AInt(a2)  st == Status(<<x, k>>)
            IN IF st # "ok" THEN <<st>>
               ELSE IF k[2] < -5000 \/ k[2] > 5000 THEN VUndef
               ELSE VOk(MLdexp(x[2], k[2])))
      [] f \in {"max", "min"} ->
           (IF Len(args) = 0 THEN VErr
            ELSE LET xs == [k \in 1..Len(args) |-> ANum(args[k])]  st == Status(xs)
                 IN IF st # "ok" THEN <<st>>
                    ELSE LET ts == [k \in 1..Len(args) |-> xs[k][2]]
                         IN IF f = "max" THEN VOk(MMax(ts)) ELSE VOk(MMin(ts)))
      [] f = "random" ->
           (* <<"random", lo, hi>>: any integer of lo..hi is admissible *)
           (IF Len(args) = 0 \/ Len(args) > 2 THEN VUndef
            ELSE LET lo == IF Len(args) = 1 THEN VOk(1) ELSE AInt(a1)
                     hi == IF Len(args) = 1 THEN AInt(a1) ELSE AInt(a2)
                     st == Status(<<lo, hi>>)
                 IN IF st # "ok" THEN <<st>>
                    ELSE IF RandomEmpty(lo[2], hi[2]) THEN VErr
                    ELSE <<"random", lo[2], hi[2]>>)
      [] OTHER -> VUndef

(* the text of one format directive: % flags width precision conversion    *)
Directive(fl, wd, pd, conv) == <<37>> \o SetToSeq(fl) \o wd \o pd \o <<conv>>

(* does the specification admit the observed outcome obs of f(args)?       *)
(*   "ok" admitted, "bad" rejected, "skip" not decided by the spec         *)
Judge(f, args, obs) ==
    LET e == Eval(f, args) IN
    CASE e[1] = "undef" -> "skip"
      [] e[1] = "random" ->
           (IF obs[1] = "ok" /\ Len(obs[2]) = 1 /\ RandomAdmits(e[2], e[3], obs[2][1])
            THEN "ok" ELSE "bad")
      [] e[1] = "degrad" ->
           (IF obs[1] = "ok" /\ Len(obs[2]) = 1 /\ obs[2][1][1] = "w"
            THEN (IF obs[2][1][3] = <<0, 0, 0, 0, 1>> THEN "skip"            \* below a power of two the half-ulp changes
                  ELSE IF DegRadOK(e[2], e[3], obs[2][1]) THEN "ok" ELSE "bad")
            ELSE "bad")
      [] OTHER -> (IF obs = e THEN "ok" ELSE "bad")

(* the expectation in printable form (what GEN exports and a verdict shows) *)
Expect(f, args) == Eval(f, args)
=============================================================================
