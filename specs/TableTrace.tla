----------------------------- MODULE TableTrace -----------------------------
(***************************************************************************)
(* Trace validation for property C09.  Each line of File is one history    *)
(* executed on the real table: the operations, what every read path,       *)
(* length path and traversal path returned afterwards.  The abstract map   *)
(* of module Table is advanced by each event and every observation must be *)
(* admissible.  One TLC run validates all histories (Init picks the index);*)
(* every history ends in exactly one VERDICT line.                         *)
(***************************************************************************)
EXTENDS Integers, Sequences, FiniteSets, TLC, Json

CONSTANT File
Data == ndJsonDeserialize(File)

INSTANCE Table WITH Keys <- {}, Vals <- {}

VARIABLES idx, pos, m, trav, bad
vars == <<idx, pos, m, trav, bad>>

UU(i) == Data[i].U
USet(i) == {UU(i)[j] : j \in 1..Len(UU(i))}

Init ==
    /\ idx \in 1..Len(Data)
    /\ pos = 1
    /\ m = [k \in USet(idx) |-> Nil]
    /\ trav = NoTrav
    /\ bad = <<>>

Ev == Data[idx].ev

(* first failing observation of event e against the abstract map mm, or "" *)
RbBad(rb, mm) == {j \in 1..Len(UU(idx)) : rb[j] # mm[UU(idx)[j]]}
ObsFail(e, mm) ==
    IF "rb1" \notin DOMAIN e THEN <<>> ELSE
    CASE RbBad(e.rb1, mm) # {} -> <<"rb1", UU(idx)[CHOOSE j \in RbBad(e.rb1, mm) : TRUE]>>
      [] RbBad(e.rb2, mm) # {} -> <<"rb2", UU(idx)[CHOOSE j \in RbBad(e.rb2, mm) : TRUE]>>
      [] RbBad(e.rb3, mm) # {} -> <<"rb3", UU(idx)[CHOOSE j \in RbBad(e.rb3, mm) : TRUE]>>
      [] \E i \in 1..Len(e.len) : ~IsBorder(mm, e.len[i]) ->
            <<"len", CHOOSE i \in 1..Len(e.len) : ~IsBorder(mm, e.len[i])>>
      [] \E i \in 1..Len(e.trav) : ~IsTraversalOf(mm, e.trav[i]) ->
            <<"trav", CHOOSE i \in 1..Len(e.trav) : ~IsTraversalOf(mm, e.trav[i])>>
      [] e.ipairs # IPairs(mm) -> <<"ipairs", 0>>
      [] OTHER -> <<>>

(* the abstract post-state of event e *)
Good(mm) == [ok |-> TRUE, m |-> mm, why |-> ""]
Bad(w) == [ok |-> FALSE, m |-> m, why |-> w]
SetPost(e) ==
    IF BadStoreKey(e.k)
    THEN (IF e.err THEN Good(m) ELSE Bad("store under nil/NaN key did not fail"))
    ELSE IF e.err THEN Bad("store failed")
    ELSE Good(Store(m, e.k, e.v))

Borders == {b \in 0..(Cardinality(USet(idx)) + 1) : IsBorder(m, b)}
AppendPost(e) ==
    IF e.v = Nil THEN Good(m)
    ELSE LET cands == {b \in Borders : <<"n", b + 1>> \in USet(idx) /\
                          RbBad(e.rb1, Store(m, <<"n", b + 1>>, e.v)) = {}}
         IN IF cands = {} THEN Bad("append did not store at border+1")
            ELSE Good(Store(m, <<"n", (CHOOSE b \in cands : TRUE) + 1>>, e.v))

Step ==
    /\ bad = <<>>
    /\ pos <= Len(Ev)
    /\ LET e == Ev[pos] IN
       /\ idx' = idx
       /\ IF e.op = "next"
          THEN LET tr == IF trav.on THEN trav ELSE StartTrav(m) IN
               /\ m' = m
               /\ IF ~trav.on /\ e.k # Nil
                  THEN \* the traversal was invalidated by an insertion and the
                       \* driver continues it: undefined by Lua, not judged
                       /\ trav' = NoTrav
                       /\ bad' = <<>>
                       /\ pos' = pos + 1
                  ELSE IF e.k = tr.last /\ NextOK(tr, m, e.rk, e.rv)
                  THEN /\ trav' = TravAfterNext(tr, e.rk)
                       /\ bad' = <<>>
                       /\ pos' = pos + 1
                  ELSE /\ trav' = trav
                       /\ bad' = <<pos, "next", e.rk>>
                       /\ pos' = pos
          ELSE LET post == IF e.op = "set" THEN SetPost(e) ELSE AppendPost(e)
               IN IF ~post.ok
                  THEN /\ bad' = <<pos, post.why, <<>>>>
                       /\ UNCHANGED <<m, trav, pos>>
                  ELSE LET f == ObsFail(e, post.m) IN
                       IF f # <<>>
                       THEN /\ bad' = <<pos, f[1], f[2]>>
                            /\ UNCHANGED <<m, trav, pos>>
                       ELSE /\ m' = post.m
                            /\ trav' = IF e.op = "set" /\ ~BadStoreKey(e.k)
                                       THEN TravAfterStore(trav, m, e.k, e.v)
                                       ELSE IF e.op = "append" /\ e.v # Nil THEN NoTrav ELSE trav
                            /\ bad' = <<>>
                            /\ pos' = pos + 1

Spec == Init /\ [][Step]_vars

Terminal == bad # <<>> \/ pos > Len(Ev)

Verdict ==
    Terminal => PrintT("VERDICT " \o ToJson(
        [id |-> Data[idx].id, ok |-> bad = <<>>, n |-> Len(Ev),
         bad |-> IF bad = <<>> THEN <<0, "", <<>>>> ELSE bad]))
=============================================================================
