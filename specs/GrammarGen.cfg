SPECIFICATION Spec
INVARIANTS Classify Sanity
CHECK_DEADLOCK FALSE
