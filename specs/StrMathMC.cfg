SPECIFICATION Spec
INVARIANTS StrLaws FindLaws FmtLaws NumLaws FltLaws WideLaws SzLaws
CHECK_DEADLOCK FALSE
CONSTANTS
  Scopes = {"str", "find", "fmt", "num", "flt", "wide", "sz"}
  Win = 2
  AlphaStr = {0, 65, 97, 122, 200}
  LenStr = 3
  AlphaFind = {0, 97, 255}
  LenFind = 4
  PatFind = 3
  GridM = 12
  GridNeg = 3
  GridHi = 2
