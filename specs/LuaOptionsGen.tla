---------------------------- MODULE LuaOptionsGen ----------------------------
(***************************************************************************)
(* Enumerates the raw option tuples of the C12 configuration sweep, checks *)
(* the laws of module LuaOptions on each and prints the prediction         *)
(* (normalised options of the state and of a thread, limits) as one GEN    *)
(* line per tuple.                                                         *)
(***************************************************************************)
EXTENDS LuaOptions, Sequences, TLC, Json

CONSTANTS CssSet0, RsSet0, RgsSet0, Extra  \* Extra: TRUE adds negative / odd raw values

Neg == IF Extra THEN {-1} ELSE {}
CssSet == CssSet0 \cup Neg
RsSet == RsSet0 \cup Neg
RgsSet == RgsSet0 \cup Neg

VARIABLE raw

EffRs(rs) == IF rs < MinRegistrySize THEN DefaultRegistrySize ELSE rs
EffStep(g) == IF g < 1 THEN DefaultGrowStep ELSE g
RmsFor(rs, g) == LET s == EffRs(rs) IN
    {0, s - 1, s, s + 1, s + EffStep(g), 10 * s} \cup (IF Extra THEN {-1, 1} ELSE {})

Tuples ==
    {[css |-> c, rs |-> r, rms |-> m, rgs |-> g, msm |-> b] :
        c \in CssSet, r \in RsSet, g \in RgsSet, b \in BOOLEAN,
        m \in UNION {RmsFor(r2, g2) : r2 \in RsSet, g2 \in RgsSet}}
Valid(t) == t.rms \in RmsFor(t.rs, t.rgs)

Init == raw \in {t \in Tuples : Valid(t)}
Next == UNCHANGED raw
Spec == Init /\ [][Next]_raw

LawsHold == Laws(raw)
GenLine == PrintT("GEN " \o ToJson([raw |-> raw, norm |-> Normalise(raw),
                                   thread |-> ThreadOptions(Normalise(raw)),
                                   auto |-> Normalise(raw).msm,
                                   lim |-> Limits(raw)]))
=============================================================================
