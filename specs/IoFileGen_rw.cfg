SPECIFICATION Spec
CONSTANTS
  Sizes = {4095, 4096, 4097}
  Lays <- MC_BigLays
  Modes = {"r+", "w+", "a+"}
  RCounts = {0, 1, 4096, 5000}
  WCounts = {0, 1, 4096, 5000}
  SOffs <- MC_BigSOffs
  VBufs = {"full"}
  MFmts <- MC_None
  VSizes = {0}
  Extra <- MC_AllExtra
  Naive = FALSE
  Gen = TRUE
VIEW genview
ACTION_CONSTRAINT GenPrint
CHECK_DEADLOCK FALSE
