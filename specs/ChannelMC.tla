----------------------------- MODULE ChannelMC -----------------------------
(***************************************************************************)
(* Exhaustive exploration of module Channel (property C13): NP processes   *)
(* issue, in every order and every interleaving, up to MaxOps operations   *)
(* each (send / refused send / receive / close / select) on the channels   *)
(* of capacities Caps.  The k-th value offered by process p is the         *)
(* distinguishable payload <<"n", 10p+k>>.                                 *)
(*                                                                         *)
(* The laws below are stated over the HISTORY of completed operations      *)
(* (h.sent, h.rcvd, h.closedAt), not over the guards of the actions, so    *)
(* they are an independent check that Channel is a credible oracle:        *)
(* exactly-once, FIFO, no receive from the future, closed-channel rules,   *)
(* select fires only ready cases, refused payloads never travel.           *)
(***************************************************************************)
EXTENDS Channel, TLC, Json

CONSTANTS NP,        \* number of processes
          NC, Cap1, Cap2,   \* number of channels (1 or 2) and their capacities
          MaxOps,    \* operations per process
          MaxSend,   \* values offered per process
          WithSel    \* select operations in the menu: 0 none, 1 a small set of shapes, 2 all shapes

Caps == IF NC = 1 THEN <<Cap1>> ELSE <<Cap1, Cap2>>
Procs == 1..NP
Chans == 1..Len(Caps)

VARIABLES chs, pend, nops, nsent, h, seen
vars == <<chs, pend, nops, nsent, h, seen>>
view == <<chs, pend, nops, nsent, h>>

MkOp(o, c, v, cases) == [op |-> o, c |-> c, v |-> v, cases |-> cases]
NoOp == MkOp("none", 0, Nil, <<>>)
MkCase(d, c, v) == [d |-> d, c |-> c, v |-> v]

Val(p) == <<"n", 10 * p + nsent[p] + 1>>
Sender(v) == v[2] \div 10

H0 == [sent |-> [c \in Chans |-> <<>>], rcvd |-> [c \in Chans |-> <<>>],
       closedAt |-> [c \in Chans |-> -1], broken |-> ""]

Init ==
    /\ chs = [c \in Chans |-> NewChan]
    /\ pend = [p \in Procs |-> NoOp]
    /\ nops = [p \in Procs |-> 0]
    /\ nsent = [p \in Procs |-> 0]
    /\ h = H0
    /\ seen = {}

(* ---- the menu of operations a process may issue ------------------------ *)
SelShapes(p) ==
    LET R(c) == MkCase("recv", c, Nil)
        S(c) == MkCase("send", c, Val(p))
        D == MkCase("default", 0, Nil)
        B == MkCase("send", 1, <<"ud">>)
    IN  IF WithSel = 1
        THEN {<<R(c), D>> : c \in Chans} \cup {<<R(1), B>>}
             \cup (IF nsent[p] < MaxSend
                   THEN {<<S(c), D>> : c \in Chans} \cup {<<S(c), R(d)>> : c, d \in Chans}
                   ELSE {})
        ELSE {<<R(c), D>> : c \in Chans}
             \cup {<<R(c), R(d)>> : c, d \in Chans}
             \cup {<<R(1), B>>}
             \cup (IF nsent[p] < MaxSend
                   THEN {<<S(c), D>> : c \in Chans} \cup {<<S(c), R(d)>> : c, d \in Chans}
                        \cup {<<R(c), S(d), D>> : c, d \in Chans}
                   ELSE {})

Menu(p) ==
    (IF nsent[p] < MaxSend THEN {MkOp("send", c, Val(p), <<>>) : c \in Chans} ELSE {})
    \cup {MkOp("send", 1, <<"fn">>, <<>>)}
    \cup {MkOp("recv", c, Nil, <<>>) : c \in Chans}
    \cup {MkOp("close", c, Nil, <<>>) : c \in Chans}
    \cup (IF WithSel > 0 THEN {MkOp("select", 0, Nil, cs) : cs \in SelShapes(p)} ELSE {})

UsesVal(op) ==
    \/ op.op = "send" /\ Admissible(op.v)
    \/ op.op = "select" /\ \E i \in 1..Len(op.cases) : op.cases[i].d = "send" /\ Admissible(op.cases[i].v)

(* ---- history and the laws stated on it --------------------------------- *)
Brk(hh, cond, name) == IF hh.broken = "" /\ ~cond THEN [hh EXCEPT !.broken = name] ELSE hh
InFlight(hh, c) == Len(hh.sent[c]) - Len(hh.rcvd[c])

CaseIdle(hh, cs) ==
    CASE cs.d = "recv" -> hh.closedAt[cs.c] < 0 /\ InFlight(hh, cs.c) = 0
      [] cs.d = "send" -> hh.closedAt[cs.c] < 0 /\ InFlight(hh, cs.c) >= Caps[cs.c]
      [] OTHER -> TRUE

ErrJustified(hh, op) ==
    CASE op.op = "send" -> ~Admissible(op.v) \/ hh.closedAt[op.c] >= 0
      [] op.op = "close" -> hh.closedAt[op.c] >= 0
      [] op.op = "select" ->
            (SelBad(op.cases) \/ \E i \in 1..Len(op.cases) :
                                    op.cases[i].d = "send" /\ hh.closedAt[op.cases[i].c] >= 0)
      [] OTHER -> FALSE

Note(hh, op, res) ==
    LET e == Effect(op, res) IN
    CASE e[1] = "sent" ->
            Brk(Brk([hh EXCEPT !.sent[e[2]] = Append(@, e[3])],
                    hh.closedAt[e[2]] < 0, "a send succeeded after close"),
                Admissible(e[3]), "an inadmissible payload was sent")
      [] e[1] = "rcvd" ->
            Brk([hh EXCEPT !.rcvd[e[2]] = Append(@, e[3])],
                /\ Len(hh.rcvd[e[2]]) < Len(hh.sent[e[2]])
                /\ hh.sent[e[2]][Len(hh.rcvd[e[2]]) + 1] = e[3],
                "received value is not the oldest undelivered value")
      [] e[1] = "eof" ->
            Brk(hh, hh.closedAt[e[2]] >= 0 /\ InFlight(hh, e[2]) = 0,
                "closure reported on an open or undrained channel")
      [] e[1] = "closed" ->
            Brk([hh EXCEPT !.closedAt[e[2]] = Len(hh.sent[e[2]])],
                hh.closedAt[e[2]] < 0, "close succeeded twice")
      [] e[1] = "dflt" ->
            Brk(hh, \A i \in 1..Len(op.cases) : CaseIdle(hh, op.cases[i]),
                "default taken while a case was ready")
      [] OTHER -> Brk(hh, ErrJustified(hh, op), "unjustified error")

Kind(op, res) ==
    LET e == Effect(op, res) IN
    IF e[1] = "none" THEN (IF op.op = "select" THEN "selerr" ELSE op.op \o "err")
    ELSE IF op.op = "select" THEN "sel" \o e[1] ELSE e[1]

(* ---- actions ------------------------------------------------------------ *)
Issue(p) ==
    /\ pend[p] = NoOp
    /\ nops[p] < MaxOps
    /\ \E op \in Menu(p) :
         /\ pend' = [pend EXCEPT ![p] = op]
         /\ nsent' = IF UsesVal(op) THEN [nsent EXCEPT ![p] = @ + 1] ELSE nsent
    /\ nops' = [nops EXCEPT ![p] = @ + 1]
    /\ seen' = {}
    /\ UNCHANGED <<chs, h>>

Complete(p) ==
    /\ pend[p] # NoOp
    /\ \E o \in Solo(chs, Caps, pend[p]) :
         /\ chs' = o.chs
         /\ h' = Note(h, pend[p], o.res)
         /\ seen' = {Kind(pend[p], o.res)}
    /\ pend' = [pend EXCEPT ![p] = NoOp]
    /\ UNCHANGED <<nops, nsent>>

Pair(s, r) ==
    /\ s # r
    /\ pend[s] # NoOp /\ pend[r] # NoOp
    /\ \E x \in HandOffs(chs, Caps, pend[s], pend[r]) :
         /\ h' = Note(Note(h, pend[s], x.rs), pend[r], x.rr)
         /\ seen' = {"handoff", Kind(pend[s], x.rs), Kind(pend[r], x.rr)}
    /\ pend' = [pend EXCEPT ![s] = NoOp, ![r] = NoOp]
    /\ UNCHANGED <<chs, nops, nsent>>

Next ==
    \/ \E p \in Procs : Issue(p) \/ Complete(p)
    \/ \E s, r \in Procs : Pair(s, r)

Spec == Init /\ [][Next]_vars

(* ---- laws ---------------------------------------------------------------- *)
IsPrefix(a, b) == Len(a) <= Len(b) /\ \A i \in 1..Len(a) : a[i] = b[i]
RECURSIVE Filter(_, _)
Filter(s, p) == IF s = <<>> THEN <<>>
                ELSE (IF Sender(Head(s)) = p THEN <<Head(s)>> ELSE <<>>) \o Filter(Tail(s), p)
Distinct(s) == \A i, j \in 1..Len(s) : i # j => s[i] # s[j]

TypeOK ==
    /\ \A c \in Chans : Len(chs[c].buf) <= Caps[c]
    /\ \A p \in Procs : nops[p] <= MaxOps /\ nsent[p] <= MaxSend

EventLaws == h.broken = ""

(* every value that was sent is either delivered or still buffered, in order *)
Conservation == \A c \in Chans : h.sent[c] = h.rcvd[c] \o chs[c].buf

(* each sent value is received at most once, by one receiver, on its channel *)
AtMostOnce ==
    /\ \A c \in Chans : Distinct(h.rcvd[c])
    /\ \A c, d \in Chans : c # d =>
          \A i \in 1..Len(h.rcvd[c]), j \in 1..Len(h.rcvd[d]) : h.rcvd[c][i] # h.rcvd[d][j]

(* nothing is received that was not sent before (no receive from the future) *)
NoFuture == \A c \in Chans : IsPrefix(h.rcvd[c], h.sent[c])

(* values of one sender arrive in the order sent *)
PerSenderFIFO ==
    \A c \in Chans, p \in Procs : IsPrefix(Filter(h.rcvd[c], p), Filter(h.sent[c], p))

(* a run that completes with empty buffers delivered everything exactly once *)
ExactlyOnceAtCompletion ==
    ((\A p \in Procs : pend[p] = NoOp) /\ (\A c \in Chans : chs[c].buf = <<>>))
        => \A c \in Chans : h.sent[c] = h.rcvd[c] /\ Distinct(h.sent[c])

ClosedRules ==
    \A c \in Chans :
        /\ chs[c].closed <=> h.closedAt[c] >= 0
        /\ h.closedAt[c] >= 0 => Len(h.sent[c]) = h.closedAt[c]    \* nothing enters after close
RendezvousOnly == \A c \in Chans : Caps[c] = 0 => chs[c].buf = <<>>
NoBadPayload == \A c \in Chans : \A i \in 1..Len(h.sent[c]) : Admissible(h.sent[c][i])

(* vacuity: seen holds the kinds of events of the last step; the reach run   *)
(* (no VIEW) prints them and the driver requires every kind of AllKinds     *)
AllKinds == {"sent", "rcvd", "eof", "closed", "senderr", "closeerr", "handoff",
             "selsent", "selrcvd", "seleof", "seldflt", "selerr"}
KindNote == seen # {} => PrintT("KIND " \o ToJson(seen))
=============================================================================
