--------------------------- MODULE LuaLimitsTrace ---------------------------
(***************************************************************************)
(* Validation of the configuration sweep (property C12).  Each line of     *)
(* File is one program together with what the real interpreter did with it *)
(* under many raw option tuples (runs).  The limits of a run are derived   *)
(* here from its raw options (module LuaOptions):                          *)
(*   lo  configured call-stack size  (overflow forbidden while <= lo)      *)
(*   hi  hard call-stack capacity    (more than hi frames never exist)     *)
(*   lim register-file limit         (overflow exactly above lim)          *)
(*                                                                         *)
(* kind "sweep": a program whose trace does not depend on a limit when it  *)
(*   stays within the limits.  h is the hash of (emits, outcome), ref the  *)
(*   hash under the default options.  Rule: whenever a run a on a FIXED    *)
(*   stack gave the reference trace, the program needs at most a's limits  *)
(*   (the fixed stack and the register file overflow exactly at their      *)
(*   limits), so every run b with lo(b) >= lo(a) and lim(b) >= lim(a) is   *)
(*   within its limits and must give the reference trace too - whatever    *)
(*   its stack kind, grow step, maximum and context.  No run may crash.    *)
(*                                                                         *)
(* kind "probe": a program that recurses (or passes n values) until the    *)
(*   limit error, catches it with pcall, reports the deepest level n that  *)
(*   was entered, repeats level n (must work again) and runs a follow-up   *)
(*   computation.  Level k needs B + F*k frames and a*k + c registers; a   *)
(*   and c are constants of the program (frame layout), unknown here but   *)
(*   the same for all runs: they are calibrated on the runs flagged cal    *)
(*   (several register limits, fixed stack) and must then explain every    *)
(*   run:  entered(n): B + F*n <= hi and a*n + c <= lim + sl               *)
(*         failed(n+1): B + F*(n+1) > lo or a*(n+1) + c > lim.             *)
(*   sl (slack) is the number of overflow errors the same register file    *)
(*   has raised before: raiseError extends a full register file by one     *)
(*   slot to push the message (state.go: forceResize(Top()+1)), so the     *)
(*   capacity may exceed lim by at most that many slots.  Probes whose     *)
(*   attempts run in fresh threads have sl = 0 (exact thresholds).         *)
(* One VERDICT line per program: the set of <<run index, reason>>.         *)
(***************************************************************************)
EXTENDS LuaOptions, Sequences, FiniteSets, TLC, Json

CONSTANT File
Data == ndJsonDeserialize(File)

VARIABLE idx
Init == idx \in 1..Len(Data)
Next == UNCHANGED idx
Spec == Init /\ [][Next]_idx

Rec == Data[idx]
Runs == Rec.runs
L(i) == Limits(Runs[i].o)
Outcomes == {"ok", "err"}                   \* a Lua outcome; crash / hang / gopanic / budget are not

(* ---- sweep ------------------------------------------------------------------- *)
Witness == {<<L(i).lo, L(i).lim>> : i \in {j \in 1..Len(Runs) : ~Runs[j].o.msm /\ Runs[j].h = Rec.ref}}
Within(i, wit) == \E w \in wit : w[1] <= L(i).lo /\ w[2] <= L(i).lim
SweepWhy(i, wit) ==
    CASE Runs[i].oc \notin Outcomes -> "crash"
      \* an uncaught error must be an ordinary Lua error (ApiErrorRun / ApiErrorError ...), for every
      \* stack kind alike: a Go panic that PCall merely converted (ApiErrorPanic, "4") is not
      [] Runs[i].oc = "err" /\ Runs[i].et = "4" -> "error-is-a-converted-go-panic"
      \* (a program marked straddle always runs into one of the limits, uncaught: which one - and so the
      \* message - depends on the tuple; only the kind of its outcome is judged)
      [] ~Rec.straddle /\ Runs[i].h # Rec.ref /\ Within(i, wit) -> "differs-within-limits"
      [] OTHER -> ""

(* ---- probe ------------------------------------------------------------------- *)
RECURSIVE SumSq(_)
SumSq(n) == IF n = 0 THEN 0 ELSE n * n + SumSq(n - 1)
Follow == <<SumSq(Rec.fm), "a-b-c", Rec.fm, Rec.fm>>

Entered(i, a, c) == \/ Runs[i].n = 0                       \* no level was entered
                    \/ /\ Rec.B + Rec.F * Runs[i].n <= L(i).hi
                       /\ a * Runs[i].n + c <= L(i).lim + Runs[i].sl
Failed(i, a, c) == Rec.B + Rec.F * (Runs[i].n + 1) > L(i).lo \/ a * (Runs[i].n + 1) + c > L(i).lim
Pairs == {<<a, c>> : a \in Rec.amin..Rec.amax, c \in 0..Rec.cmax}
CalRuns == {i \in 1..Len(Runs) : Runs[i].cal /\ Runs[i].np >= 1 /\ Runs[i].oc \in Outcomes}
Cal == {p \in Pairs : \A i \in CalRuns : Entered(i, p[1], p[2]) /\ Failed(i, p[1], p[2])}

ProbeWhy(i, cal) ==
    LET r == Runs[i] IN
    CASE r.oc \notin Outcomes -> "crash"
      [] r.np = 0 -> (IF Rec.B0 > L(i).lo THEN "" ELSE "died-before-probe")
      \* nmax > 0: a probe that nests coroutine resumes (each level runs in its own thread, so neither lo/hi nor
      \* lim bounds it; every level nests host calls).  As in Lua 5.1 (LUAI_MAXCCALLS, "C stack overflow") the
      \* nesting must end in an ordinary error after at most nmax levels - an unbounded one ends in a fatal
      \* host stack overflow that nothing can catch.
      [] Rec.nmax > 0 /\ r.n > Rec.nmax -> "nested-resumes-unbounded"
      [] r.pok \/ r.ety # "string" -> "not-caught"
      [] Rec.nmax = 0 /\ ~\E p \in cal : Entered(i, p[1], p[2]) -> "beyond-hard-limit"
      [] Rec.nmax = 0 /\ ~\E p \in cal : Entered(i, p[1], p[2]) /\ Failed(i, p[1], p[2]) -> "overflow-below-limit"
      [] r.np < 2 \/ ~r.aok \/ r.av # r.n -> "state-after-overflow"
      [] r.np < 3 \/ r.f # Follow -> "follow-up"
      [] r.oc # "ok" -> "outcome"
      [] OTHER -> ""

BadRuns ==
    IF Rec.kind = "sweep"
    THEN LET wit == Witness IN
         {<<i, SweepWhy(i, wit)>> : i \in {j \in 1..Len(Runs) : SweepWhy(j, wit) # ""}}
    ELSE LET cal == Cal IN
         IF cal = {} /\ Rec.nmax = 0 THEN {<<0, "calibration">>}
         ELSE {<<i, ProbeWhy(i, cal)>> : i \in {j \in 1..Len(Runs) : ProbeWhy(j, cal) # ""}}

Verdict == LET b == BadRuns IN
    PrintT("VERDICT " \o ToJson([id |-> Rec.id, ok |-> b = {}, n |-> Len(Runs),
                                 ncal |-> IF Rec.kind = "probe" THEN Cardinality(Cal) ELSE 0,
                                 bad |-> b]))
=============================================================================
