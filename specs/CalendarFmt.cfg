SPECIFICATION Spec
CONSTANTS
  Mode = "fmt"
  Years = {}
INVARIANTS FmtPrint
CHECK_DEADLOCK FALSE
