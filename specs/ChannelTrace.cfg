SPECIFICATION Spec
INVARIANTS Witness
CHECK_DEADLOCK FALSE
