------------------------------ MODULE Lexical ------------------------------
(***************************************************************************)
(* Property C16, textual half: what a Lua 5.1 literal denotes.             *)
(*                                                                         *)
(* Texts and string values are sequences of bytes (integers 0..255).       *)
(*                                                                         *)
(*   Denote(t)        value of the string literal whose complete source    *)
(*                    text is t (llex.c read_string / read_long_string)    *)
(*   Quote(s)         the text string.format('%q', s) of PUC-Lua 5.1       *)
(*   Render(F, s)     s written in literal form F                          *)
(*   Numeral(t)       value of t as a number (lobject.c luaO_str2d with    *)
(*                    the grammar of the manual: decimal with fraction and *)
(*                    exponent, 0x hexadecimal integer, surrounding blanks,*)
(*                    optional sign)                                       *)
(*   NumeralBase(t,b) tonumber(t, b) for an explicit base                  *)
(*   LexNumeral(t)    what the chunk `return <t>` yields when t is one     *)
(*                    numeral token for the reference lexer (read_numeral) *)
(*   IntToStr(n)      the decimal text of an integer                       *)
(*                                                                         *)
(* Numbers: TLC has 32-bit integers and no floats.  A number is            *)
(*   <<"v", m, e>>   the value m * 2^e, m odd (or m = 0, e = 0): every such *)
(*                    value with |m| < 2^31 is exactly one float64          *)
(*   <<"valid">>      a well-formed numeral whose value is outside that     *)
(*                    model (not dyadic, or too large): every reader must   *)
(*                    accept it and all readers must agree on the value     *)
(*   <<"bad">>        not a numeral: every reader must reject it            *)
(*   <<"unspec">>     the reference implementation's answer depends on the  *)
(*                    C library (hexadecimal floats, inf/nan, signed        *)
(*                    hexadecimal, negative numbers with an explicit base): *)
(*                    not judged                                            *)
(***************************************************************************)
EXTENDS Integers, Sequences

MaxInt == 2147483647

IsDigit(c) == c >= 48 /\ c <= 57
IsLower(c) == c >= 97 /\ c <= 122
IsUpper(c) == c >= 65 /\ c <= 90
IsHexDigit(c) == IsDigit(c) \/ (c >= 97 /\ c <= 102) \/ (c >= 65 /\ c <= 70)
IsAlnumU(c) == IsDigit(c) \/ IsLower(c) \/ IsUpper(c) \/ c = 95
IsBlank(c) == c = 32 \/ (c >= 9 /\ c <= 13)          \* C isspace, "C" locale
IsNL(c) == c = 10 \/ c = 13
Lower(c) == IF IsUpper(c) THEN c + 32 ELSE c

(* byte at position i, -1 beyond the end of the text *)
At(t, i) == IF i >= 1 /\ i <= Len(t) THEN t[i] ELSE -1

RECURSIVE Flat(_)
Flat(ss) == IF Len(ss) = 0 THEN <<>> ELSE Head(ss) \o Flat(Tail(ss))

RECURSIVE Rep(_, _)
Rep(c, n) == IF n <= 0 THEN <<>> ELSE <<c>> \o Rep(c, n - 1)

(***************************************************************************)
(* String literals                                                         *)
(***************************************************************************)
Res(k, w, v, n) == [kind |-> k, why |-> w, val |-> v, next |-> n]
Invalid(w) == Res("invalid", w, <<>>, 0)
Unspec(w) == Res("unspec", w, <<>>, 0)
Done(v, n) == Res("ok", "", v, n)

SimpleEsc(c) ==
    CASE c = 97 -> 7 [] c = 98 -> 8 [] c = 102 -> 12 [] c = 110 -> 10
      [] c = 114 -> 13 [] c = 116 -> 9 [] c = 118 -> 11 [] OTHER -> -1

(* t[i] is a newline byte: index of the first byte of the next line; CR LF *)
(* and LF CR count as one line break (llex.c inclinenumber)                *)
AfterNL(t, i) == IF IsNL(At(t, i + 1)) /\ At(t, i + 1) # t[i] THEN i + 2 ELSE i + 1

RECURSIVE ReadShort(_, _, _, _)
ReadShort(t, i, q, acc) ==
    LET c == At(t, i) IN
    IF c = -1 \/ IsNL(c) THEN Invalid("unfinished string")
    ELSE IF c = q THEN Done(acc, i + 1)
    ELSE IF c # 92 THEN ReadShort(t, i + 1, q, Append(acc, c))
    ELSE LET d == At(t, i + 1) IN
         IF d = -1 THEN Invalid("unfinished string")
         ELSE IF SimpleEsc(d) # -1 THEN ReadShort(t, i + 2, q, Append(acc, SimpleEsc(d)))
         ELSE IF IsNL(d) THEN ReadShort(t, AfterNL(t, i + 1), q, Append(acc, 10))
         ELSE IF IsDigit(d) THEN
              LET d2 == At(t, i + 2)
                  d3 == At(t, i + 3)
                  has2 == IsDigit(d2)
                  has3 == has2 /\ IsDigit(d3)
                  v == IF has3 THEN 100 * (d - 48) + 10 * (d2 - 48) + (d3 - 48)
                       ELSE IF has2 THEN 10 * (d - 48) + (d2 - 48) ELSE d - 48
                  ni == IF has3 THEN i + 4 ELSE IF has2 THEN i + 3 ELSE i + 2
              IN IF v > 255 THEN Invalid("escape sequence too large")
                 ELSE ReadShort(t, ni, q, Append(acc, v))
         ELSE ReadShort(t, i + 2, q, Append(acc, d))      \* \\ \" \' and any other byte

RECURSIVE CountEq(_, _)
CountEq(t, i) == IF At(t, i) = 61 THEN 1 + CountEq(t, i + 1) ELSE 0

RECURSIVE ReadLongBody(_, _, _, _)
ReadLongBody(t, i, lvl, acc) ==
    LET c == At(t, i) IN
    IF c = -1 THEN Invalid("unfinished long string")
    ELSE IF c = 93 /\ CountEq(t, i + 1) = lvl /\ At(t, i + 1 + lvl) = 93 THEN Done(acc, i + lvl + 2)
    ELSE IF c = 91 /\ lvl = 0 /\ At(t, i + 1) = 91
         THEN Unspec("[[ inside [[ ]]: an error with LUA_COMPAT_LSTR=1 (stock 5.1), plain text otherwise")
    ELSE IF IsNL(c) THEN ReadLongBody(t, AfterNL(t, i), lvl, Append(acc, 10))
    ELSE ReadLongBody(t, i + 1, lvl, Append(acc, c))

ReadLong(t, i) ==      \* t[i] = "["
    LET lvl == CountEq(t, i + 1) IN
    IF At(t, i + 1 + lvl) # 91 THEN Invalid("not a long bracket")
    ELSE LET b == i + lvl + 2
             b2 == IF IsNL(At(t, b)) THEN AfterNL(t, b) ELSE b     \* first line break is skipped
         IN ReadLongBody(t, b2, lvl, <<>>)

(* kind = "ok": the whole text is one literal denoting val;                *)
(* "partial": a literal ends before the end of the text;                   *)
(* "invalid": the reference lexer reports an error; "unspec": see above    *)
Denote(t) ==
    LET c == At(t, 1)
        r == IF c = 34 \/ c = 39 THEN ReadShort(t, 2, c, <<>>)
             ELSE IF c = 91 THEN ReadLong(t, 1)
             ELSE Invalid("not a string literal")
    IN IF r.kind = "ok" /\ r.next # Len(t) + 1 THEN [r EXCEPT !.kind = "partial"] ELSE r

(* lstrlib.c addquoted *)
QByte(c) ==
    CASE c = 34 -> <<92, 34>> [] c = 92 -> <<92, 92>> [] c = 10 -> <<92, 10>>
      [] c = 13 -> <<92, 114>> [] c = 0 -> <<92, 48, 48, 48>> [] OTHER -> <<c>>
Quote(s) == <<34>> \o Flat([i \in 1..Len(s) |-> QByte(s[i])]) \o <<34>>

Dec3(c) == <<92, 48 + (c \div 100), 48 + ((c \div 10) % 10), 48 + (c % 10)>>
DecMin(c) == IF c >= 100 THEN Dec3(c)
             ELSE IF c >= 10 THEN <<92, 48 + (c \div 10), 48 + (c % 10)>> ELSE <<92, 48 + c>>
NamedEsc(c) ==
    CASE c = 7 -> 97 [] c = 8 -> 98 [] c = 12 -> 102 [] c = 10 -> 110
      [] c = 13 -> 114 [] c = 9 -> 116 [] c = 11 -> 118 [] OTHER -> -1

(* single-quoted, named escapes, shortest decimal escapes for other control *)
(* and high bytes (three digits when a digit follows)                      *)
SqByte(s, i) ==
    LET c == s[i] IN
    IF c = 39 \/ c = 92 THEN <<92, c>>
    ELSE IF NamedEsc(c) # -1 THEN <<92, NamedEsc(c)>>
    ELSE IF c < 32 \/ c >= 127 THEN (IF IsDigit(At(s, i + 1)) THEN Dec3(c) ELSE DecMin(c))
    ELSE <<c>>

LongOpen(lvl) == <<91>> \o Rep(61, lvl) \o <<91>>
LongClose(lvl) == <<93>> \o Rep(61, lvl) \o <<93>>

Forms == {"dq", "sq", "dec", "decmin", "l0", "l1", "l2", "l1crlf"}
Render(F, s) ==
    CASE F = "dq" -> Quote(s)
      [] F = "sq" -> <<39>> \o Flat([i \in 1..Len(s) |-> SqByte(s, i)]) \o <<39>>
      [] F = "dec" -> <<34>> \o Flat([i \in 1..Len(s) |-> Dec3(s[i])]) \o <<34>>
      [] F = "decmin" -> <<34>> \o Flat([i \in 1..Len(s) |->
                             IF IsDigit(At(s, i + 1)) THEN Dec3(s[i]) ELSE DecMin(s[i])]) \o <<34>>
      [] F \in {"l0", "l1", "l2"} ->
            LET lvl == (CASE F = "l0" -> 0 [] F = "l1" -> 1 [] OTHER -> 2) IN
            LongOpen(lvl) \o (IF IsNL(At(s, 1)) THEN <<10>> ELSE <<>>) \o s \o LongClose(lvl)
      [] F = "l1crlf" -> LongOpen(1) \o <<13, 10>> \o s \o LongClose(1)

(* a long form can only denote s when s has no CR (normalised to LF) and   *)
(* no text that closes the bracket early                                    *)
NormNL(s) == [i \in 1..Len(s) |-> IF s[i] = 13 THEN 10 ELSE s[i]]

(***************************************************************************)
(* Numerals                                                                *)
(***************************************************************************)
Bad == <<"bad">>
Valid == <<"valid">>
UnspecN == <<"unspec">>

RECURSIVE Norm(_, _)
Norm(m, e) == IF m = 0 THEN <<"v", 0, 0>>
              ELSE IF m % 2 = 0 THEN Norm(m \div 2, e + 1) ELSE <<"v", m, e>>
Neg(r) == IF r[1] = "v" THEN <<"v", 0 - r[2], r[3]>> ELSE r

RECURSIVE SkipBl(_, _)
SkipBl(t, i) == IF IsBlank(At(t, i)) THEN SkipBl(t, i + 1) ELSE i
RECURSIVE SkipBlBack(_, _)
SkipBlBack(t, j) == IF j >= 1 /\ IsBlank(t[j]) THEN SkipBlBack(t, j - 1) ELSE j
Strip(t) == LET i == SkipBl(t, 1)
                j == SkipBlBack(t, Len(t))
            IN IF i > j THEN <<>> ELSE SubSeq(t, i, j)

DigitOf(c) == IF IsDigit(c) THEN c - 48 ELSE IF IsLower(c) THEN c - 87
              ELSE IF IsUpper(c) THEN c - 55 ELSE 99

RECURSIVE SpanDigits(_, _)
SpanDigits(t, i) == IF IsDigit(At(t, i)) THEN SpanDigits(t, i + 1) ELSE i
RECURSIVE SpanHex(_, _)
SpanHex(t, i) == IF IsHexDigit(At(t, i)) THEN SpanHex(t, i + 1) ELSE i
RECURSIVE SpanBase(_, _, _)
SpanBase(t, i, b) == IF At(t, i) # -1 /\ DigitOf(At(t, i)) < b THEN SpanBase(t, i + 1, b) ELSE i

(* value of the digits t[i..j-1] in base b continuing from acc; -1 = above MaxInt *)
RECURSIVE DigVal(_, _, _, _, _)
DigVal(t, i, j, b, acc) ==
    IF acc = -1 THEN -1
    ELSE IF i >= j THEN acc
    ELSE IF acc > (MaxInt - DigitOf(t[i])) \div b THEN -1
    ELSE DigVal(t, i + 1, j, b, acc * b + DigitOf(t[i]))

RECURSIVE MulPow10(_, _)
MulPow10(m, e) == IF e = 0 THEN m ELSE IF m > MaxInt \div 10 THEN -1 ELSE MulPow10(m * 10, e - 1)
RECURSIVE Pow5(_)
Pow5(k) == IF k = 0 THEN 1 ELSE 5 * Pow5(k - 1)
RECURSIVE StripZeros(_, _)      \* <<m, e>> with the trailing decimal zeros of m moved into e
StripZeros(m, e) == IF m # 0 /\ m % 10 = 0 THEN StripZeros(m \div 10, e + 1) ELSE <<m, e>>

(* the value mant * 10^ex *)
DecValue(mant, ex) ==
    IF mant = 0 THEN Norm(0, 0)
    ELSE LET z == StripZeros(mant, ex)
             m == z[1]
             e == z[2]
         IN IF e >= 0
            THEN (IF e > 9 THEN Valid
                  ELSE LET p == MulPow10(m, e) IN IF p = -1 THEN Valid ELSE Norm(p, 0))
            ELSE (IF 0 - e > 13 THEN Valid
                  ELSE IF m % Pow5(0 - e) # 0 THEN Valid       \* not a dyadic rational
                  ELSE Norm(m \div Pow5(0 - e), e))

(* u: unsigned decimal numeral  D* [. D*] [(e|E) [+|-] D+]  with a digit in the mantissa *)
DecNumeral(u) ==
    LET n == Len(u)
        i1 == SpanDigits(u, 1)
        dot == At(u, i1) = 46
        f0 == i1 + 1
        i2 == IF dot THEN SpanDigits(u, f0) ELSE i1
        nfrac == IF dot THEN i2 - f0 ELSE 0
        ndig == (i1 - 1) + nfrac
        hasE == At(u, i2) = 101 \/ At(u, i2) = 69
        sg == At(u, i2 + 1)
        x0 == IF sg = 43 \/ sg = 45 THEN i2 + 2 ELSE i2 + 1
        i3 == SpanDigits(u, x0)
        mant == DigVal(u, f0, i2, 10, DigVal(u, 1, i1, 10, 0))
    IN IF ndig = 0 THEN Bad
       ELSE IF ~hasE THEN (IF i2 # n + 1 THEN Bad
                           ELSE IF mant = -1 THEN Valid ELSE DecValue(mant, 0 - nfrac))
       ELSE IF i3 = x0 \/ i3 # n + 1 THEN Bad
       ELSE LET x == DigVal(u, x0, i3, 10, 0) IN
            IF mant = 0 THEN Norm(0, 0)
            ELSE IF mant = -1 \/ x = -1 \/ x > 10000 THEN Valid
            ELSE DecValue(mant, (IF sg = 45 THEN 0 - x ELSE x) - nfrac)

(* u starts with 0x / 0X *)
HexNumeral(u) ==
    LET n == Len(u)
        h1 == SpanHex(u, 3)
        dot == At(u, h1) = 46
        h2 == IF dot THEN SpanHex(u, h1 + 1) ELSE h1
        ndig == (h1 - 3) + (IF dot THEN h2 - (h1 + 1) ELSE 0)
        hasP == At(u, h2) = 112 \/ At(u, h2) = 80
        sg == At(u, h2 + 1)
        x0 == IF sg = 43 \/ sg = 45 THEN h2 + 2 ELSE h2 + 1
        i3 == SpanDigits(u, x0)
    IN IF ndig = 0 THEN Bad
       ELSE IF hasP THEN (IF i3 = x0 \/ i3 # n + 1 THEN Bad ELSE UnspecN)     \* C99 hexadecimal float
       ELSE IF h2 # n + 1 THEN Bad
       ELSE IF dot THEN UnspecN
       ELSE LET v == DigVal(u, 3, h1, 16, 0) IN IF v = -1 THEN Valid ELSE Norm(v, 0)

LowerSeq(u) == [i \in 1..Len(u) |-> Lower(u[i])]
IsInfNan(u) ==
    LET l == LowerSeq(u) IN
    \/ l = <<105, 110, 102>>
    \/ l = <<105, 110, 102, 105, 110, 105, 116, 121>>
    \/ l = <<110, 97, 110>>
    \/ (Len(l) >= 5 /\ SubSeq(l, 1, 4) = <<110, 97, 110, 40>> /\ l[Len(l)] = 41)

(* u: no blanks, no sign *)
Unsigned(u) ==
    IF Len(u) = 0 THEN Bad
    ELSE IF IsInfNan(u) THEN UnspecN
    ELSE IF At(u, 1) = 48 /\ (At(u, 2) = 120 \/ At(u, 2) = 88)
         THEN HexNumeral(u)      \* "0x", "0xg" are Bad: strtod reads "0" and stops at the x
    ELSE DecNumeral(u)

HasNul(t) == \E i \in 1..Len(t) : t[i] = 0

Numeral(t) ==
    IF HasNul(t) THEN UnspecN          \* 5.1 reads a C string: stops at the first NUL
    ELSE LET u == Strip(t)
             c == At(u, 1)
         IN IF c = 43 \/ c = 45
            THEN LET w == SubSeq(u, 2, Len(u))
                     r == Unsigned(w)
                 IN IF r = Bad \/ r = UnspecN THEN r
                    ELSE IF At(w, 1) = 48 /\ (At(w, 2) = 120 \/ At(w, 2) = 88) THEN UnspecN
                    ELSE IF c = 45 THEN Neg(r) ELSE r
            ELSE Unsigned(u)

(* tonumber(t, b), b in 2..36 *)
NumeralBase(t, b) ==
    IF b = 10 THEN Numeral(t)
    ELSE IF HasNul(t) THEN UnspecN
    ELSE LET u == Strip(t)
             c == At(u, 1)
             signed == c = 43 \/ c = 45
             w == IF signed THEN SubSeq(u, 2, Len(u)) ELSE u
             n == Len(w)
             allDig == n >= 1 /\ SpanBase(w, 1, b) = n + 1
             pre16 == b = 16 /\ At(w, 1) = 48 /\ (At(w, 2) = 120 \/ At(w, 2) = 88)
                      /\ n >= 3 /\ SpanBase(w, 3, 16) = n + 1
         IN IF ~allDig /\ ~pre16 THEN Bad
            ELSE LET v == IF pre16 THEN DigVal(w, 3, n + 1, 16, 0)      \* C strtoul takes 0x / 0X with base 16
                           ELSE DigVal(w, 1, n + 1, b, 0)
                 IN IF v = -1 THEN UnspecN             \* strtoul clamps at ULONG_MAX (2^32-1 or 2^64-1)
                    ELSE IF c = 45 /\ v # 0 THEN UnspecN \* strtoul negates in unsigned long: 2^32-v or 2^64-v
                    ELSE Norm(v, 0)                     \* "+ff" is 255 and "-0" is 0 everywhere

(* lbaselib.c luaB_tonumber with an explicit base argument: a base outside 2..36 is an argument error      *)
(* ("base out of range"), whatever the first argument is (base 10 is the ordinary conversion).  A base     *)
(* given as a numeric string denotes that integer (lua_tointeger); a base with a fraction is not decided   *)
(* here (lua_number2int truncates or rounds depending on luaconf.h).                                       *)
ArgErr == <<"argerr">>
ToNumberStr(t, b) == IF b < 2 \/ b > 36 THEN ArgErr ELSE NumeralBase(t, b)

(* llex.c read_numeral: [0-9.]+ then an optional e/E with optional sign,   *)
(* then [A-Za-z0-9_]*; the token is then converted as a whole              *)
RECURSIVE SpanDigDot(_, _)
SpanDigDot(t, i) == IF IsDigit(At(t, i)) \/ At(t, i) = 46 THEN SpanDigDot(t, i + 1) ELSE i
RECURSIVE SpanAlnum(_, _)
SpanAlnum(t, i) == IF At(t, i) # -1 /\ IsAlnumU(At(t, i)) THEN SpanAlnum(t, i + 1) ELSE i
OneNumeralToken(t) ==
    /\ (IsDigit(At(t, 1)) \/ (At(t, 1) = 46 /\ IsDigit(At(t, 2))))
    /\ LET a == SpanDigDot(t, 1)
           b == IF At(t, a) = 101 \/ At(t, a) = 69
                THEN (IF At(t, a + 1) = 43 \/ At(t, a + 1) = 45 THEN a + 2 ELSE a + 1)
                ELSE a
       IN SpanAlnum(t, b) = Len(t) + 1

(* <<"skip">>: `return <t>` is not "return" followed by one numeral token   *)
LexNumeral(t) == IF OneNumeralToken(t) THEN Unsigned(t) ELSE <<"skip">>

RECURSIVE Digits(_)
Digits(n) == IF n < 10 THEN <<48 + n>> ELSE Append(Digits(n \div 10), 48 + (n % 10))
IntToStr(n) == IF n < 0 THEN <<45>> \o Digits(0 - n) ELSE Digits(n)

(* tonumber(n, b) for an integral number n: with b # 10 luaL_checkstring first turns n into its text,  *)
(* so tonumber(10, 16) = 16 and tonumber(19, 8) = nil                                                   *)
ToNumberNum(n, b) == IF b < 2 \/ b > 36 THEN ArgErr
                     ELSE IF b = 10 THEN Norm(n, 0) ELSE NumeralBase(IntToStr(n), b)

(* the integer hi * 10^8 + lo (0 <= lo < 10^8, hi >= 0), optionally negated *)
Pad8(n) == LET d == Digits(n) IN Rep(48, 8 - Len(d)) \o d
IntToStr2(neg, hi, lo) ==
    (IF neg /\ (hi # 0 \/ lo # 0) THEN <<45>> ELSE <<>>) \o
    (IF hi = 0 THEN Digits(lo) ELSE Digits(hi) \o Pad8(lo))
=============================================================================
