SPECIFICATION Spec
CONSTANTS
  Vals <- MC_Vals
  ValSeq <- MC_ValSeq
  Fresh = FALSE
  SortKinds <- MC_SortKinds
  Seps <- MC_Seps
  Gen = "no"
VIEW view
INVARIANTS ListView ResultsAgree QueriesAgree SortLaws
CHECK_DEADLOCK FALSE
