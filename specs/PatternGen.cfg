SPECIFICATION Spec
INVARIANT GenPrint
CHECK_DEADLOCK FALSE
