---------------------------- MODULE SharedProto ----------------------------
(***************************************************************************)
(* Property C13, "executing a prototype never modifies it".                *)
(*                                                                         *)
(* A compiled chunk is a tree of function prototypes.  It is SHARED,       *)
(* IMMUTABLE data: any number of states may be made from it                *)
(* (NewFunctionFromProto) and run it in any interleaving; everything a     *)
(* state derives while running - registers, closures, the function names   *)
(* it resolves for tracebacks and debug.getinfo from the call-site table   *)
(* DbgCalls - lives in that state.  An observation of the tree is a        *)
(* sequence (pre-order) of prototypes, each a sequence of field values     *)
(* (Code, Constants, DbgCalls names+pcs, DbgLocals, DbgUpvalues,           *)
(* DbgSourcePositions, string constants, ...).                             *)
(*                                                                         *)
(* The small state machine below is the design: Resolve(s) is the shape of *)
(* frameFuncName - it READS the call-site name and, for a site without a   *)
(* static name, synthesizes "<source:line>" into the state's own result.   *)
(* Immutable is the invariant; SharedProtoTrace.tla binds it to the real   *)
(* code with the same operators (SameTree / FirstDiff) on fingerprints of  *)
(* the real prototype tree taken before and after every run/schedule.      *)
(***************************************************************************)
EXTENDS Integers, Sequences, FiniteSets

(* two observations of a prototype tree are the same tree *)
SameTree(a, b) ==
    /\ Len(a) = Len(b)
    /\ \A i \in 1..Len(a) : Len(a[i]) = Len(b[i]) /\ \A j \in 1..Len(a[i]) : a[i][j] = b[i][j]

(* <<prototype index, field index>> of the first difference, <<0, 0>> for a different shape *)
FirstDiff(a, b) ==
    IF Len(a) # Len(b) THEN <<0, 0>>
    ELSE LET bad == {i \in 1..Len(a) : Len(a[i]) # Len(b[i]) \/ \E j \in 1..Len(a[i]) : a[i][j] # b[i][j]}
             i == CHOOSE x \in bad : \A y \in bad : x <= y
         IN IF Len(a[i]) # Len(b[i]) THEN <<i, 0>>
            ELSE <<i, CHOOSE j \in 1..Len(a[i]) : a[i][j] # b[i][j] /\ \A k \in 1..(j - 1) : a[i][k] = b[i][k]>>

CONSTANTS NStates,   \* states made from the one prototype
          Sites,     \* call sites of the prototype
          Callees    \* functions a site can reach

(* the compiled call-site table: some sites have a static name, the others "?" *)
Tree0 == <<[s \in Sites |-> IF s = 1 THEN "named" ELSE "?"]>>

VARIABLES tree,      \* the shared prototype tree
          result,    \* per state: the names it resolved so far
          left       \* per state: resolutions still to do
vars == <<tree, result, left>>

Init == /\ tree = Tree0
        /\ result = [s \in 1..NStates |-> <<>>]
        /\ left = [s \in 1..NStates |-> 2]

(* the name state s reports for callee f reached through site c *)
NameOf(c, f) == IF tree[1][c] = "?" THEN <<"synthesized", f>> ELSE <<"static", tree[1][c]>>

Resolve(s) ==
    /\ left[s] > 0
    /\ \E c \in Sites, f \in Callees :
          result' = [result EXCEPT ![s] = Append(@, <<c, f, NameOf(c, f)>>)]
    /\ left' = [left EXCEPT ![s] = @ - 1]
    /\ UNCHANGED tree                     \* running reads the prototype, never writes it

Next == \E s \in 1..NStates : Resolve(s)
Spec == Init /\ [][Next]_vars

Immutable == SameTree(tree, Tree0)

(* consequence: what a state resolves depends only on its own site and callee, not on *)
(* what any state resolved before (non-interference of name resolution)               *)
OwnName == \A s \in 1..NStates : \A i \in 1..Len(result[s]) :
              result[s][i][3] = (IF Tree0[1][result[s][i][1]] = "?" THEN <<"synthesized", result[s][i][2]>>
                                 ELSE <<"static", Tree0[1][result[s][i][1]]>>)
=============================================================================
