SPECIFICATION Spec
INVARIANTS Witness LawsLine
CHECK_DEADLOCK FALSE
