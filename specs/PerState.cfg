SPECIFICATION Spec
CONSTANTS
  NStates = 2
  Seeds = {1, 2}
  Marks = {5}
INVARIANTS AsAlone OwnDisjoint
CHECK_DEADLOCK FALSE
