SPECIFICATION SimSpec
CONSTANTS
  Vals <- Sim_Vals
  ValSeq <- MC_ValSeq
  Fresh = FALSE
  SortKinds <- Sim_SortKinds
  Seps <- MC_Seps
  Gen = "full"
ACTION_CONSTRAINT GenPrint
CHECK_DEADLOCK FALSE
