SPECIFICATION SimSpec
CONSTANTS
  Vals <- Sim_Vals
  ValSeq <- MC_ValSeq
  Fresh = FALSE
  SortKinds <- Sim_SortKinds
  Seps <- MC_Seps
  XKeys <- Sim_XKeys
  XVals <- Sim_XVals
  MaxEx = 2
  FillNs <- MC_NoXKeys
  Gen = "full"
ACTION_CONSTRAINT GenPrint
CHECK_DEADLOCK FALSE
