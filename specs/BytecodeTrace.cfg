SPECIFICATION Spec
INVARIANT Verdict
CHECK_DEADLOCK FALSE
CONSTANTS
  FrameLimit = 200
