SPECIFICATION Spec
CONSTANTS
  Sizes = {0, 2, 11, 4100}
  Lays <- MC_NumLays
  Modes = {"r", "r+"}
  RCounts = {1, 4096}
  WCounts = {2}
  SOffs = {0}
  VBufs <- MC_None
  MFmts <- MC_None
  VSizes = {0}
  Extra <- MC_AllExtra
  Naive = FALSE
  Gen = TRUE
VIEW genview
ACTION_CONSTRAINT GenPrint
CHECK_DEADLOCK FALSE
