------------------------------ MODULE Calendar ------------------------------
(***************************************************************************)
(* Property C16, calendar half: broken-down time <-> seconds since the     *)
(* epoch in a zone without transitions (a fixed offset east of UTC), and    *)
(* the strftime directives of the "C" locale rendered from those fields.    *)
(* The calendar is stated declaratively (proleptic Gregorian leap rule,     *)
(* month lengths); Fields picks the unique year/month that contains the     *)
(* day.  Integer arithmetic only; TLC's \div and % are floor division and   *)
(* non-negative remainder, so negative timestamps are covered too.          *)
(***************************************************************************)
EXTENDS Integers, Sequences, TLC

IsLeap(y) == (y % 4 = 0 /\ y % 100 # 0) \/ y % 400 = 0
DaysInMonth(y, m) ==
    CASE m \in {1, 3, 5, 7, 8, 10, 12} -> 31
      [] m \in {4, 6, 9, 11} -> 30
      [] OTHER -> (IF IsLeap(y) THEN 29 ELSE 28)
DaysInYear(y) == IF IsLeap(y) THEN 366 ELSE 365

(* number of leap years among 1..y-1 *)
LeapsBefore(y) == ((y - 1) \div 4) - ((y - 1) \div 100) + ((y - 1) \div 400)
(* days from 1970-01-01 to y-01-01 *)
DayOfJan1(y) == 365 * (y - 1970) + LeapsBefore(y) - LeapsBefore(1970)
RECURSIVE DaysBeforeMonth(_, _)
DaysBeforeMonth(y, m) == IF m = 1 THEN 0 ELSE DaysBeforeMonth(y, m - 1) + DaysInMonth(y, m - 1)

(* broken-down time of second sod (0..86399) of day number days (days since 1970-01-01, any sign) on  *)
(* the clock itself.  400 Gregorian years are exactly 146097 days, so the year is found near            *)
(* 1970 + 400 * (days div 146097) + (days mod 146097) div 365 for every day number TLC can hold.        *)
FieldsDS(days, sod) ==
    LET y0 == 1970 + 400 * (days \div 146097) + ((days % 146097) \div 365)
        y == CHOOSE c \in (y0 - 2)..(y0 + 2) : DayOfJan1(c) <= days /\ days < DayOfJan1(c + 1)
        yd == days - DayOfJan1(y)                       \* 0-based day of the year
        m == CHOOSE c \in 1..12 : DaysBeforeMonth(y, c) <= yd /\ yd < DaysBeforeMonth(y, c) + DaysInMonth(y, c)
    IN [year |-> y, month |-> m, day |-> yd - DaysBeforeMonth(y, m) + 1,
        hour |-> sod \div 3600, min |-> (sod % 3600) \div 60, sec |-> sod % 60,
        wday |-> ((days + 4) % 7) + 1,                  \* 1 = Sunday; 1970-01-01 was a Thursday
        yday |-> yd + 1, isdst |-> FALSE]

(* broken-down time of the instant t (seconds since 1970-01-01T00:00:00Z) on a clock off seconds ahead of UTC *)
Fields(t, off) == FieldsDS((t + off) \div 86400, (t + off) % 86400)

(* the same for instants beyond 32 bits, given as day number and second of the day (UTC) *)
FieldsW(days, sod, off) == FieldsDS(days + ((sod + off) \div 86400), (sod + off) % 86400)

ValidFields(f) ==
    /\ f.month \in 1..12 /\ f.day \in 1..DaysInMonth(f.year, f.month)
    /\ f.hour \in 0..23 /\ f.min \in 0..59 /\ f.sec \in 0..59
    /\ f.wday \in 1..7 /\ f.yday \in 1..DaysInYear(f.year)

(* os.time: the instant whose broken-down time is f (wday, yday ignored) *)
SecondsOf(f, off) ==
    (DayOfJan1(f.year) + DaysBeforeMonth(f.year, f.month) + (f.day - 1)) * 86400
    + f.hour * 3600 + f.min * 60 + f.sec - off

(* os.time beyond 32 bits: <<day number, second of the day>> (UTC) of the instant whose broken-down time is f *)
SecondsOfW(f, off) ==
    LET d == DayOfJan1(f.year) + DaysBeforeMonth(f.year, f.month) + (f.day - 1)
        x == f.hour * 3600 + f.min * 60 + f.sec - off
    IN <<d + (x \div 86400), x % 86400>>

(******************************* strftime **********************************)
WdayAbbr == <<"Sun", "Mon", "Tue", "Wed", "Thu", "Fri", "Sat">>
WdayFull == <<"Sunday", "Monday", "Tuesday", "Wednesday", "Thursday", "Friday", "Saturday">>
MonAbbr == <<"Jan", "Feb", "Mar", "Apr", "May", "Jun", "Jul", "Aug", "Sep", "Oct", "Nov", "Dec">>
MonFull == <<"January", "February", "March", "April", "May", "June", "July", "August",
             "September", "October", "November", "December">>

Pad2(n) == IF n < 10 THEN "0" \o ToString(n) ELSE ToString(n)
Pad3(n) == IF n < 10 THEN "00" \o ToString(n) ELSE IF n < 100 THEN "0" \o ToString(n) ELSE ToString(n)
SpPad2(n) == IF n < 10 THEN " " \o ToString(n) ELSE ToString(n)
Hour12(h) == IF h % 12 = 0 THEN 12 ELSE h % 12
AbsI(x) == IF x < 0 THEN 0 - x ELSE x

(* C89 directives, plus F (C99), P (GNU) and z (C99) which gopher-lua also offers *)
C89Dirs == {"a", "A", "b", "B", "c", "d", "H", "I", "j", "m", "M", "p", "S", "U", "w", "W", "x", "X", "y", "Y", "Z", "%"}
ExtDirs == {"F", "P", "z"}

RECURSIVE Dir(_, _, _, _)
Dir(d, f, off, zone) ==
    CASE d = "a" -> WdayAbbr[f.wday]
      [] d = "A" -> WdayFull[f.wday]
      [] d = "b" -> MonAbbr[f.month]
      [] d = "B" -> MonFull[f.month]
      [] d = "c" -> Dir("a", f, off, zone) \o " " \o Dir("b", f, off, zone) \o " " \o SpPad2(f.day) \o " "
                    \o Dir("X", f, off, zone) \o " " \o ToString(f.year)
      [] d = "d" -> Pad2(f.day)
      [] d = "F" -> ToString(f.year) \o "-" \o Pad2(f.month) \o "-" \o Pad2(f.day)
      [] d = "H" -> Pad2(f.hour)
      [] d = "I" -> Pad2(Hour12(f.hour))
      [] d = "j" -> Pad3(f.yday)
      [] d = "m" -> Pad2(f.month)
      [] d = "M" -> Pad2(f.min)
      [] d = "p" -> (IF f.hour < 12 THEN "AM" ELSE "PM")
      [] d = "P" -> (IF f.hour < 12 THEN "am" ELSE "pm")
      [] d = "S" -> Pad2(f.sec)
      [] d = "U" -> Pad2((f.yday - 1 + 7 - (f.wday - 1)) \div 7)              \* weeks starting Sunday
      [] d = "w" -> ToString(f.wday - 1)
      [] d = "W" -> Pad2((f.yday - 1 + 7 - ((f.wday + 5) % 7)) \div 7)        \* weeks starting Monday
      [] d = "x" -> Pad2(f.month) \o "/" \o Pad2(f.day) \o "/" \o Pad2(f.year % 100)
      [] d = "X" -> Pad2(f.hour) \o ":" \o Pad2(f.min) \o ":" \o Pad2(f.sec)
      [] d = "y" -> Pad2(f.year % 100)
      [] d = "Y" -> ToString(f.year)
      [] d = "z" -> (IF off < 0 THEN "-" ELSE "+") \o Pad2(AbsI(off) \div 3600) \o Pad2((AbsI(off) % 3600) \div 60)
      [] d = "Z" -> zone
      [] d = "%" -> "%"

(* a format is a sequence of items <<"d", directive>> or <<"l", literal text>> *)
RECURSIVE Strftime(_, _, _, _)
Strftime(items, f, off, zone) ==
    IF Len(items) = 0 THEN ""
    ELSE (IF Head(items)[1] = "d" THEN Dir(Head(items)[2], f, off, zone) ELSE Head(items)[2])
         \o Strftime(Tail(items), f, off, zone)
=============================================================================
