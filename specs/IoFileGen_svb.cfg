SPECIFICATION Spec
CONSTANTS
  Sizes = {0}
  Lays <- MC_ModesLays
  Modes = {"w+", "a"}
  RCounts <- MC_None
  WCounts = {3}
  SOffs <- MC_None
  VBufs = {"no", "full", "line"}
  MFmts <- MC_None
  VSizes = {0, 16}
  Extra = {"close", "peek", "flush"}
  Naive = FALSE
  Gen = TRUE
VIEW genview
ACTION_CONSTRAINT GenPrintG3
CHECK_DEADLOCK FALSE
