------------------------------ MODULE Channel ------------------------------
(***************************************************************************)
(* Abstract specification of gopher-lua channel objects (property C13).   *)
(*                                                                         *)
(* A channel is a FIFO queue of bounded capacity plus a closed flag.  The  *)
(* operations are those of the Lua channel library:                        *)
(*     ch:send(v)   ch:receive()   ch:close()   channel.select(cases...)   *)
(* An operation that has been called and has not returned is PENDING.  A   *)
(* pending operation completes either on its own (Solo: the state of the   *)
(* channel lets it proceed) or, on a channel of capacity 0, together with  *)
(* a pending operation of another process (HandOffs: rendezvous).          *)
(* Whether a pending partner is already parked inside the runtime is not   *)
(* observable, so a select with a default case may either hand off with a  *)
(* pending partner or take its default; it must NOT take the default when  *)
(* a case is ready on the channel state alone (buffered value, free slot,  *)
(* closed channel).                                                        *)
(*                                                                         *)
(* Values are tagged tuples <<"n",101>> <<"s","a">> <<"b",TRUE>> <<"nil">> *)
(* <<"T",101>> (plain table carrying 101); the payloads the library has to *)
(* refuse are <<"fn">> function, <<"ud">> userdata, <<"th">> thread and    *)
(* <<"tm">> table with a metatable.                                        *)
(*                                                                         *)
(* Operations:  [op |-> "send", c, v]  [op |-> "recv", c]                   *)
(*              [op |-> "close", c]    [op |-> "select", cases]            *)
(*   cases: sequence of [d |-> "recv", c] / [d |-> "send", c, v] /         *)
(*          [d |-> "default"]                                              *)
(* Results: one record shape [r, idx, ok, v] for every operation:          *)
(*   r   "ok" | "err"  (err: refused payload, send on / close of a closed  *)
(*                      channel)                                           *)
(*   idx index of the chosen select case (0 for the plain operations)      *)
(*   ok  TRUE iff a sent value was received;  v  that value (else nil)     *)
(***************************************************************************)
EXTENDS Integers, Sequences, FiniteSets

Nil == <<"nil">>
BadTags == {"fn", "ud", "th", "tm"}
Admissible(v) == v[1] \notin BadTags

NewChan == [buf |-> <<>>, closed |-> FALSE]

Res(r, i, ok, v) == [r |-> r, idx |-> i, ok |-> ok, v |-> v]
ROk == Res("ok", 0, FALSE, Nil)
RErr == Res("err", 0, FALSE, Nil)
RRecv(v) == Res("ok", 0, TRUE, v)
REof == Res("ok", 0, FALSE, Nil)

Out(res, chs) == [res |-> res, chs |-> chs]

(* ---- an operation completing on its own ------------------------------- *)

SendSolo(chs, caps, c, v) ==
    IF ~Admissible(v) THEN {Out(RErr, chs)}              \* refused, nothing sent
    ELSE IF chs[c].closed THEN {Out(RErr, chs)}           \* send on a closed channel
    ELSE IF Len(chs[c].buf) < caps[c]
         THEN {Out(ROk, [chs EXCEPT ![c].buf = Append(@, v)])}
    ELSE {}                                               \* blocks

RecvSolo(chs, c) ==
    IF chs[c].buf # <<>>
    THEN {Out(RRecv(Head(chs[c].buf)), [chs EXCEPT ![c].buf = Tail(@)])}
    ELSE IF chs[c].closed THEN {Out(REof, chs)}           \* closed and drained
    ELSE {}                                               \* blocks

CloseSolo(chs, c) ==
    IF chs[c].closed THEN {Out(RErr, chs)}                \* close of a closed channel
    ELSE {Out(ROk, [chs EXCEPT ![c].closed = TRUE])}

CaseBad(cs) == cs.d = "send" /\ ~Admissible(cs.v)
SelBad(cases) == \E i \in 1..Len(cases) : CaseBad(cases[i])

CaseSolo(chs, caps, cs) ==
    CASE cs.d = "send" -> SendSolo(chs, caps, cs.c, cs.v)
      [] cs.d = "recv" -> RecvSolo(chs, cs.c)
      [] OTHER -> {}

(* a fired case reports its index; a send case on a closed channel fails   *)
(* the whole select                                                        *)
SelCaseOut(o, i) == IF o.res.r = "err" THEN o ELSE Out([o.res EXCEPT !.idx = i], o.chs)

SelReady(chs, caps, cases) ==
    UNION {{SelCaseOut(o, i) : o \in CaseSolo(chs, caps, cases[i])} : i \in 1..Len(cases)}

DefaultIdx(cases) == {i \in 1..Len(cases) : cases[i].d = "default"}

SelectSolo(chs, caps, cases) ==
    IF SelBad(cases) THEN {Out(RErr, chs)}                \* refused before anything happens
    ELSE LET rdy == SelReady(chs, caps, cases) IN
         IF rdy # {} THEN rdy                             \* only ready cases fire ...
         ELSE {Out(Res("ok", i, FALSE, Nil), chs) : i \in DefaultIdx(cases)}
                                                          \* ... default only if none is

Solo(chs, caps, op) ==
    CASE op.op = "send" -> SendSolo(chs, caps, op.c, op.v)
      [] op.op = "recv" -> RecvSolo(chs, op.c)
      [] op.op = "close" -> CloseSolo(chs, op.c)
      [] op.op = "select" -> SelectSolo(chs, caps, op.cases)
      [] OTHER -> {}

(* ---- rendezvous on a channel of capacity 0 ----------------------------- *)
(* (for capacity > 0 a direct hand-off equals Solo send followed by Solo   *)
(* receive, so it needs no rule of its own)                                *)

SendOffers(op, c) ==
    CASE op.op = "send" ->
            (IF op.c = c /\ Admissible(op.v) THEN {[v |-> op.v, res |-> ROk]} ELSE {})
      [] op.op = "select" ->
            (IF SelBad(op.cases) THEN {}
             ELSE {[v |-> op.cases[i].v, res |-> Res("ok", i, FALSE, Nil)] :
                     i \in {j \in 1..Len(op.cases) : op.cases[j].d = "send" /\ op.cases[j].c = c}})
      [] OTHER -> {}

RecvOffers(op, c) ==
    CASE op.op = "recv" -> (IF op.c = c THEN {0} ELSE {})
      [] op.op = "select" ->
            (IF SelBad(op.cases) THEN {}
             ELSE {j \in 1..Len(op.cases) : op.cases[j].d = "recv" /\ op.cases[j].c = c})
      [] OTHER -> {}

(* joint completions of a pending sender-side op and a pending receiver-   *)
(* side op of two different processes: set of [c, rs, rr]                  *)
HandOffs(chs, caps, ops, opr) ==
    UNION {{[c |-> c, rs |-> so.res, rr |-> Res("ok", j, TRUE, so.v)] :
               so \in SendOffers(ops, c), j \in RecvOffers(opr, c)} :
           c \in {d \in DOMAIN chs : caps[d] = 0 /\ ~chs[d].closed}}

(* ---- what a completed operation communicated --------------------------- *)
Effect(op, res) ==
    IF res.r = "err" THEN <<"none">>
    ELSE CASE op.op = "send" -> <<"sent", op.c, op.v>>
           [] op.op = "recv" -> (IF res.ok THEN <<"rcvd", op.c, res.v>> ELSE <<"eof", op.c>>)
           [] op.op = "close" -> <<"closed", op.c>>
           [] op.op = "select" ->
                (LET cs == op.cases[res.idx] IN
                 CASE cs.d = "send" -> <<"sent", cs.c, cs.v>>
                   [] cs.d = "recv" -> (IF res.ok THEN <<"rcvd", cs.c, res.v>> ELSE <<"eof", cs.c>>)
                   [] OTHER -> <<"dflt">>)
           [] OTHER -> <<"none">>
=============================================================================
