-------------------------- MODULE SharedProtoTrace --------------------------
(***************************************************************************)
(* Trace validation of "a compiled prototype shared between states never   *)
(* changes" (property C13).  Each line of File holds the observations of   *)
(* one real prototype tree: obs[1] right after compilation, obs[k] after   *)
(* the k-th run/schedule (alone, then N states at once, -race build);      *)
(* an observation is, per prototype in pre-order, one fingerprint per      *)
(* field.  The invariant of module SharedProto must hold at every          *)
(* observation; one VERDICT line per record.                               *)
(***************************************************************************)
EXTENDS Integers, Sequences, FiniteSets, TLC, Json

CONSTANT File
Data == ndJsonDeserialize(File)

SP == INSTANCE SharedProto WITH NStates <- 0, Sites <- {}, Callees <- {}, tree <- <<>>, result <- <<>>, left <- <<>>

VARIABLE idx
Init == idx \in 1..Len(Data)
Next == UNCHANGED idx
Spec == Init /\ [][Next]_idx

Obs == Data[idx].obs
Changed == {k \in 2..Len(Obs) : ~SP!SameTree(Obs[1], Obs[k])}
Verdict ==
    PrintT("VERDICT " \o ToJson(
        IF Changed = {} THEN [id |-> Data[idx].id, ok |-> TRUE, n |-> Len(Obs), k |-> 0, at |-> <<0, 0>>]
        ELSE LET k == CHOOSE x \in Changed : \A y \in Changed : x <= y
             IN [id |-> Data[idx].id, ok |-> FALSE, n |-> Len(Obs), k |-> k, at |-> SP!FirstDiff(Obs[1], Obs[k])]))
=============================================================================
