SPECIFICATION Spec
CONSTANTS
  Vals <- MC6_Vals
  ValSeq <- MC_ValSeq
  Fresh = FALSE
  SortKinds <- MC6_SortKinds
  Seps <- MC_Seps
  Gen = "no"
VIEW view
INVARIANTS ListView ResultsAgree QueriesAgree
CHECK_DEADLOCK FALSE
