SPECIFICATION Spec
CONSTANTS
  Vals <- MC6_Vals
  ValSeq <- MC_ValSeq
  Fresh = FALSE
  SortKinds <- MC6_SortKinds
  Seps <- MC_Seps
  XKeys <- MC_NoXKeys
  XVals <- MC_XVals
  MaxEx = 0
  FillNs <- MC_NoXKeys
  Gen = "no"
VIEW view
INVARIANTS ListView ResultsAgree QueriesAgree
CHECK_DEADLOCK FALSE
