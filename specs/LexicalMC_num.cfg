SPECIFICATION Spec
CONSTANTS
  Mode = "num"
  Alpha <- NumAlpha
  IntGrid <- NoGrid
INVARIANTS NumType BlankLaw DigitsLaw HexLaw SignLaw ExpLaw FracLaw TokenLaw
CHECK_DEADLOCK FALSE
