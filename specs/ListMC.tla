------------------------------- MODULE ListMC -------------------------------
(* Constant definitions for the TLC runs of ListRef (property C18). *)
EXTENDS ListRef

N1 == <<"n", 1>>
N2 == <<"n", 2>>
N3 == <<"n", 3>>
SA == <<"s", "a">>
SB == <<"s", "b">>
BT == <<"b", TRUE>>

MC_Vals == {N1, N2, N3, SA, BT}
MC_ValSeq == <<>>
MC_Seps == {Nil, <<"s", ",">>}
K(k) == [kind |-> k, j |-> 0]
MC_SortKinds == {K("lt"), K("gt"), K("ltf"), K("lt0"), K("true"), K("false"), K("none"), K("alt"),
                 [kind |-> "errat", j |-> 1], [kind |-> "errat", j |-> 3]}

(* histories only, the value set of the design, longer lists *)
MC6_Vals == {N1, N2, N3, SA}
MC6_SortKinds == {}

(* exhaustive export: one fresh value per depth, all histories *)
Gen_ValSeq == <<N3, N1, N2, SA, BT, SB>>
Gen_Vals == {N1, N2, N3, SA, SB, BT}
Gen_SortKinds == {K("lt"), K("gt"), K("true")}

(* random export *)
Sim_Vals == {N1, N2, N3, <<"n", 4>>, <<"n", 5>>, SA, BT}
Sim_SortKinds == {K("lt"), K("gt"), K("ltf"), K("lt0"), K("true"), K("false"), K("none"), K("alt"),
                  [kind |-> "errat", j |-> 1], [kind |-> "errat", j |-> 2], [kind |-> "errat", j |-> 4]}
=============================================================================
