------------------------------- MODULE ListMC -------------------------------
(* Constant definitions for the TLC runs of ListRef (property C18). *)
EXTENDS ListRef

N1 == <<"n", 1>>
N2 == <<"n", 2>>
N3 == <<"n", 3>>
SA == <<"s", "a">>
SB == <<"s", "b">>
BT == <<"b", TRUE>>

MC_Vals == {N1, N2, N3, SA, BT}
MC_ValSeq == <<>>
MC_Seps == {Nil, <<"s", ",">>}
K(k) == [kind |-> k, j |-> 0]
MC_SortKinds == {K("lt"), K("ltnil"), K("gt"), K("ltf"), K("lt0"), K("true"), K("false"), K("none"), K("alt"),
                 [kind |-> "errat", j |-> 1], [kind |-> "errat", j |-> 3]}

MC_NoXKeys == {}
MC_Fills == {2}
MC_XKeys == {<<"f", 1>>, <<"n", 0 - 1>>, <<"p", 40>>}
MC_XVals == {<<"n", 7>>}
MCX_Vals == {N1, SA}
MCX_SortKinds == {K("lt"), K("ltnil")}
Sim_XKeys == {<<"f", 1>>, <<"f", 0>>, <<"f", 0 - 2>>, <<"n", 0 - 1>>, <<"n", 0 - 3>>, <<"p", 40>>, <<"p", 33>>}
Sim_XVals == {<<"n", 7>>, SA}

(* histories only, the value set of the design, longer lists *)
MC6_Vals == {N1, N2, N3, SA}
MC6_SortKinds == {}

(* exhaustive export: one fresh value per depth, all histories *)
Gen_ValSeq == <<N3, N1, N2, SA, BT, SB>>
Gen_Vals == {N1, N2, N3, SA, SB, BT}
Gen_SortKinds == {K("lt"), K("gt"), K("true")}
GenX_SortKinds == {K("ltnil")}

(* random export *)
Sim_Vals == {N1, N2, N3, <<"n", 4>>, <<"n", 5>>, SA, BT}
Sim_SortKinds == {K("lt"), K("ltnil"), K("gt"), K("ltf"), K("lt0"), K("true"), K("false"), K("none"), K("alt"),
                  [kind |-> "errat", j |-> 1], [kind |-> "errat", j |-> 2], [kind |-> "errat", j |-> 4]}
=============================================================================
