SPECIFICATION Spec
CONSTANTS
  Gen = FALSE
  DepthInView = FALSE
VIEW genview
INVARIANTS Refines AnswersOK Bounded
CHECK_DEADLOCK FALSE
