SPECIFICATION Spec
CONSTANTS
  Mode = "gen"
INVARIANTS GenPrint
CHECK_DEADLOCK FALSE
