---------------------------- MODULE RegistryTrace ----------------------------
(***************************************************************************)
(* Trace validation for the register file (property C12).  Each line of    *)
(* File is one history executed on a real registry (lua.VerifNewRegistry): *)
(* the operations, whether each one raised the overflow ("ovf"), succeeded *)
(* ("ok") or died with another Go panic, what Pop returned, and after each *)
(* operation Top(), IsFull() and the content of every register below top.  *)
(* The abstract list of module Registry is advanced by each event and      *)
(* every answer must be admissible.  One VERDICT line per history.         *)
(***************************************************************************)
EXTENDS Integers, Sequences, TLC, Json

CONSTANT File
Data == ndJsonDeserialize(File)

INSTANCE Registry

VARIABLES idx, pos, r, bad
vars == <<idx, pos, r, bad>>

Init ==
    /\ idx \in 1..Len(Data)
    /\ pos = 1
    /\ r = <<>>
    /\ bad = <<>>

Rec == Data[idx]
Ev == Rec.ev
Size == Rec.cfg[1]
Lim == Limit(Rec.cfg[1], Rec.cfg[3])

Post(e) ==
    IF ~Pre(r, e) THEN [ok |-> FALSE, s |-> r, why |-> "harness:precondition"]
    ELSE IF e.r = "ovf"
    THEN (IF MustOverflow(r, e, Lim) THEN [ok |-> TRUE, s |-> r, why |-> ""]
          ELSE [ok |-> FALSE, s |-> r, why |-> "overflow-within-limit"])
    ELSE IF e.r # "ok" THEN [ok |-> FALSE, s |-> r, why |-> "go-panic"]
    ELSE IF MustOverflow(r, e, Lim) THEN [ok |-> FALSE, s |-> r, why |-> "no-overflow-above-limit"]
    ELSE IF e.op = "pop" /\ ~Match(PopResult(r), e.pv) THEN [ok |-> FALSE, s |-> r, why |-> "pop-result"]
    ELSE [ok |-> TRUE, s |-> Apply(r, e), why |-> ""]

Step ==
    /\ bad = <<>>
    /\ pos <= Len(Ev)
    /\ idx' = idx
    /\ LET e == Ev[pos]
           p == Post(e)
       IN IF ~p.ok
          THEN /\ bad' = <<pos, e.op, p.why>>
               /\ UNCHANGED <<r, pos>>
          ELSE IF "o" \in DOMAIN e /\ ~ObsOK(p.s, Size, Lim, e.o)
          THEN /\ bad' = <<pos, e.op, ObsWhy(p.s, Size, Lim, e.o)>>
               /\ UNCHANGED <<r, pos>>
          ELSE /\ r' = p.s
               /\ pos' = pos + 1
               /\ bad' = <<>>

Spec == Init /\ [][Step]_vars

Terminal == bad # <<>> \/ pos > Len(Ev)

Verdict ==
    Terminal => PrintT("VERDICT " \o ToJson(
        [id |-> Rec.id, ok |-> bad = <<>>, n |-> Len(Ev),
         bad |-> IF bad = <<>> THEN <<0, "", "">> ELSE bad]))
=============================================================================
