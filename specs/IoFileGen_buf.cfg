SPECIFICATION Spec
CONSTANTS
  Sizes = {0, 10}
  Lays <- MC_ModesLays
  Modes = {"w+", "r+"}
  RCounts = {2}
  WCounts = {3}
  SOffs = {0, 1}
  VBufs = {"full", "line"}
  MFmts <- MC_None
  VSizes = {0}
  Extra = {"seek0", "seek1", "flush", "close", "peek"}
  Naive = FALSE
  Gen = TRUE
VIEW genview
ACTION_CONSTRAINT GenPrint
CHECK_DEADLOCK FALSE
