----------------------------- MODULE RegistryMC -----------------------------
(* Constant definitions for the TLC runs of RegistryImpl: scaled-down       *)
(* RegistrySize, every GrowStep in 1..3, MaxSize at and around the          *)
(* boundaries {0, size-1, size, size+1, size+step, 2*size}.                 *)
EXTENDS RegistryImpl

CfgsFor(sizes, steps) ==
    UNION {{<<s, g, m>> : m \in {0, s - 1, s, s + 1, s + g, 2 * s}} : s \in sizes, g \in steps}

MC_Cfgs_quick == CfgsFor({3}, {1, 2, 3})
MC_Cfgs_thorough == CfgsFor({4, 5}, {1, 2, 3})
Gen_Cfgs_quick == CfgsFor({3}, {1, 2})
Gen_Cfgs_thorough == CfgsFor({3, 4}, {1, 2, 3})
=============================================================================
