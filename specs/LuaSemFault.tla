---------------------------- MODULE LuaSemFault ----------------------------
(***************************************************************************)
(* Fault enumeration for property C05.  For every program the harness runs *)
(* the real VM once per instruction boundary k, raising a one-shot fault   *)
(* at the k-th dispatch poll; Data[idx].traces[k] is what the program did. *)
(* The specification explores the fault-free run step by step and, at      *)
(* EVERY step boundary j, the run in which the fault is injected there     *)
(* (InjectFault, then the deterministic remainder in one evaluation).      *)
(* For each j one MATCH line lists the real fault points k explained by    *)
(* injection at j.  The driver then requires a NON-DECREASING assignment   *)
(* k |-> j (a lost or duplicated effect cannot hide as a fault elsewhere). *)
(***************************************************************************)
EXTENDS LuaSemTrace

VARIABLES j, fin, pst
fvars == <<idx, st, j, fin, pst>>

TheFault == <<"fault">>

FInit == /\ idx \in 1..Len(Data)
         /\ st = InitState(Data[idx].root)
         /\ pst = InitState(Data[idx].root)
         /\ j = 0
         /\ fin = FALSE

CleanStep == /\ ~fin /\ st.mode = "run" /\ st.steps < MaxSteps
             /\ st' = StepF(Data[idx].nodes, st)
             /\ pst' = st
             /\ j' = j + 1
             /\ UNCHANGED <<idx, fin>>

(* a fault is possible wherever Lua code of the main thread is about to run *)
CanInject(s) == s.mode = "run" /\ s.cur = 0

(* Injection points are grouped into classes of consecutive steps whose raised
   states are identical (pure computation between two effects inside the same
   protected region): the remainder of the run is the same for all of them, so
   only the first step of a class is explored; j names that representative. *)
Raised(s) == [Raise(s, TheFault) EXCEPT !.steps = 0]
IsRep == j = 0 \/ ~CanInject(pst) \/ Raised(st) # Raised(pst)

InjectFault == /\ ~fin /\ CanInject(st) /\ st.steps < MaxSteps /\ IsRep
               /\ st' = RunAll(Data[idx].nodes, Finish(Raise(st, TheFault)), MaxSteps)
               /\ fin' = TRUE
               /\ UNCHANGED <<idx, j, pst>>

FNext == CleanStep \/ InjectFault
FSpec == FInit /\ [][FNext]_fvars

(* does the finished state s explain the recorded trace tr? *)
Explains(s, tr) ==
    /\ s.mode = "done"
    /\ Len(s.out) = Len(tr.emits)
    /\ \A i \in 1..Len(s.out) : ListMatch(s.out[i], tr.emits[i])
    /\ LET e == IF s.res[1] = "ok" THEN <<"ok", TokList(s.res[2], 1, <<>>, s.seen)[1]>>
                ELSE <<"err", TokList(<<s.res[2]>>, 1, <<>>, s.seen)[1][1]>>
           g == tr.outcome
       IN e[1] = g[1] /\ (IF e[1] = "ok" THEN ListMatch(e[2], g[2]) ELSE TokMatch(e[2], g[2]))

Traces == Data[idx].traces

MatchLine ==
    fin => PrintT("MATCH " \o ToJson(
        [id |-> Data[idx].id, j |-> j, mode |-> st.mode,
         ks |-> {k \in 1..Len(Traces) : Explains(st, Traces[k])}]))

(* the fault-free run itself must be the recorded fault-free trace *)
CleanLine ==
    (~fin /\ (st.mode # "run" \/ st.steps >= MaxSteps)) =>
        PrintT("CLEAN " \o ToJson([id |-> Data[idx].id, steps |-> st.steps, mode |-> st.mode,
                                   ok |-> Explains(st, Data[idx].clean)]))
=============================================================================
