SPECIFICATION Spec
CONSTANTS
  Gen = FALSE
VIEW mcview
INVARIANTS TypeOK CacheHit SentinelIsLoop
PROPERTIES Laws
CHECK_DEADLOCK FALSE
