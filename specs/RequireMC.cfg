SPECIFICATION Spec
CONSTANTS
  Gen = FALSE
VIEW mcview
INVARIANTS TypeOK CacheHit SentinelIsLoop HostReachable
PROPERTIES Laws
CHECK_DEADLOCK FALSE
