--------------------------- MODULE BytecodeTrace ---------------------------
(***************************************************************************)
(* Validation of what the real compiler produced (property C07).  Each     *)
(* line of File is one FunctionProto dumped by `vharness c07-dump` after   *)
(* parse.Parse + lua.Compile of a generated source text.  The predicate of *)
(* module Bytecode is evaluated on it; every prototype ends in exactly one *)
(* VERDICT line listing the violated rules (each with its first pc).       *)
(* The evaluation happens in the Next step so that TLC's workers share it. *)
(***************************************************************************)
EXTENDS Integers, Sequences, FiniteSets, TLC, Json, SequencesExt

CONSTANTS File, FrameLimit
Data == ndJsonDeserialize(File)

INSTANCE Bytecode

VARIABLES idx, out
vars == <<idx, out>>

Pending == [pending |-> TRUE]

(* counts reported as coverage: instruction boundaries, multi-word groups,  *)
(* jump/skip edges whose target was checked, opcodes present                *)
JumpOps == {OP_JMP, OP_EQ, OP_LT, OP_LE, OP_TEST, OP_TESTSET, OP_FORLOOP, OP_FORPREP, OP_TFORLOOP}
(* VM-side law (records of `vharness c07-trace`): dpc lists the code words the REAL main *)
(* loop dispatched as instructions while running the program; every one of them must be *)
(* an instruction boundary of the prototype - after an instruction with data words the  *)
(* pc has advanced past those words (the first offending pc is reported)                *)
DynViol(p, hd) ==
    IF "dpc" \notin DOMAIN p THEN {}
    ELSE LET off == {p.dpc[i] : i \in {k \in 1..Len(p.dpc) :
                        p.dpc[k] < 0 \/ p.dpc[k] >= NW(p) \/ ~hd.h[p.dpc[k] + 1]}}
         IN IF off = {} THEN {}
            ELSE {<<"vm:dispatched-a-word-that-is-no-instruction-boundary",
                    CHOOSE m \in off : \A x \in off : m <= x>>}

Result(p) ==
    LET hd == Frame(p)
        v  == Viol(p, hd) \cup DynViol(p, hd)
        hs == {q \in 0..NW(p) - 1 : hd.h[q + 1]}
    IN [id |-> p.id, ok |-> v = {}, n |-> NW(p), nh |-> Cardinality(hs),
        ng |-> Cardinality({q \in hs : GLen(p, q) > 1}),
        nj |-> Cardinality({q \in hs : Op(p, q) \in JumpOps \/ (Op(p, q) = OP_LOADBOOL /\ ArgC(p, q) # 0)}),
        ops |-> SetToSeq({Op(p, q) : q \in hs}),
        bad |-> SetToSeq(v)]

Init == idx \in 1..Len(Data) /\ out = Pending
Next == /\ out = Pending
        /\ out' = Result(Data[idx])
        /\ idx' = idx
Spec == Init /\ [][Next]_vars

Verdict == out # Pending => PrintT("VERDICT " \o ToJson(out))
=============================================================================
