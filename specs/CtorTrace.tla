----------------------------- MODULE CtorTrace -----------------------------
(***************************************************************************)
(* Value law for big table constructors (C07 dyn phase).  The program that *)
(* ran on the real VM is known as a descriptor: N positional items whose   *)
(* value is Val(index), then a tail that delivers r values TailVal(1..r)      *)
(* (nothing / a call / "..." / a parenthesised call).  The table such a    *)
(* constructor denotes is stated in closed form - no simulation:           *)
(*     t[i] = Val(i) for 1 <= i <= N,  t[N+j] = TailVal(j) for 1 <= j <= r,   *)
(*     every other key absent, so border = entries = largest key = N + r.  *)
(* Each line of File carries the descriptor and the digest the harness     *)
(* read from the table the real constructor produced (entries seen by a    *)
(* next() traversal, #t, largest key, values at probed keys); the digest   *)
(* is judged against the closed form; one VERDICT per record.              *)
(***************************************************************************)
EXTENDS Integers, Sequences, FiniteSets, TLC, Json

CONSTANT File
Data == ndJsonDeserialize(File)

VARIABLES idx
Init == idx \in 1..Len(Data)
Next == UNCHANGED idx
Spec == Init /\ [][Next]_idx

Val(i) == (i % 251) + 1            \* the generator writes item i as this literal
TailVal(j) == 900000 + j              \* the j-th value the tail delivers
Nil == -1

Expected(d, k) == IF 1 <= k /\ k <= d.n THEN Val(k)
                  ELSE IF d.n < k /\ k <= d.n + d.r THEN TailVal(k - d.n)
                  ELSE Nil

BadProbes(d) == {i \in 1..Len(d.probes) : d.probes[i][2] # Expected(d, d.probes[i][1])}

Judge(d) ==
    LET bp == BadProbes(d) IN
    IF d.cnt # d.n + d.r THEN <<"entry-count", d.cnt, d.n + d.r>>
    ELSE IF d.other # 0 THEN <<"non-index-keys", d.other, 0>>
    ELSE IF d.maxkey # d.n + d.r THEN <<"largest-key", d.maxkey, d.n + d.r>>
    ELSE IF d.border # d.n + d.r THEN <<"border", d.border, d.n + d.r>>
    ELSE IF bp # {} THEN LET i == CHOOSE x \in bp : \A y \in bp : x <= y IN
                         <<"value-at-key", d.probes[i][1], Expected(d, d.probes[i][1])>>
    ELSE <<"ok", 0, 0>>

Verdict == LET d == Data[idx]  j == Judge(d) IN
           PrintT("VERDICT " \o ToJson([id |-> d.id, ok |-> j[1] = "ok", why |-> j[1], got |-> j[2], exp |-> j[3],
                                        nprobes |-> Len(d.probes)]))
=============================================================================
