---------------------------- MODULE ApiObjTrace ----------------------------
(***************************************************************************)
(* Trace validation for property C10, part 2: the object-level Go API      *)
(* gives exactly what the corresponding Lua expression gives on the same   *)
(* operands, metamethods included.                                         *)
(*                                                                         *)
(* Each line of File is one case: the API method and the Lua expression    *)
(* were evaluated in the same LState on the same operand world; handlers   *)
(* installed in the metatables logged their arguments and returned a value *)
(* fixed by the world description (WFile).  The record holds both outcomes *)
(* (error?, handler calls, results, tables changed).  Required:            *)
(*   (1) API outcome = Lua outcome (no model involved);                    *)
(*   (2) Lua outcome = the operator's definition in LuaSem (DoIndex,       *)
(*       DoNewIndex, DoEq, DoLt, DoConcat, builtins), evaluated on a heap  *)
(*       built from the world description - wherever LuaSem decides it.    *)
(* One VERDICT line per case.                                              *)
(***************************************************************************)
EXTENDS LuaSem, Json

CONSTANTS File, WFile
Data == ndJsonDeserialize(File)
Worlds == JsonDeserialize(WFile)

VARIABLE idx
Init == idx \in 1..Len(Data)
Next == FALSE /\ idx' = idx
Spec == Init /\ [][Next]_idx

(* ---- safe comparison of logged tokens (tag first) ------------------------- *)
TokEq(a, b) == a[1] = b[1] /\ a = b
ListEq(x, y) == Len(x) = Len(y) /\ \A i \in 1..Len(x) : TokEq(x[i], y[i])
CallsEq(x, y) == Len(x) = Len(y) /\ \A i \in 1..Len(x) : x[i][1] = y[i][1] /\ ListEq(x[i][2], y[i][2])
PairsEq(x, y) == Len(x) = Len(y) /\ \A i \in 1..Len(x) : TokEq(x[i][1], y[i][1]) /\ TokEq(x[i][2], y[i][2])
PostEq(x, y) == Len(x) = Len(y) /\ \A i \in 1..Len(x) : x[i][1] = y[i][1] /\ PairsEq(x[i][2], y[i][2])

(* content of a table as a key/value list: same live entries *)
LiveIdx(kv) == {i \in 1..Len(kv) : kv[i][2][1] # "nil"}
SameContent(kv1, kv2) == /\ Cardinality(LiveIdx(kv1)) = Cardinality(LiveIdx(kv2))
                         /\ \A i \in LiveIdx(kv1) : TokEq(TGet(kv2, kv1[i][1]), kv1[i][2])

(* ---- the API's result types ---------------------------------------------------- *)
(* what the API method returns when the Lua expression yields v; "unrep": the
   method's Go result type cannot carry v (Concat -> string, ObjLen -> int) *)
Unrep == <<"unrep">>
ApiView(op, v) ==
    CASE op = "Concat" -> (IF v[1] = "s" THEN v ELSE IF v[1] = "n" THEN ToStr(v) ELSE Unrep)
      [] op = "ObjLen" -> (IF v[1] = "n" THEN v ELSE Unrep)
      [] OTHER -> v
ResAgree(op, apires, luares) ==
    IF op = "ForEachWalk" THEN TRUE        \* ForEach and pairs may differ in order: each is judged as a traversal
    ELSE IF op = "NextWalk" THEN PairsEq(apires, luares)
    ELSE /\ Len(apires) = Len(luares)
         /\ \A i \in 1..Len(luares) : LET w == ApiView(op, luares[i]) IN w = Unrep \/ TokEq(apires[i], w)

(* (1) API against Lua, nothing else *)
ApiLuaFail(R) ==
    IF R.api.err # R.lua.err THEN "err"
    ELSE IF ~CallsEq(R.api.calls, R.lua.calls) THEN "calls"
    ELSE IF ~R.lua.err /\ ~ResAgree(R.op, R.api.res, R.lua.res) THEN "result"
    ELSE IF ~PostEq(R.api.post, R.lua.post) THEN "post"
    ELSE IF "stackleak" \in DOMAIN R.api THEN "stack-leak"
    ELSE ""

(* ---- (2) the operator's definition in LuaSem ------------------------------------- *)
St0(R) == LET W == Worlds[R.w] IN
    [kont |-> <<>>, vals |-> <<>>, cells |-> <<>>, heap |-> [W.heap EXCEPT ![W.G].mt = R.gmt],
     out |-> <<>>, seen |-> <<>>, mode |-> "run", res |-> <<>>, steps |-> 0,
     cur |-> 0, mainK |-> <<>>, mainV |-> <<>>, G |-> W.G, smt |-> W.smt]

IsHandler(W, f) == f[1] = "bi" /\ \E i \in 1..Len(W.ret) : W.ret[i][1] = f[2]
RetOf(W, name) == W.ret[CHOOSE i \in 1..Len(W.ret) : W.ret[i][1] = name][2]

Out(k, calls, v, heap) == [k |-> k, calls |-> calls, v |-> v, heap |-> heap]

(* Read one operator application off the machine state it produced: a value,
   an error, or ONE pending handler call with its continuation (first result /
   dropped / converted to a boolean).  The handler is opaque: it returns the
   value the world description fixes for it. *)
Eval1(W, s) ==
    IF s.mode = "unmod" THEN Out("unmod", <<>>, Nil, s.heap)
    ELSE IF s.mode = "done" THEN Out("err", <<>>, Nil, s.heap)
    ELSE IF s.kont = <<>> THEN Out("val", <<>>, IF s.vals = <<>> THEN Nil ELSE FirstOrNil(Top(s.vals)), s.heap)
    ELSE LET n == Len(s.vals)
             f == s.vals[n - 1][1]
             args == s.vals[n]
             below == SubSeq(s.kont, 1, Len(s.kont) - 1)
         IN IF Top(s.kont).w # "call" \/ ~IsHandler(W, f) \/ Len(below) > 1 THEN Out("unmod", <<>>, Nil, s.heap)
            ELSE LET r0 == RetOf(W, f[2])
                     r == IF r0[1] = "arg" THEN NthOrNil(args, r0[2]) ELSE r0    \* a handler returning its i-th argument
                     v == IF r = <<"raise">> THEN r          \* the handler raises an error
                          ELSE IF below = <<>> THEN r
                          ELSE IF below[1].w = "drop" THEN Nil
                          ELSE IF below[1].w = "tobool" THEN Bool(IF below[1].neg THEN ~Truthy(r) ELSE Truthy(r))
                          ELSE <<"?">>
                 IN IF v = <<"?">> THEN Out("unmod", <<>>, Nil, s.heap)
                    ELSE IF v = <<"raise">> THEN Out("err", <<<<f[2], args>>>>, Nil, s.heap)
                    ELSE Out("val", <<<<f[2], args>>>>, v, s.heap)

Cat2(W, st, a, b) == Eval1(W, DoConcat(st, a, b, NoPos))
(* a .. b .. c is right associative: (b .. c) first *)
Cat3(W, st, a, b, c) ==
    LET o1 == Cat2(W, st, b, c) IN
    IF o1.k # "val" THEN o1
    ELSE LET o2 == Cat2(W, st, a, o1.v) IN [o2 EXCEPT !.calls = o1.calls \o @]

(* a < b: operands of different types are an order error before any handler
   is looked up (lvm.c luaV_lessthan) *)
Lt(W, st, a, b) == IF a[1] # b[1] THEN Out("err", <<>>, Nil, st.heap) ELSE Eval1(W, DoLt(st, a, b, NoPos))

(* #v (manual 2.8 len_event): strings, tables (primitive length; a __len field
   of a table is ignored by Lua 5.1 - gopher-lua honours it, so those operands
   are left to the API = Lua comparison), everything else through __len *)
LenOf(W, st, a) ==
    IF a[1] = "s" THEN Out("val", <<>>, Num(Len(a[2])), st.heap)
    ELSE IF a[1] = "t"
    THEN (IF MetaField(st, a, "__len") # Nil THEN Out("unmod", <<>>, Nil, st.heap)
          ELSE IF BorderUnique(st.heap[a[2]].kv) THEN Out("val", <<>>, Num(SmallestBorder(st.heap[a[2]].kv)), st.heap)
          ELSE Out("unmod", <<>>, Nil, st.heap))
    ELSE LET h == MetaField(st, a, "__len") IN
         IF h = Nil THEN Out("err", <<>>, Nil, st.heap)
         ELSE Eval1(W, CallValue(st, h, <<a>>, FALSE, NoPos))

(* getmetatable(v) (manual 5.1): nil without a metatable; the value of the metatable's
   __metatable field whenever that field is present (non-nil) - whatever the value,
   false included; the metatable itself otherwise.  R.tmt lists the type metatables
   installed for this case (numbers, booleans, nil, functions, strings). *)
TypeMtRef(R, v) == LET s == {i \in 1..Len(R.tmt) : R.tmt[i][1] = v[1]} IN
                   IF s = {} THEN 0 ELSE R.tmt[CHOOSE i \in s : TRUE][2]
MtRef(R, st, v) == IF v[1] \in {"t", "u"} THEN st.heap[v[2]].mt
                   ELSE IF TypeMtRef(R, v) # 0 THEN TypeMtRef(R, v)
                   ELSE IF v[1] = "s" THEN st.smt ELSE 0
MtField(st, ref) == TGet(st.heap[ref].kv, Str(Bytes("__metatable")))
GetMt(R, st, v) == LET ref == MtRef(R, st, v) IN
                   IF ref = 0 THEN Nil
                   ELSE IF MtField(st, ref) # Nil THEN MtField(st, ref) ELSE <<"t", ref>>
RawMt(R, st, v) == LET ref == MtRef(R, st, v) IN IF ref = 0 THEN Nil ELSE <<"t", ref>>
(* setmetatable(t, m) on a table: refused when the current metatable has a __metatable field *)
ProtSet(R, st, t, m) ==
    IF t[1] # "t" \/ ~(m[1] \in {"nil", "t"}) THEN Out("unmod", <<>>, Nil, st.heap)
    ELSE IF st.heap[t[2]].mt # 0 /\ MtField(st, st.heap[t[2]].mt) # Nil THEN Out("err", <<>>, Nil, st.heap)
    ELSE Out("val", <<>>, <<t, m>>, st.heap)

Known(v) == v[1] \in {"nil", "b", "n", "s", "t", "u", "bi"}

SpecOutcome(R) ==
    LET W == Worlds[R.w]  st == St0(R)  a == R.a  G == <<"t", W.G>> IN
    IF R.op \in {"Next", "NextWalk", "ForEachWalk"}
    THEN (* traversal: decided on tokens only (keys may be non-integral numbers).  next(t, k) with a k
            that is not a field of t is an error ("invalid key to 'next'").  A positive integer k is
            not judged: a field cleared during a traversal stays a valid key, and an array slot that
            was cleared and trimmed cannot be told from one that never existed *)
         (IF R.op # "Next" \/ a[2][1] = "nil" \/ KvIdx(st.heap[a[1][2]].kv, a[2]) # {} THEN Out("val", <<>>, Nil, st.heap)
          ELSE IF a[2][1] = "n" /\ a[2][2] >= 1 THEN Out("unmod", <<>>, Nil, st.heap)
          ELSE Out("err", <<>>, Nil, st.heap))
    ELSE IF \E i \in 1..Len(a) : ~Known(a[i]) THEN Out("unmod", <<>>, Nil, st.heap)
    ELSE IF R.tmt # <<>> /\ R.op # "GetMetatable" THEN Out("unmod", <<>>, Nil, st.heap)   \* LuaSem knows no type metatables
    ELSE CASE R.op \in {"GetTable", "GetField", "GetFieldT"} -> Eval1(W, DoIndex(st, a[1], a[2], NoPos, 100))
           [] R.op \in {"SetTable", "SetField", "SetFieldT"} -> Eval1(W, DoNewIndex(st, a[1], a[2], a[3], NoPos, 100))
           [] R.op = "GetGlobal" -> Eval1(W, DoIndex(st, G, a[1], NoPos, 100))
           [] R.op = "SetGlobal" -> Eval1(W, DoNewIndex(st, G, a[1], a[2], NoPos, 100))
           [] R.op = "Equal" -> Eval1(W, DoEq(st, a[1], a[2], FALSE, NoPos))
           [] R.op = "RawEqual" -> Eval1(W, Builtin(<<>>, st, "rawequal", a, FALSE, NoPos))
           [] R.op = "LessThan" -> Lt(W, st, a[1], a[2])
           [] R.op = "Concat" -> (IF Len(a) = 0 THEN Out("val", <<>>, Str(<<>>), st.heap)   \* nothing to concatenate: ""
                                  ELSE IF Len(a) = 2 THEN Cat2(W, st, a[1], a[2]) ELSE Cat3(W, st, a[1], a[2], a[3]))
           [] R.op = "ObjLen" -> LenOf(W, st, a[1])
           [] R.op = "GetMetatable" -> Out("val", <<>>, GetMt(R, st, a[1]), st.heap)
           [] R.op = "RawMetatable" -> Out("val", <<>>, RawMt(R, st, a[1]), st.heap)
           [] R.op = "ProtectedSet" -> ProtSet(R, st, a[1], a[2])
           [] R.op = "ToStringMeta" -> Eval1(W, Builtin(<<>>, st, "tostring", a, FALSE, NoPos))
           [] OTHER -> Out("val", <<>>, Nil, st.heap)          \* Next / NextWalk: judged by NextOK

(* next(t, k): the order is unspecified; a result must be a live entry other
   than k with its current value, nil only when allowed; a complete walk lists
   every live entry exactly once *)
NextOK(R, res) ==
    LET kv == Worlds[R.w].heap[R.a[1][2]].kv IN
    IF R.op = "Next"
    THEN /\ Len(res) = 2
         /\ IF res[1][1] = "nil" THEN res[2][1] = "nil" /\ (R.a[2][1] = "nil" => LiveIdx(kv) = {})
            ELSE res[2][1] # "nil" /\ TokEq(TGet(kv, res[1]), res[2]) /\ ~TokEq(res[1], R.a[2])
    ELSE /\ SameContent(res, kv)
         /\ \A i, j \in 1..Len(res) : i # j => ~TokEq(res[i][1], res[j][1])

TabRefs(W) == {r \in 1..Len(W.heap) : W.heap[r].o = "tab" /\ W.heap[r].builtin \notin {"smt", "string"}}
PostOK(R, O) ==
    LET W == Worlds[R.w] IN
    \A r \in TabRefs(W) :
        LET obs == {i \in 1..Len(R.lua.post) : R.lua.post[i][1] = r} IN
        IF obs = {} THEN SameContent(O.heap[r].kv, St0(R).heap[r].kv)
        ELSE SameContent(O.heap[r].kv, R.lua.post[CHOOSE i \in obs : TRUE][2])

SpecFail(R, O) ==
    IF R.lua.err # (O.k = "err") THEN "err"
    ELSE IF ~CallsEq(R.lua.calls, O.calls) THEN "calls"
    ELSE IF R.op \in {"Next", "NextWalk", "ForEachWalk"} THEN (IF O.k = "err" \/ (NextOK(R, R.lua.res) /\ NextOK(R, R.api.res)) THEN "" ELSE "result")
    ELSE IF O.k = "val" /\ R.op \in {"SetTable", "SetField", "SetFieldT", "SetGlobal"} /\ Len(R.lua.res) # 0 THEN "result"
    ELSE IF O.k = "val" /\ R.op = "ProtectedSet"
            /\ ~(Len(R.lua.res) = 2 /\ TokEq(R.lua.res[1], O.v[1]) /\ TokEq(R.lua.res[2], O.v[2])) THEN "result"
    ELSE IF O.k = "val" /\ R.op \notin {"SetTable", "SetField", "SetFieldT", "SetGlobal", "ProtectedSet"}
            /\ ~(Len(R.lua.res) = 1 /\ TokEq(R.lua.res[1], O.v)) THEN "result"
    ELSE IF ~PostOK(R, O) THEN "post"
    ELSE ""

Judge(R) ==
    LET al == ApiLuaFail(R) IN
    IF al # "" THEN [id |-> R.id, v |-> "bad", who |-> "api-vs-lua", why |-> al, modelled |-> FALSE, exp |-> <<>>]
    ELSE LET O == SpecOutcome(R) IN
         IF O.k = "unmod" THEN [id |-> R.id, v |-> "ok", who |-> "", why |-> "", modelled |-> FALSE, exp |-> <<>>]
         ELSE LET sf == SpecFail(R, O) IN
              IF sf # "" THEN [id |-> R.id, v |-> "bad", who |-> "lua-vs-spec", why |-> sf, modelled |-> TRUE,
                               exp |-> <<O.k, O.calls, O.v>>]
              ELSE [id |-> R.id, v |-> "ok", who |-> "", why |-> "", modelled |-> TRUE, exp |-> <<>>]

Verdict == PrintT("VERDICT " \o ToJson(Judge(Data[idx])))
=============================================================================
