SPECIFICATION Spec
CONSTANTS
  Sizes <- MC_HugeSizes
  Lays <- MC_ModesLays
  Modes = {"r", "r+"}
  RCounts <- MC_HugeCounts
  WCounts = {2, 65537}
  SOffs <- MC_HugeSOffs
  VBufs <- MC_None
  MFmts <- MC_None
  VSizes = {0}
  Extra = {"readline", "seek0", "peek"}
  Naive = FALSE
  Gen = TRUE
VIEW genview
ACTION_CONSTRAINT GenPrintG1
CHECK_DEADLOCK FALSE
