SPECIFICATION Spec
INVARIANT Verdict
CHECK_DEADLOCK FALSE
