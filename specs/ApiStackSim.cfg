SPECIFICATION Spec
CONSTANTS
  Gen = FALSE
ACTION_CONSTRAINT SimPrint
CHECK_DEADLOCK FALSE
