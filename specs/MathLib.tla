------------------------------- MODULE MathLib ------------------------------
(***************************************************************************)
(* Property C15, math part: floor ceil abs max min fmod modf frexp ldexp   *)
(* pow sqrt over integers and dyadic rationals m * 2^e (exactly            *)
(* representable both in float64 and in TLA+), plus the infinities where   *)
(* ISO C (Annex F) fixes the result, and math.random's range.              *)
(*                                                                         *)
(* A finite number is a record [m, e] (value m * 2^e, not necessarily      *)
(* normalised).  Number tokens (the form shared with the harness):         *)
(*   <<"n", i>>      integer with |i| < 2^30                               *)
(*   <<"q", m, e>>   m odd, any other finite dyadic value                  *)
(*   <<"inf", s>>    s = 1 / -1          <<"nan">>                         *)
(* Every result that is not exactly such a value is "unmodelled" (the      *)
(* operators return <<"undef">>): TLC has no floating point, so inexact    *)
(* IEEE results are out of this specification's reach.                     *)
(***************************************************************************)
EXTENDS Integers, Sequences

Abs(x) == IF x < 0 THEN -x ELSE x
Sgn(x) == IF x < 0 THEN -1 ELSE IF x > 0 THEN 1 ELSE 0

RECURSIVE NormME(_, _)
NormME(m, e) ==
    IF m = 0 THEN [m |-> 0, e |-> 0]
    ELSE IF m % 2 = 0 THEN NormME(m \div 2, e + 1)
    ELSE [m |-> m, e |-> e]

IntLimit == 1073741823                       \* 2^30 - 1

(* token of the finite value m * 2^e *)
Tok(x) ==
    LET n == NormME(x.m, x.e)
    IN IF n.e >= 0 /\ n.e <= 29 /\ Abs(n.m) <= IntLimit \div (2 ^ n.e)
       THEN <<"n", n.m * (2 ^ n.e)>>
       ELSE <<"q", n.m, n.e>>

Inf(s) == <<"inf", s>>
NaN == <<"nan">>
Undef == <<"undef">>

IsFinite(t) == t[1] \in {"n", "q"}
(* arguments small enough for exact 32-bit integer arithmetic in TLC *)
SmallNum(t) == CASE t[1] = "n" -> (t[2] >= -1048576 /\ t[2] <= 1048576)
                 [] t[1] = "q" -> (t[2] >= -16384 /\ t[2] <= 16384 /\ t[3] >= -7 /\ t[3] <= 7)
                 [] OTHER -> TRUE
IsNum(t) == t[1] \in {"n", "q", "inf", "nan"}
D(t) == IF t[1] = "n" THEN [m |-> t[2], e |-> 0] ELSE [m |-> t[2], e |-> t[3]]

(* both values as integers over the common exponent *)
E0(a, b) == IF a.e <= b.e THEN a.e ELSE b.e
Al(a, e0) == a.m * (2 ^ (a.e - e0))

DLess(a, b) == Al(a, E0(a, b)) < Al(b, E0(a, b))
DEq(a, b) == Al(a, E0(a, b)) = Al(b, E0(a, b))
DAdd(a, b) == [m |-> Al(a, E0(a, b)) + Al(b, E0(a, b)), e |-> E0(a, b)]
DNeg(a) == [m |-> -a.m, e |-> a.e]
DSub(a, b) == DAdd(a, DNeg(b))
DMul(a, b) == [m |-> a.m * b.m, e |-> a.e + b.e]
DInt(i) == [m |-> i, e |-> 0]
DIsInt(a) == LET n == NormME(a.m, a.e) IN n.e >= 0

(* order on tokens including the infinities (no NaN) *)
TLess(s, t) ==
    CASE s[1] = "inf" -> (s[2] = -1 /\ ~(t[1] = "inf" /\ t[2] = -1))
      [] t[1] = "inf" -> t[2] = 1
      [] OTHER -> DLess(D(s), D(t))

-----------------------------------------------------------------------------
(* finite definitions *)

DFloor(a) == IF a.e >= 0 THEN a ELSE DInt(a.m \div (2 ^ (-a.e)))     \* \div floors
DCeil(a) == DNeg(DFloor(DNeg(a)))
DTrunc(a) == IF a.m >= 0 THEN DFloor(a) ELSE DCeil(a)

RECURSIVE BitLen(_)
BitLen(n) == IF n = 0 THEN 0 ELSE 1 + BitLen(n \div 2)                \* n >= 0

(* C fmod: a - trunc(a/b)*b, sign of the dividend *)
DFmod(a, b) ==
    LET e0 == E0(a, b)
        A == Al(a, e0)
        B == Al(b, e0)
    IN [m |-> Sgn(A) * (Abs(A) % Abs(B)), e |-> e0]

RECURSIVE IPow(_, _)
IPow(b, k) == IF k = 0 THEN 1 ELSE b * IPow(b, k - 1)

RECURSIVE ISqrtFrom(_, _)
ISqrtFrom(n, r) == IF (r + 1) * (r + 1) > n THEN r ELSE ISqrtFrom(n, r + 1)
ISqrt(n) == ISqrtFrom(n, 0)

(* exact square root of a non-negative dyadic, <<>> when it is not dyadic  *)
DSqrt(a) ==
    LET n == NormME(a.m, a.e)
        r == ISqrt(n.m)
    IN IF n.m = 0 THEN <<DInt(0)>>
       ELSE IF n.e % 2 = 0 /\ r * r = n.m THEN <<[m |-> r, e |-> n.e \div 2]>>
       ELSE <<>>

-----------------------------------------------------------------------------
(* the library functions on tokens; results are sequences of tokens.  The  *)
(* three functions with inexact or unspecified cases (frexp, sqrt, pow)    *)
(* return Def(results) or Undef, both tagged in position 1.                *)
Def(ts) == <<"ok", ts>>

MFloor(t) == IF IsFinite(t) THEN <<Tok(DFloor(D(t)))>> ELSE <<t>>
MCeil(t) == IF IsFinite(t) THEN <<Tok(DCeil(D(t)))>> ELSE <<t>>
MAbs(t) == CASE IsFinite(t) -> <<Tok([m |-> Abs(D(t).m), e |-> D(t).e])>>
             [] t[1] = "inf" -> <<Inf(1)>>
             [] OTHER -> <<t>>

(* modf: integral part (truncation) and fraction, both with the sign of x; *)
(* modf(+-inf) = +-inf, +-0                                                *)
MModf(t) ==
    CASE IsFinite(t) -> <<Tok(DTrunc(D(t))), Tok(DSub(D(t), DTrunc(D(t))))>>
      [] t[1] = "inf" -> <<t, <<"n", 0>>>>
      [] OTHER -> <<NaN, NaN>>

(* frexp: x = f * 2^ex with 0.5 <= |f| < 1, frexp(0) = 0, 0 *)
MFrexp(t) ==
    IF ~IsFinite(t) THEN Undef                     \* exponent unspecified by ISO C
    ELSE LET n == NormME(D(t).m, D(t).e)
             b == BitLen(Abs(n.m))
         IN IF n.m = 0 THEN Def(<<<<"n", 0>>, <<"n", 0>>>>)
            ELSE Def(<<Tok([m |-> n.m, e |-> -b]), <<"n", n.e + b>>>>)

(* the double nearest to m * 2^e (round half even): overflow gives an       *)
(* infinity, below 2^-1074 the value is rounded to a multiple of 2^-1074.   *)
(* |m| <= 2^20 (WideNum), so the mantissa itself never needs rounding.      *)
Round64(x) ==
    LET n == NormME(x.m, x.e)
        b == BitLen(Abs(n.m))
    IN IF n.m = 0 THEN <<"n", 0>>
       ELSE IF n.e + b - 1 > 1023 THEN Inf(Sgn(n.m))
       ELSE IF n.e >= -1074 THEN Tok(n)
       ELSE LET sh == -1074 - n.e IN
            IF sh > b THEN <<"n", 0>>
            ELSE LET mag == Abs(n.m)
                     den == 2 ^ sh
                     q == mag \div den
                     r == mag % den
                     up == 2 * r > den \/ (2 * r = den /\ q % 2 = 1)
                 IN Tok([m |-> Sgn(n.m) * (IF up THEN q + 1 ELSE q), e |-> -1074])
Representable(t) == ~IsFinite(t) \/ Round64(D(t)) = t
(* arguments of ldexp / frexp: any exponent a double can have *)
WideNum(t) == CASE t[1] = "n" -> (t[2] >= -1048576 /\ t[2] <= 1048576)
                [] t[1] = "q" -> (t[2] >= -1048576 /\ t[2] <= 1048576 /\ t[3] >= -2400 /\ t[3] <= 2400)
                [] OTHER -> TRUE

(* ldexp(x, k) = x * 2^k as a double *)
MLdexp(t, k) == IF IsFinite(t) THEN <<Round64([m |-> D(t).m, e |-> D(t).e + k])>> ELSE <<t>>

MFmod(s, t) ==
    CASE s[1] = "nan" \/ t[1] = "nan" -> <<NaN>>
      [] s[1] = "inf" -> <<NaN>>
      [] t[1] = "inf" -> <<s>>
      [] D(t).m = 0 -> <<NaN>>
      [] OTHER -> <<Tok(DFmod(D(s), D(t)))>>

MSqrt(t) ==
    CASE t[1] = "nan" -> Def(<<NaN>>)
      [] t[1] = "inf" -> (IF t[2] = 1 THEN Def(<<t>>) ELSE Def(<<NaN>>))
      [] D(t).m < 0 -> Def(<<NaN>>)
      [] OTHER -> (LET r == DSqrt(D(t)) IN IF r = <<>> THEN Undef ELSE Def(<<Tok(r[1])>>))

(* pow for finite x and an exponent that is an integer or an odd multiple  *)
(* of 1/2, wherever the exact result is a dyadic rational (ISO C F.9.4.4   *)
(* for the zero / negative base cases); everything else is unmodelled      *)
PowBound == 12
PowFits(m, k) == BitLen(Abs(m)) * k <= 30                   \* m^k stays a TLC integer

MPow(s, t) ==
    IF ~IsFinite(s) \/ ~IsFinite(t) THEN Undef
    ELSE LET x == NormME(D(s).m, D(s).e)
             y == NormME(D(t).m, D(t).e)
         IN IF y.m = 0 THEN Def(<<<<"n", 1>>>>)                                    \* pow(x, 0) = 1
            ELSE IF y.e >= 0 THEN                                              \* integer exponent
                 (IF y.e > 4 \/ Abs(y.m * (2 ^ y.e)) > PowBound THEN Undef
                  ELSE LET k == y.m * (2 ^ y.e) IN
                       IF x.m = 0 THEN (IF k > 0 THEN Def(<<<<"n", 0>>>>) ELSE Def(<<Inf(1)>>))
                       ELSE IF ~PowFits(x.m, Abs(k)) THEN Undef
                       ELSE IF k > 0 THEN Def(<<Tok([m |-> IPow(x.m, k), e |-> x.e * k])>>)
                       ELSE IF Abs(x.m) = 1                                    \* 1 / 2^j is dyadic
                            THEN Def(<<Tok([m |-> IPow(x.m, -k), e |-> x.e * k])>>)
                       ELSE Undef)
            ELSE IF x.m < 0 THEN Def(<<NaN>>)                    \* negative base, non-integer exponent
            ELSE IF y.e = -1 /\ Abs(y.m) <= PowBound THEN                     \* exponent k/2, k odd
                 (IF x.m = 0 THEN (IF y.m > 0 THEN Def(<<<<"n", 0>>>>) ELSE Def(<<Inf(1)>>))
                  ELSE LET r == DSqrt(x) IN
                       IF r = <<>> \/ ~PowFits(r[1].m, Abs(y.m)) THEN Undef
                       ELSE IF y.m > 0 THEN Def(<<Tok([m |-> IPow(r[1].m, y.m), e |-> r[1].e * y.m])>>)
                       ELSE IF r[1].m = 1 THEN Def(<<Tok([m |-> 1, e |-> r[1].e * y.m])>>)
                       ELSE Undef)
            ELSE Undef

(* max / min over all arguments (no NaN arguments) *)
RECURSIVE MFold(_, _, _)
MFold(ts, k, takeLess) ==
    IF k = 1 THEN ts[1]
    ELSE LET best == MFold(ts, k - 1, takeLess) IN
         IF takeLess THEN (IF TLess(ts[k], best) THEN ts[k] ELSE best)
         ELSE (IF TLess(best, ts[k]) THEN ts[k] ELSE best)
MMax(ts) == <<MFold(ts, Len(ts), FALSE)>>
MMin(ts) == <<MFold(ts, Len(ts), TRUE)>>

(* math.random(m, n): any integer in m..n; math.random(m) = random(1, m);  *)
(* an empty interval is an error                                           *)
RandomEmpty(lo, hi) == lo > hi
RandomAdmits(lo, hi, t) == t[1] = "n" /\ lo <= t[2] /\ t[2] <= hi
=============================================================================
