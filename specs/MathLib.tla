------------------------------- MODULE MathLib ------------------------------
(***************************************************************************)
(* Property C15, math part: floor ceil abs max min fmod modf frexp ldexp   *)
(* pow sqrt over integers and dyadic rationals m * 2^e (exactly            *)
(* representable both in float64 and in TLA+), plus the infinities where   *)
(* ISO C (Annex F) fixes the result, and math.random's range.              *)
(*                                                                         *)
(* A finite number is a record [m, e] (value m * 2^e, not necessarily      *)
(* normalised).  Number tokens (the form shared with the harness):         *)
(*   <<"n", i>>      integer with |i| < 2^30                               *)
(*   <<"q", m, e>>   m odd, any other finite dyadic value                  *)
(*   <<"inf", s>>    s = 1 / -1          <<"nan">>                         *)
(* Every result that is not exactly such a value is "unmodelled" (the      *)
(* operators return <<"undef">>): TLC has no floating point, so inexact    *)
(* IEEE results are out of this specification's reach.                     *)
(***************************************************************************)
EXTENDS Integers, Sequences

Abs(x) == IF x < 0 THEN -x ELSE x
Sgn(x) == IF x < 0 THEN -1 ELSE IF x > 0 THEN 1 ELSE 0

RECURSIVE NormME(_, _)
NormME(m, e) ==
    IF m = 0 THEN [m |-> 0, e |-> 0]
    ELSE IF m % 2 = 0 THEN NormME(m \div 2, e + 1)
    ELSE [m |-> m, e |-> e]

IntLimit == 1073741823                       \* 2^30 - 1

(* token of the finite value m * 2^e (a zero is +0) *)
Tok(x) ==
    LET n == NormME(x.m, x.e)
    IN IF n.e >= 0 /\ n.e <= 29 /\ Abs(n.m) <= IntLimit \div (2 ^ n.e)
       THEN <<"n", n.m * (2 ^ n.e)>>
       ELSE <<"q", n.m, n.e>>

Inf(s) == <<"inf", s>>
NaN == <<"nan">>
Undef == <<"undef">>

IsFinite(t) == t[1] \in {"n", "q", "nz"}
(* arguments small enough for exact 32-bit integer arithmetic in TLC *)
SmallNum(t) == CASE t[1] = "n" -> (t[2] >= -1048576 /\ t[2] <= 1048576)
                 [] t[1] = "q" -> (t[2] >= -16384 /\ t[2] <= 16384 /\ t[3] >= -7 /\ t[3] <= 7)
                 [] OTHER -> TRUE
IsNum(t) == t[1] \in {"n", "q", "nz", "inf", "nan"}
D(t) == IF t[1] = "n" THEN [m |-> t[2], e |-> 0]
        ELSE IF t[1] = "nz" THEN [m |-> 0, e |-> 0]
        ELSE [m |-> t[2], e |-> t[3]]
(* signed zero: <<"n", 0>> is +0, <<"nz">> is -0 (observable through 1/x and *)
(* the sign bit); every operator below states the sign of a zero result      *)
NegZero == <<"nz">>
PosZero == <<"n", 0>>
ZeroTok(neg) == IF neg THEN NegZero ELSE PosZero
IsZeroTok(t) == t = PosZero \/ t = NegZero
SignNeg(t) == CASE t[1] = "nz" -> TRUE                      \* the sign bit (no NaN)
                [] t[1] = "inf" -> t[2] = -1
                [] OTHER -> D(t).m < 0
(* token of the finite value x, a zero taking the given sign *)
TokS(x, negIfZero) == IF x.m = 0 THEN ZeroTok(negIfZero) ELSE Tok(x)

(* both values as integers over the common exponent *)
E0(a, b) == IF a.e <= b.e THEN a.e ELSE b.e
Al(a, e0) == a.m * (2 ^ (a.e - e0))

DLess(a, b) == Al(a, E0(a, b)) < Al(b, E0(a, b))
DEq(a, b) == Al(a, E0(a, b)) = Al(b, E0(a, b))
DAdd(a, b) == [m |-> Al(a, E0(a, b)) + Al(b, E0(a, b)), e |-> E0(a, b)]
DNeg(a) == [m |-> -a.m, e |-> a.e]
DSub(a, b) == DAdd(a, DNeg(b))
DMul(a, b) == [m |-> a.m * b.m, e |-> a.e + b.e]
DInt(i) == [m |-> i, e |-> 0]
DIsInt(a) == LET n == NormME(a.m, a.e) IN n.e >= 0

(* order on tokens including the infinities (no NaN) *)
TLess(s, t) ==
    CASE s[1] = "inf" -> (s[2] = -1 /\ ~(t[1] = "inf" /\ t[2] = -1))
      [] t[1] = "inf" -> t[2] = 1
      [] OTHER -> DLess(D(s), D(t))

-----------------------------------------------------------------------------
(* finite definitions *)

DFloor(a) == IF a.e >= 0 THEN a ELSE DInt(a.m \div (2 ^ (-a.e)))     \* \div floors
DCeil(a) == DNeg(DFloor(DNeg(a)))
DTrunc(a) == IF a.m >= 0 THEN DFloor(a) ELSE DCeil(a)

RECURSIVE BitLen(_)
BitLen(n) == IF n = 0 THEN 0 ELSE 1 + BitLen(n \div 2)                \* n >= 0

(* C fmod: a - trunc(a/b)*b, sign of the dividend *)
DFmod(a, b) ==
    LET e0 == E0(a, b)
        A == Al(a, e0)
        B == Al(b, e0)
    IN [m |-> Sgn(A) * (Abs(A) % Abs(B)), e |-> e0]

RECURSIVE IPow(_, _)
IPow(b, k) == IF k = 0 THEN 1 ELSE b * IPow(b, k - 1)

RECURSIVE ISqrtFrom(_, _)
ISqrtFrom(n, r) == IF (r + 1) * (r + 1) > n THEN r ELSE ISqrtFrom(n, r + 1)
ISqrt(n) == ISqrtFrom(n, 0)

(* exact square root of a non-negative dyadic, <<>> when it is not dyadic  *)
DSqrt(a) ==
    LET n == NormME(a.m, a.e)
        r == ISqrt(n.m)
    IN IF n.m = 0 THEN <<DInt(0)>>
       ELSE IF n.e % 2 = 0 /\ r * r = n.m THEN <<[m |-> r, e |-> n.e \div 2]>>
       ELSE <<>>

-----------------------------------------------------------------------------
(* the library functions on tokens; results are sequences of tokens.  The  *)
(* three functions with inexact or unspecified cases (frexp, sqrt, pow)    *)
(* return Def(results) or Undef, both tagged in position 1.                *)
Def(ts) == <<"ok", ts>>

(* floor gives -0 only for -0; ceil gives -0 for every x in (-1, 0] with the sign bit *)
MFloor(t) == IF IsFinite(t) THEN <<TokS(DFloor(D(t)), t = NegZero)>> ELSE <<t>>
MCeil(t) == IF IsFinite(t) THEN <<TokS(DCeil(D(t)), SignNeg(t))>> ELSE <<t>>
MAbs(t) == CASE IsFinite(t) -> <<Tok([m |-> Abs(D(t).m), e |-> D(t).e])>>
             [] t[1] = "inf" -> <<Inf(1)>>
             [] OTHER -> <<t>>

(* modf: integral part (truncation) and fraction, both with the sign of x; *)
(* modf(+-inf) = +-inf, +-0                                                *)
MModf(t) ==
    CASE IsFinite(t) -> <<TokS(DTrunc(D(t)), SignNeg(t)), TokS(DSub(D(t), DTrunc(D(t))), SignNeg(t))>>
      [] t[1] = "inf" -> <<t, ZeroTok(SignNeg(t))>>
      [] OTHER -> <<NaN, NaN>>

(* frexp: x = f * 2^ex with 0.5 <= |f| < 1, frexp(0) = 0, 0 *)
MFrexp(t) ==
    IF ~IsFinite(t) THEN Undef                     \* exponent unspecified by ISO C
    ELSE LET n == NormME(D(t).m, D(t).e)
             b == BitLen(Abs(n.m))
         IN IF n.m = 0 THEN Def(<<t, <<"n", 0>>>>)                 \* frexp(+-0) = +-0, 0
            ELSE Def(<<Tok([m |-> n.m, e |-> -b]), <<"n", n.e + b>>>>)

(* the double nearest to m * 2^e (round half even): overflow gives an       *)
(* infinity, below 2^-1074 the value is rounded to a multiple of 2^-1074.   *)
(* |m| <= 2^20 (WideNum), so the mantissa itself never needs rounding.      *)
Round64(x) ==
    LET n == NormME(x.m, x.e)
        b == BitLen(Abs(n.m))
    IN IF n.m = 0 THEN <<"n", 0>>
       ELSE IF n.e + b - 1 > 1023 THEN Inf(Sgn(n.m))
       ELSE IF n.e >= -1074 THEN Tok(n)
       ELSE LET sh == -1074 - n.e IN
            IF sh > b THEN <<"n", 0>>
            ELSE LET mag == Abs(n.m)
                     den == 2 ^ sh
                     q == mag \div den
                     r == mag % den
                     up == 2 * r > den \/ (2 * r = den /\ q % 2 = 1)
                 IN Tok([m |-> Sgn(n.m) * (IF up THEN q + 1 ELSE q), e |-> -1074])
Representable(t) == ~IsFinite(t) \/ t = NegZero \/ Round64(D(t)) = t
(* arguments of ldexp / frexp: any exponent a double can have *)
WideNum(t) == CASE t[1] = "n" -> (t[2] >= -1048576 /\ t[2] <= 1048576)
                [] t[1] = "q" -> (t[2] >= -1048576 /\ t[2] <= 1048576 /\ t[3] >= -2400 /\ t[3] <= 2400)
                [] OTHER -> TRUE

(* ldexp(x, k) = x * 2^k as a double *)
MLdexp(t, k) ==
    IF ~IsFinite(t) THEN <<t>>
    ELSE LET r == Round64([m |-> D(t).m, e |-> D(t).e + k])
         IN IF r = PosZero THEN <<ZeroTok(SignNeg(t))>> ELSE <<r>>  \* a zero / underflow keeps the sign of x

MFmod(s, t) ==
    CASE s[1] = "nan" \/ t[1] = "nan" -> <<NaN>>
      [] s[1] = "inf" -> <<NaN>>
      [] t[1] = "inf" -> <<s>>
      [] D(t).m = 0 -> <<NaN>>
      [] OTHER -> <<TokS(DFmod(D(s), D(t)), SignNeg(s))>>          \* a zero result has the sign of the dividend

MSqrt(t) ==
    CASE t[1] = "nan" -> Def(<<NaN>>)
      [] t[1] = "inf" -> (IF t[2] = 1 THEN Def(<<t>>) ELSE Def(<<NaN>>))
      [] D(t).m < 0 -> Def(<<NaN>>)
      [] t = NegZero -> Def(<<NegZero>>)                               \* sqrt(-0) = -0
      [] OTHER -> (LET r == DSqrt(D(t)) IN IF r = <<>> THEN Undef ELSE Def(<<Tok(r[1])>>))

(* pow for finite x and an exponent that is an integer or an odd multiple  *)
(* of 1/2, wherever the exact result is a dyadic rational (ISO C F.9.4.4   *)
(* for the zero / negative base cases); everything else is unmodelled      *)
PowBound == 12
PowFits(m, k) == BitLen(Abs(m)) * k <= 30                   \* m^k stays a TLC integer

MPowFin(s, t) ==
    IF ~IsFinite(s) \/ ~IsFinite(t) THEN Undef
    ELSE LET x == NormME(D(s).m, D(s).e)
             y == NormME(D(t).m, D(t).e)
         IN IF y.m = 0 THEN Def(<<<<"n", 1>>>>)                                    \* pow(x, 0) = 1
            ELSE IF y.e >= 0 THEN                                              \* integer exponent
                 (IF y.e > 4 \/ Abs(y.m * (2 ^ y.e)) > PowBound THEN Undef
                  ELSE LET k == y.m * (2 ^ y.e) IN
                       IF x.m = 0 THEN (IF k > 0 THEN Def(<<<<"n", 0>>>>) ELSE Def(<<Inf(1)>>))
                       ELSE IF ~PowFits(x.m, Abs(k)) THEN Undef
                       ELSE IF k > 0 THEN Def(<<Tok([m |-> IPow(x.m, k), e |-> x.e * k])>>)
                       ELSE IF Abs(x.m) = 1                                    \* 1 / 2^j is dyadic
                            THEN Def(<<Tok([m |-> IPow(x.m, -k), e |-> x.e * k])>>)
                       ELSE Undef)
            ELSE IF x.m < 0 THEN Def(<<NaN>>)                    \* negative base, non-integer exponent
            ELSE IF y.e = -1 /\ Abs(y.m) <= PowBound THEN                     \* exponent k/2, k odd
                 (IF x.m = 0 THEN (IF y.m > 0 THEN Def(<<<<"n", 0>>>>) ELSE Def(<<Inf(1)>>))
                  ELSE LET r == DSqrt(x) IN
                       IF r = <<>> \/ ~PowFits(r[1].m, Abs(y.m)) THEN Undef
                       ELSE IF y.m > 0 THEN Def(<<Tok([m |-> IPow(r[1].m, y.m), e |-> r[1].e * y.m])>>)
                       ELSE IF r[1].m = 1 THEN Def(<<Tok([m |-> 1, e |-> r[1].e * y.m])>>)
                       ELSE Undef)
            ELSE Undef

(* pow with the special cases of ISO C99 F.9.4.4 (signed zeros, infinities, *)
(* NaN), finite non-zero arguments by MPowFin                               *)
YOddInt(t) == IsFinite(t) /\ (LET n == NormME(D(t).m, D(t).e) IN n.m # 0 /\ n.e = 0)
DAbsV(a) == [m |-> Abs(a.m), e |-> a.e]
MPow(s, t) ==
    IF IsFinite(t) /\ D(t).m = 0 THEN Def(<<<<"n", 1>>>>)              \* pow(x, +-0) = 1, even for a NaN
    ELSE IF s = <<"n", 1>> THEN Def(<<<<"n", 1>>>>)                    \* pow(+1, y) = 1, even for a NaN
    ELSE IF s[1] = "nan" \/ t[1] = "nan" THEN Def(<<NaN>>)
    ELSE IF IsFinite(s) /\ D(s).m = 0 THEN                            \* pow(+-0, y)
         (IF SignNeg(t) THEN Def(<<Inf(IF YOddInt(t) /\ SignNeg(s) THEN -1 ELSE 1)>>)
          ELSE Def(<<ZeroTok(YOddInt(t) /\ SignNeg(s))>>))
    ELSE IF s[1] = "inf" THEN                                         \* pow(+-inf, y)
         (IF SignNeg(t) THEN Def(<<ZeroTok(YOddInt(t) /\ SignNeg(s))>>)
          ELSE Def(<<Inf(IF YOddInt(t) /\ SignNeg(s) THEN -1 ELSE 1)>>))
    ELSE IF t[1] = "inf" THEN                                         \* pow(x, +-inf), x finite, not 0, not 1
         (IF s = <<"n", -1>> THEN Def(<<<<"n", 1>>>>)
          ELSE IF DLess([m |-> 1, e |-> 0], DAbsV(D(s))) = (t[2] = 1) THEN Def(<<Inf(1)>>) ELSE Def(<<PosZero>>))
    ELSE MPowFin(s, t)

(* the arithmetic operators of the language on doubles (IEEE 754; % as the  *)
(* manual defines it: a - floor(a/b)*b), exact results only                 *)
MNeg(t) == CASE t[1] = "nan" -> NaN
             [] t[1] = "inf" -> Inf(-t[2])
             [] IsZeroTok(t) -> ZeroTok(~SignNeg(t))
             [] OTHER -> Tok(DNeg(D(t)))
MAdd(s, t) ==
    IF s[1] = "nan" \/ t[1] = "nan" THEN NaN
    ELSE IF s[1] = "inf" THEN (IF t[1] = "inf" /\ t[2] # s[2] THEN NaN ELSE s)
    ELSE IF t[1] = "inf" THEN t
    ELSE TokS(DAdd(D(s), D(t)), IsZeroTok(s) /\ IsZeroTok(t) /\ SignNeg(s) /\ SignNeg(t))
MSub(s, t) == MAdd(s, MNeg(t))
MMul(s, t) ==
    IF s[1] = "nan" \/ t[1] = "nan" THEN NaN
    ELSE IF s[1] = "inf" \/ t[1] = "inf"
         THEN (IF (IsFinite(s) /\ D(s).m = 0) \/ (IsFinite(t) /\ D(t).m = 0) THEN NaN
               ELSE Inf(IF SignNeg(s) # SignNeg(t) THEN -1 ELSE 1))
    ELSE TokS(DMul(D(s), D(t)), SignNeg(s) # SignNeg(t))
(* the quotient when it is exact, Undef otherwise *)
MDiv(s, t) ==
    LET neg == SignNeg(s) # SignNeg(t) IN
    IF s[1] = "nan" \/ t[1] = "nan" THEN Def(<<NaN>>)
    ELSE IF s[1] = "inf" THEN (IF t[1] = "inf" THEN Def(<<NaN>>) ELSE Def(<<Inf(IF neg THEN -1 ELSE 1)>>))
    ELSE IF t[1] = "inf" THEN Def(<<ZeroTok(neg)>>)
    ELSE IF D(t).m = 0 THEN (IF D(s).m = 0 THEN Def(<<NaN>>) ELSE Def(<<Inf(IF neg THEN -1 ELSE 1)>>))
    ELSE IF D(s).m = 0 THEN Def(<<ZeroTok(neg)>>)
    ELSE LET a == NormME(D(s).m, D(s).e)
             b == NormME(D(t).m, D(t).e)
         IN IF a.m % Abs(b.m) = 0 THEN Def(<<Tok([m |-> (a.m \div Abs(b.m)) * Sgn(b.m), e |-> a.e - b.e])>>)
            ELSE Undef
(* a % b for finite a and finite non-zero b: the result has the sign of b;  *)
(* a - floor(a/b)*b is +0 whenever it is zero                               *)
MMod(s, t) ==
    IF s[1] = "nan" \/ t[1] = "nan" \/ s[1] = "inf" THEN Def(<<NaN>>)
    ELSE IF t[1] = "inf" THEN Undef
    ELSE IF D(t).m = 0 THEN Def(<<NaN>>)
    ELSE LET r == DFmod(D(s), D(t))
         IN IF r.m = 0 THEN Def(<<PosZero>>)
            ELSE IF (r.m < 0) # (D(t).m < 0) THEN Def(<<Tok(DAdd(r, D(t)))>>)
            ELSE Def(<<Tok(r)>>)

(* deg / rad as lmathlib.c defines them: x / RADIANS_PER_DEGREE and         *)
(* x * RADIANS_PER_DEGREE with the double constant c = PI / 180.0.  A       *)
(* 53-bit quotient cannot be computed in TLC's 32-bit integers, so the      *)
(* observed result is JUDGED: it must be the correctly rounded quotient /   *)
(* product (|error| <= 1/2 ulp, a tie only with an even mantissa).  Big     *)
(* naturals are little-endian sequences of limbs in base 2^13.              *)
BB == 8192
RECURSIVE NormB(_, _)
NormB(s, carry) ==
    IF s = <<>> THEN (IF carry = 0 THEN <<>> ELSE <<carry % BB>> \o NormB(<<>>, carry \div BB))
    ELSE LET v == s[1] + carry IN <<v % BB>> \o NormB(Tail(s), v \div BB)
BigOf(n) == NormB(<<n>>, 0)                                  \* n >= 0
RECURSIVE ConvSum(_, _, _, _)
ConvSum(a, b, k, i) ==                                        \* sum of a[i] * b[k - i + 1]
    IF i > Len(a) THEN 0
    ELSE (IF k - i + 1 >= 1 /\ k - i + 1 <= Len(b) THEN a[i] * b[k - i + 1] ELSE 0) + ConvSum(a, b, k, i + 1)
BigMul(a, b) == IF a = <<>> \/ b = <<>> THEN <<>>
                ELSE NormB([k \in 1..(Len(a) + Len(b) - 1) |-> ConvSum(a, b, k, 1)], 0)
BigAdd(a, b) == NormB([k \in 1..(IF Len(a) > Len(b) THEN Len(a) ELSE Len(b)) |->
                          (IF k <= Len(a) THEN a[k] ELSE 0) + (IF k <= Len(b) THEN b[k] ELSE 0)], 0)
BigShl(a, k) == NormB([i \in 1..(k \div 13) |-> 0] \o [i \in 1..Len(a) |-> a[i] * (2 ^ (k % 13))], 0)   \* a * 2^k
RECURSIVE BigTrim(_)
BigTrim(a) == IF a # <<>> /\ a[Len(a)] = 0 THEN BigTrim(SubSeq(a, 1, Len(a) - 1)) ELSE a
RECURSIVE BigLeT(_, _, _)
BigLeT(a, b, k) == IF k = 0 THEN TRUE ELSE IF a[k] # b[k] THEN a[k] < b[k] ELSE BigLeT(a, b, k - 1)
BigLe(a, b) == LET x == BigTrim(a)  y == BigTrim(b)
               IN IF Len(x) # Len(y) THEN Len(x) < Len(y) ELSE BigLeT(x, y, Len(x))
BigEq(a, b) == BigTrim(a) = BigTrim(b)

(* the double PI / 180.0 = 5030569068109113 * 2^-58 = 0.017453292519943295 *)
RadPerDegM == <<7481, 4756, 4520, 958, 1>>
RadPerDegE == -58
PiM == <<3352, 545, 7893, 4675, 1>>                          \* math.pi = 7074237752028440 * 2^-51
PiE == -51

(* |A * 2^ea - B * 2^eb| <= H * 2^eh, with equality only if tieOK; all big naturals *)
WithinHalf(A, ea, B, eb, H, eh, tieOK) ==
    LET e0 == IF ea <= eb THEN (IF ea <= eh THEN ea ELSE eh) ELSE (IF eb <= eh THEN eb ELSE eh)
    IN IF ea - e0 > 400 \/ eb - e0 > 400 \/ eh - e0 > 400 THEN FALSE
       ELSE LET a == BigShl(A, ea - e0)  b == BigShl(B, eb - e0)  h == BigShl(H, eh - e0)
            IN /\ BigLe(a, BigAdd(b, h)) /\ BigLe(b, BigAdd(a, h))
               /\ ((BigEq(a, BigAdd(b, h)) \/ BigEq(b, BigAdd(a, h))) => tieOK)

(* r = <<"w", neg, limbs of the 53-bit mantissa M (2^52 <= M < 2^53), e>>: the double (-1)^neg * M * 2^e; *)
(* x a finite non-zero token.  Is r the correctly rounded x / c (deg) resp. x * c (rad)?                  *)
DegRadOK(isDeg, x, r) ==
    LET n == NormME(D(x).m, D(x).e)
        X == BigOf(Abs(n.m))
        M == r[3]
        even == M[1] % 2 = 0
    IN /\ r[2] = (n.m < 0)
       /\ Len(M) = 5 /\ M[5] = 1                              \* 2^52 <= M < 2^53
       /\ IF isDeg
          THEN (* |x - r c| <= c ulp(r) / 2 :  2 X 2^ex  vs  2 M c 2^(er+ec)  within  c 2^(er+ec) *)
               WithinHalf(X, n.e + 1, BigMul(BigAdd(M, M), RadPerDegM), r[4] + RadPerDegE, RadPerDegM, r[4] + RadPerDegE, even)
          ELSE (* |r - x c| <= ulp(r) / 2 :  M 2^er  vs  X c 2^(ex+ec)  within  2^(er-1) *)
               WithinHalf(M, r[4], BigMul(X, RadPerDegM), n.e + RadPerDegE, <<1>>, r[4] - 1, even)

(* max / min over all arguments (no NaN arguments) *)
RECURSIVE MFold(_, _, _)
MFold(ts, k, takeLess) ==
    IF k = 1 THEN ts[1]
    ELSE LET best == MFold(ts, k - 1, takeLess) IN
         IF takeLess THEN (IF TLess(ts[k], best) THEN ts[k] ELSE best)
         ELSE (IF TLess(best, ts[k]) THEN ts[k] ELSE best)
MMax(ts) == <<MFold(ts, Len(ts), FALSE)>>
MMin(ts) == <<MFold(ts, Len(ts), TRUE)>>

(* math.random(m, n): any integer in m..n; math.random(m) = random(1, m);  *)
(* an empty interval is an error                                           *)
RandomEmpty(lo, hi) == lo > hi
RandomAdmits(lo, hi, t) == t[1] = "n" /\ lo <= t[2] /\ t[2] <= hi
=============================================================================
