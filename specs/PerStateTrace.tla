---------------------------- MODULE PerStateTrace ----------------------------
(***************************************************************************)
(* Binding of module PerState to the real interpreter (property C13).      *)
(* Each line of File is one record:                                        *)
(*   kind "own"  - own[s]: identities of the Go objects behind every       *)
(*                 table/function/userdata/thread a probe script could     *)
(*                 reach in state s of one process (several fresh states). *)
(*                 Law: Disjoint.                                          *)
(*   kind "solo" - solo[w+1]: fingerprint of the trace of a program run    *)
(*                 alone with parameter w; runs[i] = [w, fp]: the trace of *)
(*                 the same program in a state that ran next to others     *)
(*                 (free-running goroutines, lock-step schedule, ...).     *)
(*                 Law: AsAlone.                                           *)
(* One VERDICT line per record.                                            *)
(***************************************************************************)
EXTENDS Integers, Sequences, FiniteSets, TLC, Json

CONSTANT File
Data == ndJsonDeserialize(File)

PS == INSTANCE PerState WITH NStates <- 0, Seeds <- {}, Marks <- {}, MaxOps <- 0,
                             rng <- <<>>, own <- <<>>, prog <- <<>>, seen <- <<>>

VARIABLE idx
Init == idx \in 1..Len(Data)
Next == UNCHANGED idx
Spec == Init /\ [][Next]_idx

R == Data[idx]
Verdict ==
    PrintT("VERDICT " \o ToJson(
        IF R.kind = "own"
        THEN LET sh == PS!SharedIdsOf(R.own) IN [id |-> R.id, kind |-> "own", ok |-> sh = {}, bad |-> sh]
        ELSE LET dv == PS!Deviating(R.solo, R.runs) IN [id |-> R.id, kind |-> "solo", ok |-> dv = {}, bad |-> dv]))
=============================================================================
