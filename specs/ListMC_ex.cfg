SPECIFICATION Spec
CONSTANTS
  Vals <- MCX_Vals
  ValSeq <- MC_ValSeq
  Fresh = FALSE
  SortKinds <- MCX_SortKinds
  Seps <- MC_Seps
  XKeys <- MC_XKeys
  XVals <- MC_XVals
  MaxEx = 2
  FillNs <- MC_Fills
  Gen = "no"
VIEW view
INVARIANTS ListView ResultsAgree QueriesAgree SortLaws
CHECK_DEADLOCK FALSE
