------------------------------ MODULE ByteFile ------------------------------
(***************************************************************************)
(* Property C19 - the REFERENCE model, word for word the property text:    *)
(* a file is an explicit in-memory byte sequence f, a handle has one       *)
(* cursor.  Reads return exactly the bytes at the cursor and advance it,   *)
(* writes land at the cursor (at the end in append mode), seek returns the *)
(* resulting offset, end-of-file is reported as nil ("eof"), operations on *)
(* a closed handle raise an error ("error") and leave the file untouched.  *)
(*                                                                         *)
(* This model is only executable for small files.  IoFile.tla is the       *)
(* sparse model used as oracle for 4-8 KiB files; TLC checks (IoFileMC)    *)
(* that IoFile produces exactly the results of this model.                 *)
(*                                                                         *)
(* An operation is a record [op, a, n]:                                    *)
(*   open a=mode | read n | readline | readall | lines n (n iterator calls)*)
(*   readnum (read("*n")) | seek0 = f:seek() | seek1 a=whence = f:seek(a)  *)
(*   readm fs=<<fmt..>> = f:read(fmt1, fmt2, ..), see IoData!FmtOp         *)
(*   getiter (it = f:lines(), kept) | calliter (one call of the kept it)   *)
(*   write n (payload WByte(tag,0..n-1)) | seek a=whence n=offset | flush  *)
(*   setvbuf a=mode | close | peek (a second handle opened "r" reads all)  *)
(* Results:  <<"ok">> <<"fail">> (nil,msg) <<"error">> (raised) <<"eof">>  *)
(*   <<"num",k>> <<"data",bytes>> <<"lines",<<r1..>>>> <<"any">> (the      *)
(*   property does not fix the result, e.g. flush of a read-only handle).  *)
(***************************************************************************)
EXTENDS IoData, Sequences

RECURSIVE TupleFrom(_, _)      \* a function over 1..n as a proper tuple
TupleFrom(f, i) == IF i > Len(f) THEN <<>> ELSE <<f[i]>> \o TupleFrom(f, i + 1)

BInit(size, lay) ==
    [ex |-> size >= 0,
     f |-> TupleFrom([i \in 1..IMax(size, 0) |-> BaseByte(lay, i - 1)], 1),
     opened |-> FALSE, mode |-> "r", cur |-> 0, closed |-> FALSE,
     it |-> "none"]   \* kept lines() iterator: none | cur (of the current handle) | old (of an earlier one)

BR(s, r) == [s |-> s, res |-> r]

BOpen(s, m) ==
    IF MustExist(m) /\ ~s.ex THEN BR(s, <<"fail">>)
    ELSE BR([s EXCEPT !.ex = TRUE,
                      !.f = IF TruncM(m) THEN <<>> ELSE @,
                      !.opened = TRUE, !.mode = m, !.closed = FALSE,
                      !.it = IF @ = "cur" THEN "old" ELSE @,     \* a new handle object
                      \* ISO C leaves the initial position of an append
                      \* stream implementation-defined: -1 = unknown
                      !.cur = IF AppendM(m) THEN -1 ELSE 0],
            <<"ok">>)

BTake(f, c, n) == SubSeq(f, c + 1, IMin(c + n, Len(f)))

BRead(s, n) ==
    IF s.cur >= Len(s.f) THEN BR(s, <<"eof">>)
    ELSE BR([s EXCEPT !.cur = IMin(s.cur + n, Len(s.f))], <<"data", BTake(s.f, s.cur, n)>>)

(* 1-based index of the first "\n" after cursor c, 0 when there is none *)
BNewline(f, c) ==
    LET S == {i \in (c + 1)..Len(f) : f[i] = 10}
    IN IF S = {} THEN 0 ELSE CHOOSE i \in S : \A j \in S : i <= j

(* one line: the bytes up to (not including) the next "\n"; the cursor
   moves behind the "\n" *)
BLineAt(f, c) ==
    IF c >= Len(f) THEN [res |-> <<"eof">>, cur |-> c]
    ELSE LET q == BNewline(f, c)
         IN IF q = 0 THEN [res |-> <<"data", SubSeq(f, c + 1, Len(f))>>, cur |-> Len(f)]
            ELSE [res |-> <<"data", SubSeq(f, c + 1, q - 1)>>, cur |-> q]

RECURSIVE BLines(_, _, _)
BLines(f, c, k) ==
    IF k = 0 THEN [rs |-> <<>>, cur |-> c]
    ELSE LET r == BLineAt(f, c) IN
         IF r.res[1] = "eof" THEN [rs |-> <<r.res>>, cur |-> c]
         ELSE LET t == BLines(f, r.cur, k - 1) IN [rs |-> <<r.res>> \o t.rs, cur |-> t.cur]

(* read("*n") restricted to unsigned decimal numerals: skip white space
   (including line ends), take the maximal run of digits; the cursor stays
   behind the last digit.  No digit: nil, the cursor stays behind the white
   space.  (IoFile!Legal keeps anything else out of the histories.) *)
RECURSIVE BSkipWS(_, _)
BSkipWS(f, c) == IF c < Len(f) /\ f[c + 1] \in WS THEN BSkipWS(f, c + 1) ELSE c
RECURSIVE BDigits(_, _, _)
BDigits(f, c, acc) ==
    IF c < Len(f) /\ IsDigit(f[c + 1]) THEN BDigits(f, c + 1, acc * 10 + (f[c + 1] - 48))
    ELSE [cur |-> c, v |-> acc]
BReadNum(s) ==
    LET c1 == BSkipWS(s.f, s.cur)
        d == BDigits(s.f, c1, 0)
    IN IF d.cur = c1 THEN BR([s EXCEPT !.cur = c1], <<"eof">>)
       ELSE BR([s EXCEPT !.cur = d.cur], <<"num", d.v>>)

BWriteAt(f, p, w) ==
    IF Len(w) = 0 THEN f
    ELSE LET g == IF p > Len(f) THEN f \o [i \in 1..(p - Len(f)) |-> 0] ELSE f
             nl == IMax(Len(g), p + Len(w))
         IN TupleFrom([i \in 1..nl |-> IF i > p /\ i <= p + Len(w) THEN w[i - p] ELSE g[i]], 1)

BWrite(s, n, tag) ==
    LET p == IF AppendM(s.mode) THEN Len(s.f) ELSE s.cur
        w == [j \in 1..n |-> WByte(tag, j - 1)]
    IN BR([s EXCEPT !.f = BWriteAt(s.f, p, w),
                    !.cur = IF n = 0 THEN @ ELSE p + n], <<"ok">>)

BSeek(s, wh, off) ==
    LET base == CASE wh = "set" -> 0 [] wh = "cur" -> s.cur [] wh = "end" -> Len(s.f)
        r == base + off
    IN IF r < 0 THEN BR(s, <<"fail">>) ELSE BR([s EXCEPT !.cur = r], <<"num", r>>)

(* A kept iterator is repeated read("*l") on ITS handle: called while that
   handle is open it returns the next line at the current cursor; once the
   handle is closed it raises (Lua 5.1 io_readline: "file is already closed") *)
RECURSIVE BApply0(_, _, _), BReadM(_, _, _, _)
BApply0(s, o, tag) ==
    IF o.op = "open" THEN BOpen(s, o.a)
    ELSE IF o.op = "peek" THEN BR(s, <<"data", s.f>>)
    ELSE IF o.op = "calliter" THEN
         (IF s.it = "old" \/ s.closed THEN BR(s, <<"error">>)
          ELSE LET r == BLineAt(s.f, s.cur) IN BR([s EXCEPT !.cur = r.cur], r.res))
    ELSE IF s.closed THEN BR(s, <<"error">>)
    ELSE IF o.op = "getiter" THEN
         (IF Readable(s.mode) THEN BR([s EXCEPT !.it = "cur"], <<"ok">>) ELSE BR(s, <<"any">>))
    ELSE IF o.op \in {"read", "readline", "readall", "readnum", "readm", "lines"} /\ ~Readable(s.mode)
         THEN BR(s, IF o.op = "lines" THEN <<"any">> ELSE <<"fail">>)
    ELSE IF o.op = "write" /\ ~Writable(s.mode) THEN BR(s, <<"fail">>)
    ELSE IF o.op = "flush" /\ ~Writable(s.mode) THEN BR(s, <<"any">>)
    ELSE CASE o.op = "read" ->
                (IF o.a \in RestCounts THEN BRead(s, Len(s.f))     \* negative / huge count: the rest of the file
                 ELSE IF o.n = 0 THEN BR(s, IF s.cur >= Len(s.f) THEN <<"eof">> ELSE <<"data", <<>>>>)
                 ELSE BRead(s, o.n))
           [] o.op = "readline" ->
                (LET r == BLineAt(s.f, s.cur) IN BR([s EXCEPT !.cur = r.cur], r.res))
           [] o.op = "readall" ->
                BR([s EXCEPT !.cur = IMax(@, Len(s.f))], <<"data", BTake(s.f, s.cur, Len(s.f))>>)
           [] o.op = "readnum" -> BReadNum(s)
           [] o.op = "lines" ->
                (LET r == BLines(s.f, s.cur, o.n) IN BR([s EXCEPT !.cur = r.cur], <<"lines", r.rs>>))
           [] o.op = "write" -> BWrite(s, o.n, tag)
           [] o.op = "seek" -> BSeek(s, o.a, o.n)
           [] o.op = "flush" -> BR(s, <<"ok">>)
           [] o.op = "setvbuf" -> BR(s, <<"ok">>)
           [] o.op = "close" -> BR([s EXCEPT !.closed = TRUE], <<"ok">>)
           [] o.op = "readm" -> BReadM(s, o.fs, 1, tag)

(* liolib.c g_read: the formats are processed left to right, each pushes its
   result; the FIRST one that fails pushes nil and ends the call - later
   formats are not evaluated and push nothing, the cursor stays where the
   failing format left it *)
BReadM(s, fs, i, tag) ==
    IF i > Len(fs) THEN BR(s, <<"multi", <<>>>>)
    ELSE LET r == BApply0(s, FmtOp(fs[i]), tag) IN
         IF r.res[1] = "eof" THEN BR(r.s, <<"multi", <<r.res>>>>)
         ELSE LET t == BReadM(r.s, fs, i + 1, tag) IN BR(t.s, <<"multi", <<r.res>> \o t.res[2]>>)

BApply(s, o, tag) == BApply0(s, NormOp(o), tag)
=============================================================================
