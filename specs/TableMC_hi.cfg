SPECIFICATION Spec
CONSTANTS
  IntKeys <- Hi_IntKeys
  OtherKeys <- Lo_OtherKeysSmall
  Vals <- MC_Vals
  MaxIdx = 67108864
  MaxArr = 4
  MaxHK = 3
  Gen = FALSE
VIEW genview
INVARIANTS TypeOK LookupAgrees LenIsBorder FullWalkOK
PROPERTIES NextStepOK
CHECK_DEADLOCK FALSE
