SPECIFICATION Spec
CONSTANTS
  IntKeys <- Hi_IntKeys
  OtherKeys <- Lo_OtherKeysSmall
  Vals <- MC_Vals
  MaxIdx = 67108864
  MaxArr = 4
  MaxHK = 3
  Gen = TRUE
VIEW genview
ACTION_CONSTRAINT GenPrint
CHECK_DEADLOCK FALSE
