SPECIFICATION FSpec
INVARIANTS MatchLine CleanLine
CHECK_DEADLOCK FALSE
