SPECIFICATION Spec
CONSTANTS
  Vals <- Gen_Vals
  ValSeq <- Gen_ValSeq
  Fresh = TRUE
  SortKinds <- GenX_SortKinds
  Seps <- MC_Seps
  XKeys <- MC_XKeys
  XVals <- MC_XVals
  MaxEx = 2
  FillNs <- MC_Fills
  Gen = "all"
ACTION_CONSTRAINT GenPrint
CHECK_DEADLOCK FALSE
