SPECIFICATION Spec
CONSTANTS
  Sizes = {100, 5000}
  Lays <- MC_ModesLays
  Modes = {"r+", "rb+"}
  RCounts = {2}
  WCounts <- MC_WbufCounts
  SOffs <- MC_None
  VBufs = {"full", "line"}
  MFmts <- MC_None
  VSizes <- MC_WbufSizes
  Extra = {"flush", "peek"}
  Naive = FALSE
  Gen = TRUE
VIEW genview
ACTION_CONSTRAINT GenPrintG1
CHECK_DEADLOCK FALSE
