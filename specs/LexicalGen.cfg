SPECIFICATION Spec
INVARIANTS GenPrint
CHECK_DEADLOCK FALSE
