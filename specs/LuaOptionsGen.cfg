SPECIFICATION Spec
INVARIANTS LawsHold GenLine
CHECK_DEADLOCK FALSE
