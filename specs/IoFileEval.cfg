SPECIFICATION Spec
INVARIANT GenLine
CHECK_DEADLOCK FALSE
