SPECIFICATION Spec
CONSTANTS
  Gen = TRUE
VIEW genview
ACTION_CONSTRAINT GenPrint
CHECK_DEADLOCK FALSE
