------------------------------ MODULE Pattern ------------------------------
(***************************************************************************)
(* Property C14.  The Lua 5.1 pattern matcher, transcribed from PUC-Lua    *)
(* 5.1.5 lstrlib.c (match, max_expand, min_expand, start_capture,          *)
(* end_capture, match_capture, matchbalance, classEnd, singlematch,        *)
(* matchbracketclass, match_class) with the drivers str_find_aux,          *)
(* gmatch_aux and str_gsub (add_s, add_value, push_onecapture,             *)
(* push_captures).  Strings are sequences of byte values 0..255; the       *)
(* pattern is a C string (no byte 0 inside; reading past its end gives 0). *)
(* Positions are 1-based: si = Len(s)+1 is src_end, pi = Len(p)+1 is the   *)
(* terminating '\0'.  Everything is a pure function: the context record    *)
(* x = [s |-> subject, p |-> pattern] is threaded through.                 *)
(***************************************************************************)
EXTENDS Integers, Sequences, FiniteSets

ESC == 37      \* %
DOLLAR == 36
LPAR == 40
RPAR == 41
STAR == 42
PLUS == 43
DASH == 45
DOT == 46
QMARK == 63
LBR == 91
RBR == 93
CARET == 94
MAXCAPTURES == 32
CAP_UNFINISHED == -1
CAP_POSITION == -2

P(x, pi) == IF pi >= 1 /\ pi <= Len(x.p) THEN x.p[pi] ELSE 0
S(x, si) == IF si >= 1 /\ si <= Len(x.s) THEN x.s[si] ELSE 0
LS(x) == Len(x.s)

Fail == [k |-> "fail"]
Err(m) == [k |-> "err", m |-> m]
Ok(e, caps) == [k |-> "ok", e |-> e, c |-> caps]

(* ---- <ctype.h> in the C locale ---------------------------------------- *)
IsDigit(c) == c >= 48 /\ c <= 57
IsLower(c) == c >= 97 /\ c <= 122
IsUpper(c) == c >= 65 /\ c <= 90
IsAlpha(c) == IsLower(c) \/ IsUpper(c)
IsAlnum(c) == IsAlpha(c) \/ IsDigit(c)
IsCntrl(c) == (c >= 0 /\ c <= 31) \/ c = 127
IsPunct(c) == (c >= 33 /\ c <= 47) \/ (c >= 58 /\ c <= 64) \/ (c >= 91 /\ c <= 96) \/ (c >= 123 /\ c <= 126)
IsSpace(c) == (c >= 9 /\ c <= 13) \/ c = 32
IsXDigit(c) == IsDigit(c) \/ (c >= 97 /\ c <= 102) \/ (c >= 65 /\ c <= 70)
ToLower(c) == IF IsUpper(c) THEN c + 32 ELSE c

(* match_class *)
MatchClass(c, cl) ==
    LET lc == ToLower(cl)
        known == lc \in {97, 99, 100, 108, 112, 115, 117, 119, 120, 122}
        res == CASE lc = 97 -> IsAlpha(c)
                 [] lc = 99 -> IsCntrl(c)
                 [] lc = 100 -> IsDigit(c)
                 [] lc = 108 -> IsLower(c)
                 [] lc = 112 -> IsPunct(c)
                 [] lc = 115 -> IsSpace(c)
                 [] lc = 117 -> IsUpper(c)
                 [] lc = 119 -> IsAlnum(c)
                 [] lc = 120 -> IsXDigit(c)
                 [] lc = 122 -> c = 0
                 [] OTHER -> FALSE
    IN IF ~known THEN cl = c
       ELSE IF IsLower(cl) THEN res ELSE ~res

(* classEnd: position after the single-char class at pi; negative = error *)
E_ENDS_ESC == -1
E_MISSING_RBR == -2
RECURSIVE SetEnd(_, _)
SetEnd(x, q) ==
    IF P(x, q) = 0 THEN E_MISSING_RBR
    ELSE LET q1 == IF P(x, q) = ESC /\ P(x, q + 1) # 0 THEN q + 2 ELSE q + 1
         IN IF P(x, q1) = RBR THEN q1 + 1 ELSE SetEnd(x, q1)

ClassEnd(x, pi) ==
    LET c == P(x, pi) IN
    IF c = ESC THEN (IF P(x, pi + 1) = 0 THEN E_ENDS_ESC ELSE pi + 2)
    ELSE IF c = LBR THEN SetEnd(x, IF P(x, pi + 1) = CARET THEN pi + 2 ELSE pi + 1)
    ELSE pi + 1

ClassErr(code) ==
    IF code = E_ENDS_ESC THEN Err("malformed pattern (ends with '%')")
    ELSE Err("malformed pattern (missing ']')")

(* matchbracketclass: pi at '[', ec at the closing ']' *)
RECURSIVE Brk(_, _, _, _, _)
Brk(x, c, q, ec, sig) ==
    IF q >= ec THEN ~sig
    ELSE IF P(x, q) = ESC
         THEN (IF MatchClass(c, P(x, q + 1)) THEN sig ELSE Brk(x, c, q + 2, ec, sig))
    ELSE IF P(x, q + 1) = DASH /\ q + 2 < ec
         THEN (IF P(x, q) <= c /\ c <= P(x, q + 2) THEN sig ELSE Brk(x, c, q + 3, ec, sig))
    ELSE IF P(x, q) = c THEN sig
    ELSE Brk(x, c, q + 1, ec, sig)

MatchBracketClass(x, c, pi, ec) ==
    IF P(x, pi + 1) = CARET THEN Brk(x, c, pi + 2, ec, FALSE)
    ELSE Brk(x, c, pi + 1, ec, TRUE)

(* singlematch *)
SingleMatch(x, c, pi, ep) ==
    LET pc == P(x, pi) IN
    IF pc = DOT THEN TRUE
    ELSE IF pc = ESC THEN MatchClass(c, P(x, pi + 1))
    ELSE IF pc = LBR THEN MatchBracketClass(x, c, pi, ep - 1)
    ELSE pc = c

(* matchbalance: pi at the first of the two delimiter characters.          *)
(* result: position after the balanced run, 0 = no match, -3 = error       *)
E_UNBALANCED == -3
RECURSIVE Bal(_, _, _, _, _)
Bal(x, q, b, e, cont) ==
    IF q > LS(x) THEN 0
    ELSE IF S(x, q) = e THEN (IF cont = 1 THEN q + 1 ELSE Bal(x, q + 1, b, e, cont - 1))
    ELSE IF S(x, q) = b THEN Bal(x, q + 1, b, e, cont + 1)
    ELSE Bal(x, q + 1, b, e, cont)

MatchBalance(x, si, pi) ==
    IF P(x, pi) = 0 \/ P(x, pi + 1) = 0 THEN E_UNBALANCED
    ELSE IF si > LS(x) \/ S(x, si) # P(x, pi) THEN 0
    ELSE Bal(x, si + 1, P(x, pi), P(x, pi + 1), 1)

(* captures: sequence of <<init, len>>, len = -1 unfinished, -2 position   *)
OpenCaps(caps) == {i \in 1..Len(caps) : caps[i][2] = CAP_UNFINISHED}
Max(S0) == CHOOSE m \in S0 : \A o \in S0 : o <= m

(* number of consecutive single matches from si (first loop of max_expand) *)
RECURSIVE CountMax(_, _, _, _, _)
CountMax(x, si, pi, ep, i) ==
    IF si + i <= LS(x) /\ SingleMatch(x, S(x, si + i), pi, ep)
    THEN CountMax(x, si, pi, ep, i + 1) ELSE i

RECURSIVE Match(_, _, _, _), MaxTry(_, _, _, _, _), MinExpand(_, _, _, _, _)

(* second loop of max_expand *)
MaxTry(x, si, ep, caps, i) ==
    IF i < 0 THEN Fail
    ELSE LET r == Match(x, si + i, ep + 1, caps)
         IN IF r.k # "fail" THEN r ELSE MaxTry(x, si, ep, caps, i - 1)

MinExpand(x, si, pi, ep, caps) ==
    LET r == Match(x, si, ep + 1, caps) IN
    IF r.k # "fail" THEN r
    ELSE IF si <= LS(x) /\ SingleMatch(x, S(x, si), pi, ep)
         THEN MinExpand(x, si + 1, pi, ep, caps)
    ELSE Fail

Match(x, si, pi, caps) ==
    LET c == P(x, pi)
        c1 == P(x, pi + 1)
        StartCapture(p2, what) ==
            IF Len(caps) >= MAXCAPTURES THEN Err("too many captures")
            ELSE Match(x, si, p2, Append(caps, <<si, what>>))
        Dflt ==
            LET ep == ClassEnd(x, pi) IN
            IF ep < 0 THEN ClassErr(ep) ELSE
            LET m == si <= LS(x) /\ SingleMatch(x, S(x, si), pi, ep)
                q == P(x, ep)
            IN CASE q = QMARK ->
                      (IF m THEN LET r == Match(x, si + 1, ep + 1, caps)
                                 IN IF r.k # "fail" THEN r ELSE Match(x, si, ep + 1, caps)
                       ELSE Match(x, si, ep + 1, caps))
                 [] q = STAR -> MaxTry(x, si, ep, caps, CountMax(x, si, pi, ep, 0))
                 [] q = PLUS -> (IF m THEN MaxTry(x, si + 1, ep, caps, CountMax(x, si + 1, pi, ep, 0))
                                 ELSE Fail)
                 [] q = DASH -> MinExpand(x, si, pi, ep, caps)
                 [] OTHER -> (IF m THEN Match(x, si + 1, ep, caps) ELSE Fail)
    IN
    CASE c = LPAR ->
            (IF c1 = RPAR THEN StartCapture(pi + 2, CAP_POSITION)
             ELSE StartCapture(pi + 1, CAP_UNFINISHED))
      [] c = RPAR ->                                   \* end_capture
            (IF OpenCaps(caps) = {} THEN Err("invalid pattern capture")
             ELSE LET l == Max(OpenCaps(caps))
                  IN Match(x, si, pi + 1, [caps EXCEPT ![l] = <<caps[l][1], si - caps[l][1]>>]))
      [] c = ESC /\ c1 = 98 ->                         \* %b
            (LET r == MatchBalance(x, si, pi + 2)
             IN IF r = E_UNBALANCED THEN Err("unbalanced pattern")
                ELSE IF r = 0 THEN Fail
                ELSE Match(x, r, pi + 4, caps))
      [] c = ESC /\ c1 = 102 ->                        \* %f frontier
            (IF P(x, pi + 2) # LBR THEN Err("missing '[' after '%f' in pattern")
             ELSE LET ep == ClassEnd(x, pi + 2) IN
                  IF ep < 0 THEN ClassErr(ep)
                  ELSE LET prev == IF si = 1 THEN 0 ELSE S(x, si - 1)
                       IN IF MatchBracketClass(x, prev, pi + 2, ep - 1)
                             \/ ~MatchBracketClass(x, S(x, si), pi + 2, ep - 1)
                          THEN Fail ELSE Match(x, si, ep, caps))
      [] c = ESC /\ IsDigit(c1) ->                     \* match_capture
            (LET l == c1 - 48 IN
             IF l < 1 \/ l > Len(caps) THEN Err("invalid capture index")
             ELSE IF caps[l][2] = CAP_UNFINISHED THEN Err("invalid capture index")
             ELSE LET len == caps[l][2] IN
                  IF len = CAP_POSITION THEN Fail      \* (size_t)-2 never fits
                  ELSE IF (LS(x) + 1 - si) >= len
                          /\ \A j \in 0..(len - 1) : S(x, caps[l][1] + j) = S(x, si + j)
                       THEN Match(x, si + len, pi + 2, caps)
                  ELSE Fail)
      [] c = 0 -> Ok(si, caps)
      [] c = DOLLAR /\ c1 = 0 -> (IF si = LS(x) + 1 THEN Ok(si, caps) ELSE Fail)
      [] OTHER -> Dflt

(* ---- values handed back to Lua: <<"s", bytes>> / <<"n", int>> ---------- *)
Sub(s, a, b) == IF b < a THEN <<>> ELSE SubSeq(s, a, b)

(* push_onecapture; i is 1-based, [ms, me) is the whole match *)
PushOne(x, caps, i, ms, me) ==
    IF i > Len(caps)
    THEN (IF i = 1 THEN <<"s", Sub(x.s, ms, me - 1)>> ELSE <<"err", "invalid capture index">>)
    ELSE LET l == caps[i][2] IN
         IF l = CAP_UNFINISHED THEN <<"err", "unfinished capture">>
         ELSE IF l = CAP_POSITION THEN <<"n", caps[i][1]>>
         ELSE <<"s", Sub(x.s, caps[i][1], caps[i][1] + l - 1)>>

(* push_captures: <<"v", values>> or <<"err", msg>> *)
PushCaptures(x, caps, ms, me, whole) ==
    LET n == IF Len(caps) = 0 /\ whole THEN 1 ELSE Len(caps)
        vals == [i \in 1..n |-> PushOne(x, caps, i, ms, me)]
        bad == {i \in 1..n : vals[i][1] = "err"}
    IN IF bad = {} THEN <<"v", vals>>
       ELSE vals[CHOOSE i \in bad : \A j \in bad : i <= j]

PosRelat(pos, len) == IF pos >= 0 THEN pos ELSE len + pos + 1

IsAnchored(p) == Len(p) > 0 /\ p[1] = CARET
Ctx(s, p, strip) == [s |-> s, p |-> IF strip /\ IsAnchored(p) THEN Tail(p) ELSE p]

(* 0-based start offset used by str_find_aux *)
InitOffset(init, ls) ==
    LET i == PosRelat(init, ls) - 1
    IN IF i < 0 THEN 0 ELSE IF i > ls THEN ls ELSE i

(* str_find_aux: find = TRUE -> <<"m", start, end, captures>>,            *)
(*               find = FALSE -> <<"m", values>>; <<"nil">>; <<"err", msg>> *)
RECURSIVE FindLoop(_, _, _, _)
FindLoop(x, s1, anchor, find) ==
    LET r == Match(x, s1, 1, <<>>) IN
    IF r.k = "err" THEN <<"err", r.m>>
    ELSE IF r.k = "ok"
    THEN LET pc == PushCaptures(x, r.c, s1, r.e, ~find) IN
         IF pc[1] = "err" THEN pc
         ELSE IF find THEN <<"m", s1, r.e - 1, pc[2]>> ELSE <<"m", pc[2]>>
    ELSE IF s1 <= LS(x) /\ ~anchor THEN FindLoop(x, s1 + 1, anchor, find)
    ELSE <<"nil">>

StrFind(s, p, init) == FindLoop(Ctx(s, p, TRUE), InitOffset(init, Len(s)) + 1, IsAnchored(p), TRUE)
StrMatch(s, p, init) == FindLoop(Ctx(s, p, TRUE), InitOffset(init, Len(s)) + 1, IsAnchored(p), FALSE)

(* ---- optional arguments as Lua 5.1 reads them ----------------------------- *)
(* argument tokens: <<"nil">> absent, <<"xnil">> explicit nil, <<"n", k>> the  *)
(* number k, <<"h", k>> the number k + 0.5, <<"str", t>> the decimal text of   *)
(* the number token t, <<"big", e>> / <<"nbig", e>> the numbers 2^e / -2^e     *)
(* (e >= 31: beyond every length here and beyond TLC's integers), anything     *)
(* else (<<"bad">> = a non-numeric string, booleans) is not a number.          *)
(* luaL_optinteger: none or nil -> default; numbers and numeric strings are    *)
(* converted by lua_tointeger = C cast, i.e. truncation towards zero.          *)
OptInteger(tok, dflt) ==
    LET num == IF tok[1] = "str" THEN tok[2] ELSE tok IN
    CASE tok[1] \in {"nil", "xnil"} -> [k |-> "int", v |-> dflt]
      [] num[1] = "n" -> [k |-> "int", v |-> num[2]]
      [] num[1] = "h" -> [k |-> "int", v |-> IF num[2] >= 0 THEN num[2] ELSE num[2] + 1]
      [] num[1] = "big" -> [k |-> "big"]
      [] num[1] = "nbig" -> [k |-> "nbig"]
      [] OTHER -> [k |-> "err"]

(* lua_toboolean of the 'plain' argument of find: only nil and false are false *)
ToBoolean(tok) == ~(tok[1] \in {"nil", "xnil"} \/ (tok[1] = "b" /\ tok[2] = FALSE))

ArgOffset(a, ls) == IF a.k = "big" THEN ls ELSE IF a.k = "nbig" THEN 0 ELSE InitOffset(a.v, ls)

(* lmemfind: leftmost occurrence of p in s at or after offset off (0-based) *)
FindPlain(s, p, off) ==
    LET T == {t \in (off + 1)..(Len(s) - Len(p) + 1) : \A j \in 1..Len(p) : s[t + j - 1] = p[j]}
    IN IF T = {} THEN <<"nil">>
       ELSE LET t == CHOOSE t \in T : \A u \in T : t <= u IN <<"m", t, t + Len(p) - 1, <<>>>>

ArgErr == <<"err", "bad argument (number expected)">>

(* string.find(s, p [, init [, plain]]) and string.match(s, p [, init]) *)
StrFindA(s, p, itok, ptok) ==
    LET a == OptInteger(itok, 1) IN
    IF a.k = "err" THEN ArgErr
    ELSE IF ToBoolean(ptok) THEN FindPlain(s, p, ArgOffset(a, Len(s)))
    ELSE FindLoop(Ctx(s, p, TRUE), ArgOffset(a, Len(s)) + 1, IsAnchored(p), TRUE)
StrMatchA(s, p, itok) ==
    LET a == OptInteger(itok, 1) IN
    IF a.k = "err" THEN ArgErr
    ELSE FindLoop(Ctx(s, p, TRUE), ArgOffset(a, Len(s)) + 1, IsAnchored(p), FALSE)

(* gmatch_aux iterated to exhaustion: <<"g", list of value lists>> *)
RECURSIVE GMatchLoop(_, _, _)
GMatchLoop(x, src, acc) ==
    IF src > LS(x) + 1 THEN <<"g", acc>>
    ELSE LET r == Match(x, src, 1, <<>>) IN
         IF r.k = "err" THEN <<"err", r.m>>
         ELSE IF r.k = "fail" THEN GMatchLoop(x, src + 1, acc)
         ELSE LET pc == PushCaptures(x, r.c, src, r.e, TRUE) IN
              IF pc[1] = "err" THEN pc
              ELSE GMatchLoop(x, IF r.e = src THEN src + 1 ELSE r.e, Append(acc, pc[2]))

StrGMatch(s, p) == GMatchLoop(Ctx(s, p, FALSE), 1, <<>>)

(* the closure returned by gmatch called k times by hand: it carries its own *)
(* position (upvalue 3), so call i returns the i-th match and, once the      *)
(* subject is exhausted, every further call returns nothing.                 *)
(* <<"v", values>> per successful call, <<"end">> afterwards                 *)
GMatchCalls(s, p, k) ==
    LET g == StrGMatch(s, p) IN
    IF g[1] = "err" THEN g
    ELSE <<"c", [i \in 1..k |-> IF i <= Len(g[2]) THEN <<"v", g[2][i]>> ELSE <<"end">>]>>

(* ---- gsub --------------------------------------------------------------- *)
RECURSIVE Digits(_)
Digits(n) == IF n < 10 THEN <<48 + n>> ELSE Append(Digits(n \div 10), 48 + (n % 10))
IntToBytes(n) == IF n < 0 THEN <<45>> \o Digits(-n) ELSE Digits(n)
ValBytes(v) == IF v[1] = "s" THEN v[2] ELSE IntToBytes(v[2])

(* replacement "table"/"function": a finite map, sequence of <<key, value>> *)
Lookup(map, key) ==
    LET hits == {i \in 1..Len(map) : map[i][1][1] = key[1] /\ map[i][1][2] = key[2]}
    IN IF hits = {} THEN <<"nil">> ELSE map[CHOOSE i \in hits : TRUE][2]

(* add_s: <<"v", bytes>> or <<"err", msg>> *)
RECURSIVE AddS(_, _, _, _, _, _, _)
AddS(x, rb, caps, ms, me, i, acc) ==
    IF i > Len(rb) THEN <<"v", acc>>
    ELSE IF rb[i] # ESC THEN AddS(x, rb, caps, ms, me, i + 1, Append(acc, rb[i]))
    ELSE LET c == IF i + 1 <= Len(rb) THEN rb[i + 1] ELSE 0 IN   \* news[l] = '\0'
         IF ~IsDigit(c) THEN AddS(x, rb, caps, ms, me, i + 2, Append(acc, c))
         ELSE IF c = 48 THEN AddS(x, rb, caps, ms, me, i + 2, acc \o Sub(x.s, ms, me - 1))
         ELSE LET v == PushOne(x, caps, c - 48, ms, me) IN
              IF v[1] = "err" THEN v
              ELSE AddS(x, rb, caps, ms, me, i + 2, acc \o ValBytes(v))

(* add_value: [k |-> "ok", b |-> bytes added, call |-> <<>> or <<args>>] *)
AddValue(x, repl, caps, ms, me) ==
    LET orig == Sub(x.s, ms, me - 1)
        Conv(ret, call) ==
            IF ret[1] = "nil" \/ (ret[1] = "b" /\ ret[2] = FALSE) THEN [k |-> "ok", b |-> orig, call |-> call]
            ELSE IF ret[1] \in {"s", "n"} THEN [k |-> "ok", b |-> ValBytes(ret), call |-> call]
            ELSE [k |-> "err", m |-> "invalid replacement value"]
    IN CASE repl[1] \in {"s", "n"} ->       \* LUA_TNUMBER: add_s on the number's text
              (LET r == AddS(x, IF repl[1] = "n" THEN IntToBytes(repl[2]) ELSE repl[2],
                             caps, ms, me, 1, <<>>) IN
               IF r[1] = "err" THEN [k |-> "err", m |-> r[2]]
               ELSE [k |-> "ok", b |-> r[2], call |-> <<>>])
         [] repl[1] = "f" ->
              (LET pc == PushCaptures(x, caps, ms, me, TRUE) IN
               IF pc[1] = "err" THEN [k |-> "err", m |-> pc[2]]
               ELSE Conv(Lookup(repl[2], pc[2][1]), <<pc[2]>>))
         [] OTHER ->
              (LET key == PushOne(x, caps, 1, ms, me) IN
               IF key[1] = "err" THEN [k |-> "err", m |-> key[2]]
               ELSE Conv(Lookup(repl[2], key), <<>>))

(* str_gsub: <<"r", result bytes, n, calls>> or <<"err", msg>> *)
RECURSIVE GSubLoop(_, _, _, _, _, _, _, _)
GSubLoop(x, repl, maxs, anchor, src, n, buf, calls) ==
    LET Finish(b, from, cnt, cl) == <<"r", b \o Sub(x.s, from, LS(x)), cnt, cl>> IN
    IF n >= maxs THEN Finish(buf, src, n, calls)
    ELSE LET r == Match(x, src, 1, <<>>) IN
    IF r.k = "err" THEN <<"err", r.m>>
    ELSE LET av == IF r.k = "ok" THEN AddValue(x, repl, r.c, src, r.e)
                   ELSE [k |-> "ok", b |-> <<>>, call |-> <<>>]
         IN IF av.k = "err" THEN <<"err", av.m>>
         ELSE LET n1 == IF r.k = "ok" THEN n + 1 ELSE n
                  b1 == buf \o av.b
                  c1 == calls \o av.call
              IN IF r.k = "ok" /\ r.e > src
                 THEN (IF anchor THEN Finish(b1, r.e, n1, c1)
                       ELSE GSubLoop(x, repl, maxs, anchor, r.e, n1, b1, c1))
                 ELSE IF src <= LS(x)
                 THEN (IF anchor THEN Finish(Append(b1, x.s[src]), src + 1, n1, c1)
                       ELSE GSubLoop(x, repl, maxs, anchor, src + 1, n1, Append(b1, x.s[src]), c1))
                 ELSE Finish(b1, src, n1, c1)

(* string.gsub(s, p, repl [, n]) with n as an argument token: max_s =         *)
(* luaL_optint(L, 4, srcl+1).  -2^e is non-positive after the (int) cast; for  *)
(* 2^e the cast is implementation-defined (LP64: 2^31 -> INT_MIN, 2^53 -> 0),  *)
(* so the result "all matches" and the result "none" are both admitted (Alt).  *)
StrGSubA(s, p, repl, ntok) ==
    LET a == OptInteger(ntok, Len(s) + 1) IN
    IF a.k = "err" THEN ArgErr
    ELSE GSubLoop(Ctx(s, p, TRUE), repl,
                  IF a.k = "big" THEN Len(s) + 1 ELSE IF a.k = "nbig" THEN 0 ELSE a.v,
                  IsAnchored(p), 1, 0, <<>>, <<>>)
GSubBigAlt(ntok) == LET num == IF ntok[1] = "str" THEN ntok[2] ELSE ntok IN num[1] = "big"

(* maxn: <<"nil">> (absent: srcl+1) or <<"n", k>> *)
StrGSub(s, p, repl, maxn) ==
    GSubLoop(Ctx(s, p, TRUE), repl, IF maxn[1] = "n" THEN maxn[2] ELSE Len(s) + 1,
             IsAnchored(p), 1, 0, <<>>, <<>>)

(* ---- static well-formedness of a pattern ---------------------------------*)
(* The reference matcher raises its errors lazily (only when the matcher     *)
(* reaches the bad item).  The property allows an implementation to reject a *)
(* malformed pattern eagerly, so "malformed" needs a definition that does not*)
(* depend on the subject.  cst: one flag per capture opened so far,          *)
(* TRUE = still open.  (MC checks that this agrees with the dynamic errors.) *)
RECURSIVE WFScan(_, _, _)
WFScan(x, pi, cst) ==
    LET c == P(x, pi)
        c1 == P(x, pi + 1)
        open == {i \in 1..Len(cst) : cst[i]}
    IN CASE c = 0 -> open = {}
         [] c = DOLLAR /\ c1 = 0 -> open = {}
         [] c = LPAR ->
              (IF Len(cst) >= MAXCAPTURES THEN FALSE
               ELSE IF c1 = RPAR THEN WFScan(x, pi + 2, Append(cst, FALSE))
               ELSE WFScan(x, pi + 1, Append(cst, TRUE)))
         [] c = RPAR ->
              (IF open = {} THEN FALSE
               ELSE WFScan(x, pi + 1, [cst EXCEPT ![Max(open)] = FALSE]))
         [] c = ESC /\ c1 = 98 ->
              (IF P(x, pi + 2) = 0 \/ P(x, pi + 3) = 0 THEN FALSE ELSE WFScan(x, pi + 4, cst))
         [] c = ESC /\ c1 = 102 ->
              (IF P(x, pi + 2) # LBR THEN FALSE
               ELSE LET ep == ClassEnd(x, pi + 2) IN IF ep < 0 THEN FALSE ELSE WFScan(x, ep, cst))
         [] c = ESC /\ IsDigit(c1) ->
              (LET l == c1 - 48 IN
               IF l < 1 \/ l > Len(cst) THEN FALSE
               ELSE IF cst[l] THEN FALSE ELSE WFScan(x, pi + 2, cst))
         [] OTHER ->
              (LET ep == ClassEnd(x, pi) IN
               IF ep < 0 THEN FALSE
               ELSE IF P(x, ep) \in {QMARK, STAR, PLUS, DASH} THEN WFScan(x, ep + 1, cst)
               ELSE WFScan(x, ep, cst))

(* strip = TRUE for find/match/gsub (leading ^ is the anchor), FALSE for gmatch *)
WellFormed(p, strip) == WFScan(Ctx(<<>>, p, strip), 1, <<>>)

(* a replacement string whose last byte is an unpaired '%' (5.1 reads the    *)
(* terminating NUL there): treated as malformed                              *)
RECURSIVE ReplDangling(_, _)
ReplDangling(rb, i) ==
    IF i > Len(rb) THEN FALSE
    ELSE IF rb[i] # ESC THEN ReplDangling(rb, i + 1)
    ELSE IF i = Len(rb) THEN TRUE ELSE ReplDangling(rb, i + 2)

(* ---- what the property admits for an observed result --------------------- *)
(* exp: reference result, obs: result of the real function, nomatch: the     *)
(* function's "no match" result, malformed: pattern/replacement malformed.   *)
(* A malformed pattern or replacement may give a Lua error or no match (or   *)
(* what the reference gives); anything else must equal the reference.        *)
IsErr(r) == r[1] = "err"
Admissible(exp, obs, nomatch, malformed) ==
    IF IsErr(exp) \/ malformed
    THEN IsErr(obs) \/ obs = nomatch \/ (~IsErr(exp) /\ obs = exp)
    ELSE ~IsErr(obs) /\ obs = exp
=============================================================================
