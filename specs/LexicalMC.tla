----------------------------- MODULE LexicalMC -----------------------------
(***************************************************************************)
(* Model checking of module Lexical itself: the laws that make it a        *)
(* credible oracle, over all byte strings up to MaxLen over an alphabet     *)
(* (Mode "str": string-literal laws, Mode "num": numeral laws) and over an  *)
(* integer grid (Mode "int").                                               *)
(***************************************************************************)
EXTENDS Lexical, FiniteSets, TLC

CONSTANTS Mode, Alpha, MaxLen, IntGrid

VARIABLES s, n
vars == <<s, n>>

Init == /\ s = <<>>
        /\ IF Mode = "int" THEN n \in IntGrid ELSE n = 0
Next == /\ Mode # "int"
        /\ Len(s) < MaxLen
        /\ \E c \in Alpha : s' = Append(s, c)
        /\ n' = n
Spec == Init /\ [][Next]_vars

(* constants for the cfg files *)
StrAlpha == {0, 10, 13, 34, 39, 48, 61, 91, 92, 93, 97, 110, 255}
NumAlpha == {48, 49, 57, 120, 88, 97, 102, 101, 69, 46, 45, 43, 32, 95}
RECURSIVE Pow(_, _)
Pow(b, k) == IF k = 0 THEN 1 ELSE b * Pow(b, k - 1)
PosGrid == UNION {{Pow(2, k) - 1, Pow(2, k), Pow(2, k) + 1} : k \in 0..30}
           \cup UNION {{Pow(10, k) - 1, Pow(10, k), Pow(10, k) + 1} : k \in 0..9}
           \cup {MaxInt, MaxInt - 1, 123456789, 987654321, 1000000007}
           \cup 0..300
MC_IntGrid == PosGrid \cup {0 - x : x \in PosGrid}
NoGrid == {0}

Has(t, c) == \E i \in 1..Len(t) : t[i] = c
AllDigits(t) == Len(t) >= 1 /\ \A i \in 1..Len(t) : IsDigit(t[i])
AllHex(t) == Len(t) >= 1 /\ \A i \in 1..Len(t) : IsHexDigit(t[i])

(*************************** string literals *******************************)
ReadsBackAs(text, v) == LET r == Denote(text) IN r.kind = "ok" /\ r.val = v

(* string.format('%q', s) read back yields s, for every byte string *)
QuoteLaw == Mode = "str" => ReadsBackAs(Quote(s), s)

(* every short form denotes the intended bytes *)
ShortFormsLaw == Mode = "str" => \A F \in {"dq", "sq", "dec", "decmin"} : ReadsBackAs(Render(F, s), s)

(* long brackets denote their content verbatim unless it contains CR or brackets; *)
(* and whenever a long form is one literal and has no CR, it denotes s            *)
LongFormsLaw ==
    Mode = "str" => \A F \in {"l0", "l1", "l2", "l1crlf"} :
        LET r == Denote(Render(F, s)) IN
        /\ (~Has(s, 13) /\ ~Has(s, 91) /\ ~Has(s, 93)) => (r.kind = "ok" /\ r.val = s)
        /\ (r.kind = "ok" /\ ~Has(s, 13)) => r.val = s
        /\ r.kind \in {"ok", "partial", "invalid", "unspec"}

(* a short literal never denotes more bytes than its source has between the quotes *)
ShortShrinks ==
    Mode = "str" => LET r == Denote(<<34>> \o s \o <<34>>) IN
        /\ r.kind \in {"ok", "partial", "invalid"}
        /\ r.kind = "ok" => Len(r.val) <= Len(s)
        /\ (r.kind = "ok" /\ ~Has(s, 92)) => r.val = s

(******************************* numerals **********************************)
NumOK(r) == \/ r \in {Bad, Valid, UnspecN}
            \/ (r[1] = "v" /\ ((r[2] = 0 /\ r[3] = 0) \/ r[2] % 2 = 1))
ValOf(r) == r[2] * Pow(2, r[3])

NumType == Mode = "num" =>
    /\ NumOK(Numeral(s)) /\ (LexNumeral(s) = <<"skip">> \/ NumOK(LexNumeral(s)))
    /\ \A b \in {2, 8, 16, 36} : NumOK(NumeralBase(s, b))

BlankLaw == Mode = "num" => \A b \in {32, 9, 10, 11, 12, 13} :
    /\ Numeral(<<b>> \o s) = Numeral(s)
    /\ Numeral(s \o <<b>>) = Numeral(s)
    /\ NumeralBase(<<b>> \o s \o <<b>>, 16) = NumeralBase(s, 16)

(* leading zeros do not change the value; digit strings are Horner sums *)
DigitsLaw == (Mode = "num" /\ AllDigits(s)) =>
    /\ Numeral(<<48>> \o s) = Numeral(s)
    /\ Numeral(<<48, 48>> \o s) = Numeral(s)
    /\ Numeral(s)[1] = "v"
    /\ \A d \in 0..9 : ValOf(Numeral(Append(s, 48 + d))) = 10 * ValOf(Numeral(s)) + d
    /\ LexNumeral(s) = Numeral(s)
    /\ NumeralBase(s, 10) = Numeral(s)

HexLaw == (Mode = "num" /\ AllHex(s)) =>
    /\ Numeral(<<48, 120>> \o s) = NumeralBase(s, 16)
    /\ Numeral(<<48, 88>> \o s) = NumeralBase(s, 16)
    /\ NumeralBase(s, 16)[1] = "v"
    /\ \A d \in {0, 9, 10, 15} : ValOf(NumeralBase(Append(s, IF d < 10 THEN 48 + d ELSE 87 + d), 16))
                                  = 16 * ValOf(NumeralBase(s, 16)) + d
    /\ NumeralBase(s, 36)[1] = "v" /\ ValOf(NumeralBase(Append(s, 122), 36)) = 36 * ValOf(NumeralBase(s, 36)) + 35

SignLaw == (Mode = "num" /\ Numeral(s)[1] = "v" /\ ~IsBlank(s[1]) /\ s[1] # 43 /\ s[1] # 45
            /\ ~(Len(s) >= 2 /\ s[1] = 48 /\ s[2] \in {120, 88})) =>
    /\ Numeral(<<45>> \o s) = Neg(Numeral(s))
    /\ Numeral(<<43>> \o s) = Numeral(s)
    /\ Numeral(<<45, 45>> \o s) = Bad
    /\ Numeral(<<45, 32>> \o s) = Bad

ExpLaw == (Mode = "num" /\ AllDigits(s)) =>
    /\ Numeral(s \o <<101, 49>>) = Numeral(s \o <<48>>)          \* de1  = d0
    /\ Numeral(s \o <<69, 43, 48, 50>>) = Numeral(s \o <<48, 48>>)  \* dE+02 = d00
    /\ Numeral(s \o <<101, 48>>) = Numeral(s)
    /\ Numeral(s \o <<48, 101, 45, 49>>) = Numeral(s)            \* d0e-1 = d
    /\ Numeral(s \o <<101>>) = Bad /\ Numeral(s \o <<101, 43>>) = Bad

FracLaw == (Mode = "num" /\ AllDigits(s)) =>
    /\ Numeral(s \o <<46>>) = Numeral(s)
    /\ Numeral(s \o <<46, 48>>) = Numeral(s)
    /\ Numeral(<<46>> \o s) = Numeral(<<48, 46>> \o s)
    /\ Numeral(s \o <<46, 53>>) = Norm(2 * ValOf(Numeral(s)) + 1, -1)      \* d.5
    /\ Numeral(s \o <<46, 50, 53>>) = Norm(4 * ValOf(Numeral(s)) + 1, -2)  \* d.25
    /\ Numeral(s \o <<53, 101, 45, 49>>) = Numeral(s \o <<46, 53>>)        \* d5e-1 = d.5

(* every unsigned numeral without blanks is exactly one token of the reference lexer *)
TokenLaw == Mode = "num" =>
    /\ (Numeral(s)[1] \in {"v", "valid"} /\ ~IsBlank(s[1]) /\ ~IsBlank(s[Len(s)]) /\ s[1] # 43 /\ s[1] # 45)
          => (OneNumeralToken(s) /\ LexNumeral(s) = Numeral(s))
    /\ (OneNumeralToken(s) => LexNumeral(s) = Numeral(s))

(******************************* integers **********************************)
Abs(x) == IF x < 0 THEN 0 - x ELSE x
IntLaw == Mode = "int" =>
    /\ Numeral(IntToStr(n)) = Norm(n, 0)
    /\ LexNumeral(IntToStr(Abs(n))) = Norm(Abs(n), 0)
    /\ NumeralBase(IntToStr(Abs(n)), 10) = Norm(Abs(n), 0)
    /\ IntToStr2(n < 0, 0, Abs(n)) = IntToStr(n)
    /\ IntToStr2(n < 0, Abs(n) \div 100000000, Abs(n) % 100000000) = IntToStr(n)
    /\ Abs(n) <= MaxInt \div 10 => Numeral(<<32>> \o IntToStr(n) \o <<46, 48, 32>>) = Norm(n, 0)
=============================================================================
