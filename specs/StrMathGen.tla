----------------------------- MODULE StrMathGen -----------------------------
(***************************************************************************)
(* Generator for property C15: enumerates bounded families of library     *)
(* calls completely (which families: constant Fams) and exports every call    *)
(* together with the result module StrMathEval defines for it, one GEN     *)
(* line per group of calls:  [cs |-> << <<f, args, expected>>, ... >>].    *)
(* Calls the specification does not decide ("undef") are not exported,     *)
(* only counted (field u).  The expensive evaluation happens in the        *)
(* successor state so that TLC's workers share the groups.                 *)
(***************************************************************************)
EXTENDS StrMathEval, TLC, Json

CONSTANTS Fams,                         \* set of family names to enumerate in this run
          Win,                          \* index window: -len-Win .. len+Win
          AlphaIdx, LenIdx,             \* sub / byte / unary: subject strings of every length 0..LenIdx over AlphaIdx
          Extra,                        \* "none" | "bytes" | "pairs": additional subject strings (family unary)
          AlphaFindP, AlphaFindL,       \* find with / without the plain flag: alphabets
          LenFind, PatP, PatL,          \* find: subject length bound, pattern length bounds
          AlphaFmtS, LenFmtS,           \* %s: argument strings
          FmtFull,                      \* TRUE: all widths / precisions below, FALSE: a subset (quick tier)
          G1M, G1Neg, G1Hi,             \* math1 grid: m * 2^e, |m| <= G1M, e in -G1Neg..G1Hi
          G2M, G2Neg, G2Hi              \* math2 grid

Strs(A, n) == UNION {[1..k -> A] : k \in 0..n}
I(i) == <<"n", i>>
B(b) == <<"b", b>>
W(l) == (-l - Win)..(l + Win)
IW(l) == {I(i) : i \in W(l)}

ExtraStrs ==
    CASE Extra = "bytes" ->
           {<<b>> : b \in 0..255} \cup {<<97, b, 65>> : b \in 0..255}
           \cup {<<b1, b2>> : b1 \in {195, 206, 208}, b2 \in 128..191}
      [] Extra = "pairs" ->
           {<<b>> : b \in 0..255} \cup {<<97, b, 65>> : b \in 0..255}
           \cup {<<b1, b2>> : b1 \in 192..255, b2 \in 128..191}
           \cup {<<b1, b2, b3>> : b1 \in {226, 239}, b2 \in {128, 130, 189}, b3 \in 128..191}
      [] OTHER -> {}

GridOf(M, neg, hi) == {Tok([m |-> m, e |-> e]) : m \in (-M)..M, e \in (-neg)..hi} \cup {Inf(1), Inf(-1)}
Grid1 == GridOf(G1M, G1Neg, G1Hi)
Grid2 == GridOf(G2M, G2Neg, G2Hi)
SmallGrid == {Tok([m |-> m, e |-> e]) : m \in {-3, -1, 0, 1, 2, 5}, e \in {-1, 0}} \cup {Inf(1), Inf(-1)}
TinyGrid == {I(-1), I(0), <<"q", 1, -1>>, I(2)}

(* format building blocks *)
Widths == IF FmtFull THEN {<<>>, <<49>>, <<50>>, <<51>>, <<52>>, <<53>>, <<54>>, <<49, 48>>}   \* none 1..6 10
          ELSE {<<>>, <<49>>, <<51>>, <<54>>}
Precs == IF FmtFull THEN {<<>>, <<46>>, <<46, 48>>, <<46, 49>>, <<46, 51>>, <<46, 53>>}        \* none . .0 .1 .3 .5
         ELSE {<<>>, <<46>>, <<46, 49>>, <<46, 51>>}
SignedFlags == {45, 48, 43, 32}                  \* - 0 + space
UnsignedFlags == {45, 48, 35, 43, 32}            \* - 0 # + space
IntArgs == {I(0), I(1), I(-1), I(5), I(-5), I(12), I(-123), I(255), I(4096), I(65535),
            <<"q", 5, -1>>, <<"q", -5, -1>>, <<"q", 1, -1>>}
UIntArgs == {I(0), I(1), I(7), I(8), I(12), I(255), I(4096), I(65535), <<"q", 5, -1>>}

GroupsOf(Fam) ==
    CASE Fam \in {"sub", "byte"} -> Strs(AlphaIdx, LenIdx)
      [] Fam = "unary" -> Strs(AlphaIdx, LenIdx) \cup ExtraStrs
      [] Fam = "char" -> UNION {[1..k -> {0, 65, 255, 256, -1}] : k \in 0..3}
                         \cup {<<c>> : c \in -3..259} \cup {<<65, c>> : c \in {-256, 128, 300, 511}}
      [] Fam = "findp" -> Strs(AlphaFindP, LenFind) \X Strs(AlphaFindP, PatP)
      [] Fam = "findl" -> Strs(AlphaFindL, LenFind) \X Strs(AlphaFindL, PatL)
      [] Fam = "fmtd" -> {100, 105} \X IntArgs
      [] Fam = "fmtx" -> {120, 88, 111} \X UIntArgs
      [] Fam = "fmtc" -> (1..255) \cup {321, 577, -191}
      [] Fam = "fmts" -> Strs(AlphaFmtS, LenFmtS)
      [] Fam = "math1" -> Grid1
      [] Fam = "math2" -> Grid2 \X Grid2
      [] Fam = "maxmin" -> SmallGrid \X SmallGrid


Call(f, args) == <<f, args>>

CasesOf(Fam, g) ==
    CASE Fam = "sub" ->
           {Call("sub", <<S(g)>>), Call("sub", <<S(g), Nil>>)}
           \cup {Call("sub", <<S(g), i>>) : i \in IW(Len(g))}
           \cup {Call("sub", <<S(g), i, j>>) : i \in IW(Len(g)), j \in IW(Len(g)) \cup {Nil}}
      [] Fam = "byte" ->
           {Call("byte", <<S(g)>>)}
           \cup {Call("byte", <<S(g), i>>) : i \in IW(Len(g)) \cup {Nil}}
           \cup {Call("byte", <<S(g), i, j>>) : i \in IW(Len(g)) \cup {Nil}, j \in IW(Len(g)) \cup {Nil}}
      [] Fam = "unary" ->
           {Call(f, <<S(g)>>) : f \in {"len", "reverse", "upper", "lower"}}
           \cup {Call("rep", <<S(g), I(n)>>) : n \in -1..3}
           \cup {Call("byte", <<S(g), I(1), I(-1)>>), Call("sub", <<S(g), I(1)>>),
                 Call("char", [k \in 1..Len(g) |-> I(g[k])])}
      [] Fam = "char" -> {Call("char", [k \in 1..Len(g) |-> I(g[k])])}
      [] Fam = "findp" ->
           {Call("find", <<S(g[1]), S(g[2]), i, pl>>) :
                i \in IW(Len(g[1])) \cup {Nil}, pl \in {B(TRUE), I(0), S(<<>>)}}
      [] Fam = "findl" ->
           {Call("find", <<S(g[1]), S(g[2])>>)}
           \cup {Call("find", <<S(g[1]), S(g[2]), i>>) : i \in IW(Len(g[1])) \cup {Nil}}
           \cup {Call("find", <<S(g[1]), S(g[2]), i, pl>>) : i \in IW(Len(g[1])), pl \in {B(FALSE), Nil}}
      [] Fam = "fmtd" ->
           {Call("format", <<S(Directive(fl, wd, pd, g[1])), g[2]>>) :
                fl \in SUBSET SignedFlags, wd \in Widths, pd \in Precs}
      [] Fam = "fmtx" ->
           {Call("format", <<S(Directive(fl, wd, pd, g[1])), g[2]>>) :
                fl \in SUBSET UnsignedFlags, wd \in Widths, pd \in Precs}
      [] Fam = "fmtc" ->
           {Call("format", <<S(Directive(fl, wd, <<>>, 99)), I(g)>>) :
                fl \in {{}, {45}}, wd \in {<<>>, <<49>>, <<51>>}}
      [] Fam = "fmts" ->
           {Call("format", <<S(Directive(fl, wd, pd, 115)), S(g)>>) :
                fl \in {{}, {45}}, wd \in Widths, pd \in Precs}
      [] Fam = "math1" ->
           {Call(f, <<g>>) : f \in {"floor", "ceil", "abs", "modf", "frexp", "sqrt"}}
           \cup {Call("ldexp", <<g, I(k)>>) : k \in -5..5}
           \cup {Call("max", <<g>>), Call("min", <<g>>)}
      [] Fam = "math2" ->
           {Call(f, <<g[1], g[2]>>) : f \in {"fmod", "pow", "max", "min"}}
      [] Fam = "maxmin" ->
           {Call(f, <<g[1], g[2], z>>) : f \in {"max", "min"}, z \in SmallGrid}
           \cup {Call(f, <<z, g[1], g[2]>>) : f \in {"max", "min"}, z \in SmallGrid}
           \cup {Call(f, <<g[1], z, w, g[2]>>) : f \in {"max", "min"}, z \in TinyGrid, w \in TinyGrid}

VARIABLES g, done
vars == <<g, done>>

Init == \E fam \in Fams : \E x \in GroupsOf(fam) : g = <<fam, x>> /\ done = FALSE
Next == ~done /\ done' = TRUE /\ g' = g
Spec == Init /\ [][Next]_vars

GenPrint ==
    done => LET cs == SetToSeq(CasesOf(g[1], g[2]))
                ex == [k \in 1..Len(cs) |-> Eval(cs[k][1], cs[k][2])]
                keep == SelectSeq([k \in 1..Len(cs) |-> k], LAMBDA k : ex[k][1] # "undef")
            IN PrintT("GEN " \o ToJson(
                   [fam |-> g[1],
                    cs |-> [i \in 1..Len(keep) |-> <<cs[keep[i]][1], cs[keep[i]][2], ex[keep[i]]>>],
                    u |-> Len(cs) - Len(keep)]))
=============================================================================
