----------------------------- MODULE StrMathGen -----------------------------
(***************************************************************************)
(* Generator for property C15: enumerates bounded families of library     *)
(* calls completely (which families: constant Fams) and exports every call    *)
(* together with the result module StrMathEval defines for it, one GEN     *)
(* line per group of calls:  [cs |-> << <<f, args, expected>>, ... >>].    *)
(* Calls the specification does not decide ("undef") are not exported,     *)
(* only counted (field u).  The expensive evaluation happens in the        *)
(* successor state so that TLC's workers share the groups.                 *)
(***************************************************************************)
EXTENDS StrMathEval, TLC, Json

CONSTANTS Fams,                         \* set of family names to enumerate in this run
          Win,                          \* index window: -len-Win .. len+Win
          AlphaIdx, LenIdx,             \* sub / byte / unary: subject strings of every length 0..LenIdx over AlphaIdx
          Extra,                        \* "none" | "bytes" | "pairs": additional subject strings (family unary)
          AlphaFindP, AlphaFindL,       \* find with / without the plain flag: alphabets
          LenFind, PatP, PatL,          \* find: subject length bound, pattern length bounds
          AlphaFmtS, LenFmtS,           \* %s: argument strings
          FmtFull,                      \* TRUE: all widths / precisions below, FALSE: a subset (quick tier)
          G1M, G1Neg, G1Hi,             \* math1 grid: m * 2^e, |m| <= G1M, e in -G1Neg..G1Hi
          G2M, G2Neg, G2Hi              \* math2 grid

Strs(A, n) == UNION {[1..k -> A] : k \in 0..n}
I(i) == <<"n", i>>
B(b) == <<"b", b>>
W(l) == (-l - Win)..(l + Win)
IW(l) == {I(i) : i \in W(l)}

ExtraStrs ==
    CASE Extra = "bytes" ->
           {<<b>> : b \in 0..255} \cup {<<97, b, 65>> : b \in 0..255}
           \cup {<<b1, b2>> : b1 \in {195, 206, 208}, b2 \in 128..191}
      [] Extra = "pairs" ->
           {<<b>> : b \in 0..255} \cup {<<97, b, 65>> : b \in 0..255}
           \cup {<<b1, b2>> : b1 \in 192..255, b2 \in 128..191}
           \cup {<<b1, b2, b3>> : b1 \in {226, 239}, b2 \in {128, 130, 189}, b3 \in 128..191}
      [] OTHER -> {}

GridOf(M, neg, hi) == {Tok([m |-> m, e |-> e]) : m \in (-M)..M, e \in (-neg)..hi} \cup {Inf(1), Inf(-1), NegZero}
Grid1 == GridOf(G1M, G1Neg, G1Hi)
Grid2 == GridOf(G2M, G2Neg, G2Hi)
SmallGrid == {Tok([m |-> m, e |-> e]) : m \in {-3, -1, 0, 1, 2, 5}, e \in {-1, 0}} \cup {Inf(1), Inf(-1), NegZero}
TinyGrid == {I(-1), I(0), <<"q", 1, -1>>, I(2)}

(* format building blocks *)
Widths == IF FmtFull THEN {<<>>, <<49>>, <<50>>, <<51>>, <<52>>, <<53>>, <<54>>, <<49, 48>>}   \* none 1..6 10
          ELSE {<<>>, <<49>>, <<51>>, <<54>>}
Precs == IF FmtFull THEN {<<>>, <<46>>, <<46, 48>>, <<46, 49>>, <<46, 51>>, <<46, 53>>}        \* none . .0 .1 .3 .5
         ELSE {<<>>, <<46>>, <<46, 49>>, <<46, 51>>}
SignedFlags == {45, 48, 43, 32}                  \* - 0 + space
UnsignedFlags == {45, 48, 35, 43, 32}            \* - 0 # + space
IntArgs == {I(0), I(1), I(-1), I(5), I(-5), I(12), I(-123), I(255), I(4096), I(65535),
            <<"q", 5, -1>>, <<"q", -5, -1>>, <<"q", 1, -1>>}
UIntArgs == {I(0), I(1), I(7), I(8), I(12), I(255), I(4096), I(65535), <<"q", 5, -1>>}

(* the format grid: every flag subset x width x precision x conversion x argument *)
GWidths == {<<>>, <<49>>, <<56>>, <<49, 50>>}                      \* none 1 8 12
GPrecs == {<<>>, <<46, 48>>, <<46, 50>>, <<46, 49, 48>>}           \* none .0 .2 .10
AllFlags == {45, 43, 32, 35, 48}
GFlagsOf(conv) ==                       \* the flags ISO C defines for the conversion
    CASE conv \in {100, 105} -> {45, 43, 32, 48}                 \* d i
      [] conv = 117 -> {45, 43, 32, 48}                           \* u
      [] conv \in {111, 120, 88, 101, 69, 102, 103, 71} -> AllFlags
      [] conv \in {99, 115} -> {45}                               \* c s
      [] OTHER -> {}                                              \* q
GPrecsOf(conv) == IF conv \in {99, 113} THEN {<<>>} ELSE GPrecs
GWidthsOf(conv) == IF conv = 113 THEN {<<>>} ELSE GWidths
FloatArgs == {I(0), I(1), I(100), <<"q", -3, -1>>, <<"q", 5, -1>>, <<"q", 1, -1>>, <<"q", 25, -1>>, <<"q", 1, -4>>,
              <<"q", 1, -14>>, <<"q", 2469135, -1>>, <<"q", 1999999, -1>>, <<"q", 3, 40>>, I(-1073741823),
              Inf(1), Inf(-1)}
GArgsOf(conv) ==
    CASE conv \in {100, 105} -> {I(0), I(7), I(-7), I(1234567), I(-1073741823), <<"q", 5, -1>>, <<"q", -15, -2>>}
      [] conv \in {117, 111, 120, 88} -> {I(0), I(7), I(1234567), I(1073741823), <<"q", 5, -1>>}
      [] conv \in {101, 69, 102, 103, 71} -> FloatArgs
      [] conv = 99 -> {I(65), I(233), I(1)}
      [] OTHER -> {S(<<>>), S(<<97>>), S(<<97, 98, 99, 100>>), S(<<195, 169, 34, 92, 10>>), I(42), <<"q", -5, -2>>}
GridConvs == {100, 105, 117, 111, 120, 88, 101, 69, 102, 103, 71, 99, 115, 113}

(* ldexp / frexp over the whole exponent range of a double *)
WideMants == {1, -1, 3, 5, -7, 255, 1048575}
WideExps == {0, 1, 52, 500, 970, 1003, 1020, 1022, 1023}
WideNeg == {1, 30, 500, 1000, 1021, 1022, 1023, 1030, 1050, 1060, 1070, 1072, 1073, 1074}
WideVals == {t \in {Tok([m |-> m, e |-> e]) : m \in WideMants, e \in WideExps}
                    \cup {Tok([m |-> m, e |-> -e]) : m \in WideMants, e \in WideNeg} : Representable(t)}
WideShifts == {0, 1, 52, 53, 1020, 1022, 1023, 1024, 1025, 1050, 1073, 1074, 1075, 1076, 1100, 1500, 2000, 2046,
               2097, 2098, 2099, 2200}

(* pow: the special cases of C99 F.9.4.4, for math.pow and the ^ operator *)
PowBases == {PosZero, NegZero, Inf(1), Inf(-1), I(1), I(-1), NaN, I(-2), I(2), I(-3), <<"q", -1, -1>>, <<"q", 1, -1>>,
             <<"q", -5, -1>>, I(4), <<"q", 9, -2>>}
PowExps == {PosZero, NegZero, <<"q", 1, -1>>, <<"q", -1, -1>>, I(1), I(-1), I(2), I(-2), I(3), I(-3), I(4), I(5),
            Inf(1), Inf(-1), NaN, <<"q", 3, -1>>, <<"q", 1, -2>>, <<"q", -5, -1>>, <<"q", 1, 40>>, <<"q", -1, 40>>}
(* arithmetic with signed zeros, infinities and NaN *)
ArithVals == {PosZero, NegZero, I(1), I(-1), I(2), I(-2), I(3), I(-6), <<"q", 1, -1>>, <<"q", -1, -1>>, <<"q", 3, -2>>,
              Inf(1), Inf(-1), NaN}

GroupsOf(Fam) ==
    CASE Fam \in {"sub", "byte"} -> Strs(AlphaIdx, LenIdx)
      [] Fam = "unary" -> Strs(AlphaIdx, LenIdx) \cup ExtraStrs
      [] Fam = "char" -> UNION {[1..k -> {0, 65, 255, 256, -1}] : k \in 0..3}
                         \cup {<<c>> : c \in -3..259} \cup {<<65, c>> : c \in {-256, 128, 300, 511}}
      [] Fam = "findp" -> Strs(AlphaFindP, LenFind) \X Strs(AlphaFindP, PatP)
      [] Fam = "findl" -> Strs(AlphaFindL, LenFind) \X Strs(AlphaFindL, PatL)
      [] Fam = "fmtd" -> {100, 105} \X IntArgs
      [] Fam = "fmtx" -> {120, 88, 111} \X UIntArgs
      [] Fam = "fmtc" -> (1..255) \cup {321, 577, -191}
      [] Fam = "fmts" -> Strs(AlphaFmtS, LenFmtS)
      [] Fam = "math1" -> Grid1
      [] Fam = "math2" -> Grid2 \X Grid2
      [] Fam = "maxmin" -> SmallGrid \X SmallGrid
      [] Fam = "fmtgrid" -> UNION {{<<c, a>> : a \in GArgsOf(c)} : c \in GridConvs}
      [] Fam = "ldexpw" -> WideVals
      [] Fam = "powsp" -> PowBases
      [] Fam = "arith" -> ArithVals
      [] Fam = "consts" -> {"huge", "pi"}
      [] Fam = "logs" -> {<<"p10", k>> : k \in -22..22} \cup {PosZero, NegZero, I(1), I(-1), <<"q", -5, -1>>, Inf(1), Inf(-1)}
      [] Fam = "fmtbad" -> (33..126) \ ({99, 100, 105, 111, 117, 120, 88, 101, 69, 102, 103, 71, 113, 115, 37, 46}
                                        \cup FlagBytes \cup (48..57))


Call(f, args) == <<f, args>>

CasesOf(Fam, g) ==
    CASE Fam = "sub" ->
           {Call("sub", <<S(g)>>), Call("sub", <<S(g), Nil>>)}
           \cup {Call("sub", <<S(g), i>>) : i \in IW(Len(g))}
           \cup {Call("sub", <<S(g), i, j>>) : i \in IW(Len(g)), j \in IW(Len(g)) \cup {Nil}}
      [] Fam = "byte" ->
           {Call("byte", <<S(g)>>)}
           \cup {Call("byte", <<S(g), i>>) : i \in IW(Len(g)) \cup {Nil}}
           \cup {Call("byte", <<S(g), i, j>>) : i \in IW(Len(g)) \cup {Nil}, j \in IW(Len(g)) \cup {Nil}}
      [] Fam = "unary" ->
           {Call(f, <<S(g)>>) : f \in {"len", "reverse", "upper", "lower"}}
           \cup {Call("rep", <<S(g), I(n)>>) : n \in -1..3}
           \cup {Call("byte", <<S(g), I(1), I(-1)>>), Call("sub", <<S(g), I(1)>>),
                 Call("char", [k \in 1..Len(g) |-> I(g[k])])}
      [] Fam = "char" -> {Call("char", [k \in 1..Len(g) |-> I(g[k])])}
      [] Fam = "findp" ->
           {Call("find", <<S(g[1]), S(g[2]), i, pl>>) :
                i \in IW(Len(g[1])) \cup {Nil}, pl \in {B(TRUE), I(0), S(<<>>)}}
      [] Fam = "findl" ->
           {Call("find", <<S(g[1]), S(g[2])>>)}
           \cup {Call("find", <<S(g[1]), S(g[2]), i>>) : i \in IW(Len(g[1])) \cup {Nil}}
           \cup {Call("find", <<S(g[1]), S(g[2]), i, pl>>) : i \in IW(Len(g[1])), pl \in {B(FALSE), Nil}}
      [] Fam = "fmtd" ->
           {Call("format", <<S(Directive(fl, wd, pd, g[1])), g[2]>>) :
                fl \in SUBSET SignedFlags, wd \in Widths, pd \in Precs}
      [] Fam = "fmtx" ->
           {Call("format", <<S(Directive(fl, wd, pd, g[1])), g[2]>>) :
                fl \in SUBSET UnsignedFlags, wd \in Widths, pd \in Precs}
      [] Fam = "fmtc" ->
           {Call("format", <<S(Directive(fl, wd, <<>>, 99)), I(g)>>) :
                fl \in {{}, {45}}, wd \in {<<>>, <<49>>, <<51>>}}
      [] Fam = "fmts" ->
           {Call("format", <<S(Directive(fl, wd, pd, 115)), S(g)>>) :
                fl \in {{}, {45}}, wd \in Widths, pd \in Precs}
      [] Fam = "math1" ->
           {Call(f, <<g>>) : f \in {"floor", "ceil", "abs", "modf", "frexp", "sqrt"}}
           \cup {Call("ldexp", <<g, I(k)>>) : k \in -5..5}
           \cup {Call("max", <<g>>), Call("min", <<g>>)}
      [] Fam = "math2" ->
           {Call(f, <<g[1], g[2]>>) : f \in {"fmod", "mod", "pow", "max", "min"}}
      [] Fam = "fmtgrid" ->
           {Call("format", <<S(Directive(fl, wd, pd, g[1])), g[2]>>) :
                fl \in SUBSET GFlagsOf(g[1]), wd \in GWidthsOf(g[1]), pd \in GPrecsOf(g[1])}
      [] Fam = "powsp" -> {Call(f, <<g, y>>) : f \in {"pow", "op^"}, y \in PowExps}
      [] Fam = "arith" ->
           {Call(f, <<g, y>>) : f \in {"op+", "op-", "op*", "op/", "op%", "fmod", "mod", "max", "min"}, y \in ArithVals}
           \cup {Call("opneg", <<g>>)}
           \cup {Call(f, <<g>>) : f \in {"floor", "ceil", "abs", "modf", "sqrt"}}
           \cup (IF IsFinite(g) THEN {Call("frexp", <<g>>), Call("ldexp", <<g, I(3)>>), Call("ldexp", <<g, I(-2000)>>)} ELSE {})
      [] Fam = "consts" -> {Call(g, <<>>)}
      [] Fam = "logs" -> IF g[1] = "p10" THEN {Call("log10", <<g>>)} ELSE {Call(f, <<g>>) : f \in {"log10", "log", "exp"}}
      [] Fam = "fmtbad" ->
           (* a conversion character outside Lua's list (also * and [ of C / Go) is an error *)
           {Call("format", <<S(<<91, 37>> \o pre \o <<g>> \o post \o <<93>>)>> \o as) :
                pre \in {<<>>, <<53>>, <<45>>, <<46, 50>>, <<48, 52>>}, post \in {<<>>, <<100>>, <<49, 93, 100>>},
                as \in {<<I(5)>>, <<I(5), I(3)>>, <<S(<<97>>)>>}}
      [] Fam = "ldexpw" ->
           {Call("ldexp", <<g, I(k)>>) : k \in WideShifts} \cup {Call("ldexp", <<g, I(-k)>>) : k \in WideShifts}
           \cup {Call("frexp", <<g>>)}
           \cup (LET fr == MFrexp(g)[2] IN {Call("ldexp", <<fr[1], fr[2]>>)})
      [] Fam = "maxmin" ->
           {Call(f, <<g[1], g[2], z>>) : f \in {"max", "min"}, z \in SmallGrid}
           \cup {Call(f, <<z, g[1], g[2]>>) : f \in {"max", "min"}, z \in SmallGrid}
           \cup {Call(f, <<g[1], z, w, g[2]>>) : f \in {"max", "min"}, z \in TinyGrid, w \in TinyGrid}

VARIABLES g, done
vars == <<g, done>>

Init == \E fam \in Fams : \E x \in GroupsOf(fam) : g = <<fam, x>> /\ done = FALSE
Next == ~done /\ done' = TRUE /\ g' = g
Spec == Init /\ [][Next]_vars

GenPrint ==
    done => LET cs == SetToSeq(CasesOf(g[1], g[2]))
                ex == [k \in 1..Len(cs) |-> Eval(cs[k][1], cs[k][2])]
                keep == SelectSeq([k \in 1..Len(cs) |-> k], LAMBDA k : ex[k][1] # "undef")
            IN PrintT("GEN " \o ToJson(
                   [fam |-> g[1],
                    cs |-> [i \in 1..Len(keep) |-> <<cs[keep[i]][1], cs[keep[i]][2], ex[keep[i]]>>],
                    u |-> Len(cs) - Len(keep)]))
=============================================================================
