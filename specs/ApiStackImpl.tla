---------------------------- MODULE ApiStackImpl ----------------------------
(***************************************************************************)
(* Implementation-shaped specification of the Go API value stack           *)
(* (property C10): ONE shared register file (state.go: registry) and a     *)
(* stack of host-function frames, each addressing its private list through *)
(* LocalBase.  Every operator below is a line-by-line transcription of the *)
(* Go method named in its comment (state.go, vm.go: callGFunction).        *)
(* The abstract lists of module ApiStack are carried along (stk) and TLC   *)
(* checks the refinement invariants: at every non-zero base, after every   *)
(* registry growth, each activation's window of the register file IS its   *)
(* abstract list, callers' windows and the registers below the root never  *)
(* change (frame privacy), reads agree.  The same state graph is exported  *)
(* (GEN) as operation histories that are replayed on the real LState.      *)
(***************************************************************************)
EXTENDS Integers, Sequences, FiniteSets, TLC, Json

CONSTANTS MaxLen,     \* bound on the length of a list
          MaxDepth,   \* bound on nested host activations
          MaxHist,    \* history depth bound
          Base0,      \* LocalBase of the root activation (registers below belong to callers)
          Cap0,       \* initial capacity of the register file
          GrowBy,     \* registry grow step
          Ind,        \* TRUE: start from EVERY canonical configuration (inductive-style check)
          Slacks,     \* Ind: free register slots above top in the initial configurations
          Gen         \* TRUE: print one GEN line per transition

A == INSTANCE ApiStack
Nil == A!Nil
MultRet == A!MultRet
GoNil == <<"gonil">>          \* Go nil interface: a cleared slot above top
FnMark == <<"fn">>            \* the function value of a pending call
Sentinel(i) == <<"s", i>>     \* registers below the root belong to callers

RegMax == Base0 + MaxDepth * (MaxLen + 5) + 2
Idx == (0 - (MaxLen + 2))..(MaxLen + 2)

VARIABLES rg,        \* [a: 0..RegMax-1 -> value, t: top, c: capacity]
          frames,    \* host frames: [lb, rb, nret, prot, pbase]
          stk,       \* abstract: one list per activation
          res, ares, \* value returned by the last read: implementation / abstract
          hist
vars == <<rg, frames, stk, res, ares, hist>>
view == <<rg, frames, stk>>
(* operations performed since Init (the setup prefix of a canonical configuration is marked pre) *)
StepsDone == Cardinality({i \in 1..Len(hist) : "pre" \notin DOMAIN hist[i]})
genview == <<rg, frames, stk, StepsDone>>

(* ---- registry (state.go) ------------------------------------------------- *)
(* checkSize/resize/forceResize: a grown array keeps only the slots below top *)
CheckSize(r, req) ==
    IF req > r.c
    THEN [r EXCEPT !.a = [i \in DOMAIN r.a |-> IF i < r.t THEN r.a[i] ELSE GoNil], !.c = req + GrowBy]
    ELSE r
(* registry.Set *)
RSet(r0, i, v) == LET r == CheckSize(r0, i + 1) IN
                  [r EXCEPT !.a[i] = v, !.t = IF i >= r.t THEN i + 1 ELSE r.t]
(* registry.Push *)
RPush(r0, v) == LET r == CheckSize(r0, r0.t + 1) IN [r EXCEPT !.a[r.t] = v, !.t = r.t + 1]
(* registry.Pop *)
RPop(r) == [r EXCEPT !.a[r.t - 1] = Nil, !.t = r.t - 1]
(* registry.SetTop: new slots LNil, dropped slots Go nil *)
RSetTop(r0, n) ==
    LET r == CheckSize(r0, n) IN
    [r EXCEPT !.a = [i \in DOMAIN r.a |-> IF i >= r.t /\ i < n THEN Nil
                                          ELSE IF i >= n /\ i < r.t THEN GoNil ELSE r.a[i]],
              !.t = n]
(* registry.CopyRange(regv, start, -1, n), sequential in-place loop *)
RECURSIVE CopyLoop(_, _, _, _, _, _)
CopyLoop(a, regv, start, limit, n, i) ==
    IF i >= n THEN a
    ELSE CopyLoop([a EXCEPT ![regv + i] = IF start + i >= limit \/ start + i < 0 THEN Nil ELSE a[start + i]],
                  regv, start, limit, n, i + 1)
RCopyRange(r0, regv, start, n) ==
    LET r == CheckSize(r0, regv + n)
        a1 == CopyLoop(r.a, regv, start, r.t, n, 0)
    IN [r EXCEPT !.a = [i \in DOMAIN a1 |-> IF i >= regv + n /\ i < r.t THEN GoNil ELSE a1[i]],
                 !.t = regv + n]

(* ---- LState methods (state.go) --------------------------------------------- *)
IndexToReg(r, lb, idx) ==
    IF idx > 0 THEN lb + idx - 1
    ELSE IF idx = 0 THEN -1
    ELSE (IF r.t + idx < lb THEN -1 ELSE r.t + idx)
LGetTop(r, lb) == r.t - lb
LSetTop(r, lb, idx) == LET nt == IndexToReg(r, lb, idx) + 1 IN
                       IF nt < lb THEN RSetTop(r, lb) ELSE RSetTop(r, nt)
LReplace(r, lb, idx, v) ==
    IF idx > 0 THEN (IF lb + idx - 1 < r.t THEN RSet(r, lb + idx - 1, v) ELSE r)
    ELSE IF idx = 0 THEN r
    ELSE (IF r.t + idx >= lb THEN RSet(r, r.t + idx, v) ELSE r)
LGet(r, lb, idx) ==
    IF idx > 0 THEN (IF lb + idx - 1 < r.t THEN r.a[lb + idx - 1] ELSE Nil)
    ELSE IF idx = 0 THEN Nil
    ELSE (IF r.t + idx < lb THEN Nil ELSE r.a[r.t + idx])
RECURSIVE LPop(_, _)
LPop(r, n) == IF n = 0 THEN r ELSE LPop(RPop(r), n - 1)
RECURSIVE ShiftUp(_, _, _)
ShiftUp(r, i, reg) == IF i < reg THEN r ELSE ShiftUp(RSet(r, i + 1, r.a[i]), i - 1, reg)
LInsert(r, lb, v, idx) ==
    LET reg0 == IndexToReg(r, lb, idx) IN
    IF reg0 >= r.t THEN RSet(r, reg0, v)
    ELSE LET reg == IF reg0 <= lb THEN lb ELSE reg0 IN RSet(ShiftUp(r, r.t - 1, reg), reg, v)
RECURSIVE ShiftDown(_, _, _)
ShiftDown(r, i, lim) == IF i >= lim THEN r ELSE ShiftDown(RSet(r, i, r.a[i + 1]), i + 1, lim)
LRemove(r, lb, idx) ==
    LET reg == IndexToReg(r, lb, idx) IN
    IF reg >= r.t THEN r
    ELSE IF reg < lb THEN r
    ELSE IF reg = r.t - 1 THEN RPop(r)
    ELSE RSetTop(ShiftDown(r, reg, r.t - 1), r.t - 1)

(* ---- state ---------------------------------------------------------------- *)
Depth == Len(frames)
Cur == frames[Depth]
Lb == Cur.lb
L == stk[Depth]                 \* the current abstract list
PV(j) == <<"n", 10 * Depth + j>>  \* values pushed at this depth

(* the real initial state: an empty root list at LocalBase = Base0 *)
InitReach ==
    /\ rg = [a |-> [i \in 0..(RegMax - 1) |-> IF i < Base0 THEN Sentinel(i) ELSE GoNil], t |-> Base0, c |-> Cap0]
    /\ frames = <<[lb |-> Base0, rb |-> 0, nret |-> 0, prot |-> TRUE, pbase |-> 0]>>
    /\ stk = <<<<>>>>

(* EVERY canonical configuration: d nested activations with lists of every
   length (position-coded values, so any misplaced slot is visible), every
   (NRet, protected) per frame, a register file that is exactly full / has one
   free slot / never grows, and a marker in every slot above top (an operation
   that reads above top shows it). *)
Stale == <<"stale">>
RECURSIVE LbOf(_, _)
LbOf(lens, j) == IF j = 1 THEN Base0 ELSE LbOf(lens, j - 1) + lens[j - 1] + 1
(* the operations that set such a configuration up on the real LState *)
RECURSIVE Prefix(_, _, _, _)
Prefix(lens, nrets, prots, j) ==
    IF j = 0 THEN <<>>
    ELSE Prefix(lens, nrets, prots, j - 1) \o
         (IF j = 1 THEN [p \in 1..lens[1] |-> [op |-> "push", v |-> <<"n", 100 + p>>, pre |-> TRUE]]
          ELSE <<[op |-> "call", prot |-> prots[j], args |-> [p \in 1..lens[j] |-> <<"n", 100 * j + p>>],
                  nret |-> nrets[j], pre |-> TRUE]>>)
InitInd ==
    \E d \in 1..MaxDepth : \E lens \in [1..d -> 0..MaxLen], nrets \in [1..d -> {-1, 0, 1, 2, 3}],
                                prots \in [1..d -> BOOLEAN], slack \in Slacks :
      LET top == LbOf(lens, d) + lens[d]
          InList(i) == {j \in 1..d : i >= LbOf(lens, j) /\ i < LbOf(lens, j) + lens[j]}
      IN /\ rg = [a |-> [i \in 0..(RegMax - 1) |->
                           IF i < Base0 THEN Sentinel(i)
                           ELSE IF i >= top THEN Stale
                           ELSE IF InList(i) = {} THEN FnMark
                           ELSE LET j == CHOOSE j \in InList(i) : TRUE IN <<"n", 100 * j + (i - LbOf(lens, j) + 1)>>],
                   t |-> top, c |-> top + slack]
         /\ frames = [j \in 1..d |-> IF j = 1 THEN [lb |-> Base0, rb |-> 0, nret |-> 0, prot |-> TRUE, pbase |-> 0]
                                      ELSE [lb |-> LbOf(lens, j), rb |-> LbOf(lens, j) - 1, nret |-> nrets[j],
                                            prot |-> prots[j], pbase |-> LbOf(lens, j) - 1]]
         /\ stk = [j \in 1..d |-> [p \in 1..lens[j] |-> <<"n", 100 * j + p>>]]
         /\ hist = Prefix(lens, nrets, prots, d)

Init ==
    /\ IF Ind THEN InitInd ELSE (InitReach /\ hist = <<>>)
    /\ res = Nil /\ ares = Nil

Record(op) == /\ StepsDone < MaxHist
              /\ hist' = Append(hist, op)
SetL(l) == stk' = [stk EXCEPT ![Depth] = l]
NoRead == res' = Nil /\ ares' = Nil
ImplList(r, lb) == [i \in 1..(r.t - lb) |-> r.a[lb + i - 1]]

PushAct == \E j \in {1, 2} :
    /\ Len(L) < MaxLen
    /\ rg' = RPush(rg, PV(j)) /\ SetL(A!Push(L, PV(j))) /\ NoRead /\ UNCHANGED frames
    /\ Record([op |-> "push", v |-> PV(j)])
PopAct == \E k \in 0..MaxLen :
    /\ A!PopDefined(L, k)
    /\ rg' = LPop(rg, k) /\ SetL(A!Pop(L, k)) /\ NoRead /\ UNCHANGED frames
    /\ Record([op |-> "pop", n |-> k])
GetAct == \E i \in Idx :
    /\ res' = LGet(rg, Lb, i) /\ ares' = A!Get(L, i) /\ UNCHANGED <<rg, frames, stk>>
    /\ Record([op |-> "get", i |-> i])
GetTopAct ==
    /\ res' = <<"n", LGetTop(rg, Lb)>> /\ ares' = <<"n", A!GetTop(L)>> /\ UNCHANGED <<rg, frames, stk>>
    /\ Record([op |-> "gettop"])
SetTopAct == \E i \in Idx :
    /\ i <= MaxLen
    /\ rg' = LSetTop(rg, Lb, i)
    /\ IF A!SetTopExact(L, i) THEN SetL(A!SetTop(L, i)) ELSE SetL(ImplList(rg', Lb))   \* clamped: bound
    /\ NoRead /\ UNCHANGED frames
    /\ Record([op |-> "settop", i |-> i])
InsertAct == \E i \in Idx :
    /\ Len(L) < MaxLen
    /\ ~A!InsertExcluded(L, i)
    /\ rg' = LInsert(rg, Lb, PV(3), i)
    /\ IF A!InsertExact(L, i)
       THEN SetL(A!InsertAt(L, PV(3), IF i >= 1 THEN i ELSE Len(L) + 1 + i))
       ELSE SetL(ImplList(rg', Lb))                                                  \* clamped: bound
    /\ NoRead /\ UNCHANGED frames
    /\ Record([op |-> "insert", v |-> PV(3), i |-> i])
RemoveAct == \E i \in Idx :
    /\ rg' = LRemove(rg, Lb, i) /\ SetL(A!Remove(L, i)) /\ NoRead /\ UNCHANGED frames
    /\ Record([op |-> "remove", i |-> i])
ReplaceAct == \E i \in Idx :
    /\ rg' = LReplace(rg, Lb, i, PV(4)) /\ SetL(A!Replace(L, i, PV(4))) /\ NoRead /\ UNCHANGED frames
    /\ Record([op |-> "replace", i |-> i, v |-> PV(4)])

(* Push(fn), Push(args...), Call/PCall(nargs, nret): callR + pushCallFrame(IsG) *)
RECURSIVE PushAll(_, _, _)
PushAll(r, vs, i) == IF i > Len(vs) THEN r ELSE PushAll(RPush(r, vs[i]), vs, i + 1)
CallAct == \E prot \in BOOLEAN, nargs \in 0..3, nret \in {-1, 0, 1, 2, 3} :
    LET args == [j \in 1..nargs |-> PV(4 + j)]
        r1 == PushAll(RPush(rg, FnMark), args, 1)
        base == r1.t - nargs - 1
    IN /\ Depth < MaxDepth
       /\ rg' = RSetTop(r1, base + 1 + nargs)                     \* initCallFrame, IsG
       /\ frames' = Append(frames, [lb |-> base + 1, rb |-> base, nret |-> nret, prot |-> prot, pbase |-> base])
       /\ stk' = Append(stk, args)                                \* the callee's list is its arguments
       /\ NoRead
       /\ Record([op |-> "call", prot |-> prot, args |-> args, nret |-> nret])

(* return r: callGFunction (CopyRange of the top-most r values), frame popped, callR's SetTop *)
ReturnAct == \E r \in 0..3 :
    LET want == IF Cur.nret = MultRet THEN r ELSE Cur.nret
        r1 == RCopyRange(rg, Cur.rb, rg.t - r, want)
        r2 == IF Cur.nret # MultRet THEN RSetTop(r1, Cur.rb + Cur.nret) ELSE r1
    IN /\ Depth > 1
       /\ A!ReturnDefined(L, r)
       /\ Len(stk[Depth - 1]) + want <= MaxLen
       /\ rg' = r2
       /\ frames' = SubSeq(frames, 1, Depth - 1)
       /\ stk' = [SubSeq(stk, 1, Depth - 1) EXCEPT ![Depth - 1] = @ \o A!Adjust(A!Selected(L, r), Cur.nret)]
       /\ NoRead
       /\ Record([op |-> "ret", r |-> r])

(* the host function raises: PCall's deferred handler of the nearest protected call *)
ProtIdx == {i \in 2..Depth : frames[i].prot}
FailAct ==
    /\ ProtIdx # {}
    /\ LET p == CHOOSE i \in ProtIdx : \A j \in ProtIdx : j <= i IN
       /\ rg' = RSetTop(rg, frames[p].pbase)
       /\ frames' = SubSeq(frames, 1, p - 1)
       /\ stk' = SubSeq(stk, 1, p - 1)          \* neither arguments nor partial results
    /\ NoRead
    /\ Record([op |-> "fail"])

Next == PushAct \/ PopAct \/ GetAct \/ GetTopAct \/ SetTopAct \/ InsertAct \/ RemoveAct \/ ReplaceAct
        \/ CallAct \/ ReturnAct \/ FailAct
Spec == Init /\ [][Next]_vars

(* ---- refinement invariants (the design check of state.go) -------------------- *)
TypeOK == /\ rg.t >= Lb /\ rg.t <= rg.c /\ rg.t <= RegMax
          /\ Len(stk) = Depth
          /\ \A d \in 1..Depth : Len(stk[d]) <= MaxLen

(* the current activation's window of the register file is its abstract list *)
CurListAgrees == ImplList(rg, Lb) = L

(* frame privacy: every caller's window still is that caller's list (as it was
   when it made the call), the pending function slot is intact and the
   registers below the root were never written *)
CallerWindow(d) == [i \in 1..(frames[d + 1].rb - frames[d].lb) |-> rg.a[frames[d].lb + i - 1]]
CallersUntouched ==
    /\ \A d \in 1..(Depth - 1) : CallerWindow(d) = stk[d]
    /\ \A i \in 0..(Base0 - 1) : rg.a[i] = Sentinel(i)

(* no cleared slot (Go nil) is visible inside a list *)
NoHoles == \A i \in Base0..(rg.t - 1) : rg.a[i] # GoNil /\ rg.a[i] # Stale

(* reads agree with the abstract list; in particular nil outside the list
   (an action property: checked on every transition, also into seen states) *)
ReadAgrees == [][res' = ares']_vars

(* the transcription's Insert is one of the readings the abstract spec admits *)
InsertAdmitted == \A i \in Idx : A!InsertExact(L, i) /\ Len(L) < MaxLen =>
    ImplList(LInsert(rg, Lb, PV(3), i), Lb) \in A!InsertResults(L, PV(3), i)

(* ---- laws of the abstract operators (make ApiStack a credible oracle) -------- *)
ListLaws ==
    LET l == L  n == Len(L)  v == PV(3) IN
    /\ \A i \in Idx :
         /\ (A!Valid(l, i) <=> (i # 0 /\ (IF i > 0 THEN i ELSE 0 - i) <= n))
         /\ (~A!Valid(l, i) => A!Get(l, i) = Nil /\ A!Remove(l, i) = l /\ A!Replace(l, i, v) = l)
         /\ (i >= 1 /\ i <= n => A!Get(l, i) = A!Get(l, i - n - 1))          \* positive/negative agree
         /\ (A!Valid(l, i) => /\ Len(A!Remove(l, i)) = n - 1
                              /\ Len(A!Replace(l, i, v)) = n
                              /\ A!Get(A!Replace(l, i, v), i) = v
                              /\ \A j \in Idx : j # i /\ A!Pos(l, j) # A!Pos(l, i) =>
                                     A!Get(A!Replace(l, i, v), j) = A!Get(l, j))
         /\ (i >= 1 /\ i <= n + 1 => /\ A!Get(A!InsertAt(l, v, i), i) = v
                                     /\ A!Remove(A!InsertAt(l, v, i), i) = l
                                     /\ Len(A!InsertAt(l, v, i)) = n + 1)
         /\ (A!SetTopExact(l, i) => /\ Len(A!SetTop(l, i)) = (IF i >= 0 THEN i ELSE n + 1 + i)
                                    /\ \A j \in 1..Len(A!SetTop(l, i)) :
                                           A!SetTop(l, i)[j] = (IF j <= n THEN l[j] ELSE Nil))
    /\ A!SetTop(l, n) = l /\ A!SetTop(l, -1) = l
    /\ A!InsertAt(l, v, n + 1) = A!Push(l, v)
    /\ A!Get(A!Push(l, v), -1) = v /\ A!Pop(A!Push(l, v), 1) = l
    /\ \A k \in 0..n : A!Pop(l, k) = A!SetTop(l, 0 - k - 1) /\ Len(A!Pop(l, k)) = n - k
    /\ A!Get(l, 0) = Nil /\ A!Get(l, n + 1) = Nil /\ A!Get(l, 0 - n - 1) = Nil

CallLaws ==
    LET l == L  n == Len(L) IN
    \A r \in 0..n, nret \in {-1, 0, 1, 2, 3} :
       LET rs == A!Selected(l, r)  out == A!Adjust(rs, nret) IN
       /\ Len(rs) = r
       /\ \A j \in 1..r : rs[j] = A!Get(l, j - r - 1)                         \* the top-most r values, in order
       /\ Len(out) = (IF nret = MultRet THEN r ELSE nret)
       /\ \A j \in 1..Len(out) : out[j] = (IF j <= r THEN rs[j] ELSE Nil)     \* truncated or nil-padded
       /\ \A nargs \in 0..3 : A!CallDefined(l, nargs) =>
            /\ A!AfterCall(l, nargs, rs, nret) = A!WithoutCall(l, nargs) \o out
            /\ Len(A!AfterFailedCall(l, nargs)) = n - nargs - 1
            /\ A!ArgsOf(l, nargs) = A!Selected(l, nargs)

(* ---- GEN ------------------------------------------------------------------------ *)
GenPrint == Gen => PrintT("GEN " \o ToJson([h |-> hist']))
(* simulation mode: print only complete histories *)
SimPrint == Len(hist') = MaxHist /\ Len(hist) < MaxHist => PrintT("GEN " \o ToJson([h |-> hist']))
=============================================================================
