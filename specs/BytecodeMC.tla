----------------------------- MODULE BytecodeMC -----------------------------
(***************************************************************************)
(* Constants for model checking BytecodeVM: the prototype shape, the word  *)
(* alphabets (well-formed and ill-formed instances of every opcode) and    *)
(* the decode/encode laws of the instruction layout.                       *)
(***************************************************************************)
EXTENDS BytecodeVM

EncABC(o, a, b, c) == <<o * 1024 + a * 4 + c \div 128, (c % 128) * 512 + b>>
EncABx(o, a, bx)   == <<o * 1024 + a * 4 + bx \div 65536, bx % 65536>>
EncAsBx(o, a, s)   == EncABx(o, a, s + 131071)

(* registers 0..5 are inside the frame, 6 is outside; constant 0 is a      *)
(* string, constant 1 a number, 2 does not exist; one upvalue; nested      *)
(* prototype 0 captures one upvalue, nested prototype 1 none               *)
MC_Shape == [nreg |-> 6, nup |-> 1, np |-> 0, va |-> 2, kt |-> <<3, 2>>,
             ks |-> <<"s", "">>, sk |-> <<"s", "">>, pnup |-> <<1, 0>>]

W1(h, x) == [hi |-> <<h[1], x[1]>>, lo |-> <<h[2], x[2]>>]
DecodeLaw ==
    /\ \A o \in {0, 1, 25, 41, 63}, a \in {0, 1, 200, 255}, b \in {0, 1, 255, 256, 511}, c \in {0, 1, 127, 128, 511} :
          LET p1 == W1(EncABC(o, a, b, c), <<0, 0>>) IN
          Op(p1, 0) = o /\ ArgA(p1, 0) = a /\ ArgB(p1, 0) = b /\ ArgC(p1, 0) = c /\ ArgBx(p1, 0) = c * 512 + b
    /\ \A o \in {2, 39}, a \in {0, 255}, bx \in {0, 1, 65535, 65536, 262143} :
          LET p1 == W1(EncABx(o, a, bx), <<0, 0>>) IN Op(p1, 0) = o /\ ArgA(p1, 0) = a /\ ArgBx(p1, 0) = bx
    /\ \A s \in {-131071, -1, 0, 1, 131072} :
          LET p1 == W1(EncAsBx(25, 0, s), <<0, 0>>) IN Op(p1, 0) = 25 /\ ArgSbx(p1, 0) = s
ASSUME DecodeLaw

Core ==
    { EncABC(OP_MOVE, 1, 0, 0), EncABC(OP_MOVE, 0, 6, 0),
      EncABC(OP_MOVEN, 0, 1, 1), EncABC(OP_MOVEN, 0, 1, 2),
      EncABx(OP_LOADK, 0, 0), EncABx(OP_LOADK, 0, 1), EncABx(OP_LOADK, 0, 2),
      EncABC(OP_LOADBOOL, 0, 0, 1),
      EncABC(OP_LOADNIL, 0, 6, 0),
      EncABC(OP_GETUPVAL, 0, 0, 0), EncABC(OP_GETUPVAL, 0, 1, 0),
      EncABx(OP_GETGLOBAL, 0, 0), EncABx(OP_GETGLOBAL, 0, 1),
      EncABC(OP_GETTABLEKS, 1, 1, 256), EncABC(OP_GETTABLEKS, 1, 1, 257), EncABC(OP_GETTABLEKS, 1, 1, 0),
      EncABC(OP_SETTABLEKS, 1, 0, 257),
      EncABC(OP_SELF, 5, 1, 256),
      EncABC(OP_ADD, 0, 1, 257), EncABC(OP_ADD, 0, 1, 258),
      EncABC(OP_UNM, 0, 258, 0),
      EncABC(OP_CONCAT, 0, 1, 2),
      EncAsBx(OP_JMP, 0, -2), EncAsBx(OP_JMP, 0, -1), EncAsBx(OP_JMP, 0, 0), EncAsBx(OP_JMP, 0, 1), EncAsBx(OP_JMP, 0, 2),
      EncABC(OP_EQ, 0, 0, 256),
      EncABC(OP_TESTSET, 0, 1, 1),
      EncABC(OP_CALL, 0, 1, 1), EncABC(OP_CALL, 1, 1, 0), EncABC(OP_CALL, 0, 0, 1),
      EncABC(OP_TAILCALL, 0, 0, 0),
      EncABC(OP_RETURN, 0, 0, 0), EncABC(OP_RETURN, 5, 3, 0),
      EncAsBx(OP_FORLOOP, 0, -1), EncAsBx(OP_FORLOOP, 3, -2),
      EncAsBx(OP_FORPREP, 0, 1),
      EncABC(OP_TFORLOOP, 0, 0, 1), EncABC(OP_TFORLOOP, 1, 0, 1),
      EncABC(OP_SETLIST, 0, 1, 1), EncABC(OP_SETLIST, 0, 0, 1), EncABC(OP_SETLIST, 0, 1, 0),
      <<0, 0>>, <<0, 512>>,
      EncABx(OP_CLOSURE, 0, 0), EncABx(OP_CLOSURE, 0, 1), EncABx(OP_CLOSURE, 0, 2),
      EncABC(OP_VARARG, 1, 0, 0), EncABC(OP_VARARG, 5, 3, 0),
      EncABC(42, 0, 0, 0) }

More ==
    { EncABC(OP_MOVE, 6, 0, 0), EncABx(OP_LOADK, 6, 0),
      EncABC(OP_LOADBOOL, 0, 1, 0), EncABC(OP_LOADNIL, 0, 1, 0), EncABC(OP_LOADNIL, 3, 1, 0),
      EncABx(OP_GETGLOBAL, 0, 2), EncABx(OP_SETGLOBAL, 0, 0), EncABx(OP_SETGLOBAL, 6, 1),
      EncABC(OP_SETUPVAL, 0, 0, 0), EncABC(OP_SETUPVAL, 0, 2, 0),
      EncABC(OP_GETTABLE, 0, 1, 256), EncABC(OP_GETTABLE, 0, 6, 258),
      EncABC(OP_SETTABLE, 0, 256, 257), EncABC(OP_SETTABLE, 0, 258, 6),
      EncABC(OP_SETTABLEKS, 1, 256, 1), EncABC(OP_NEWTABLE, 0, 0, 0), EncABC(OP_NEWTABLE, 6, 0, 0),
      EncABC(OP_SELF, 0, 1, 256), EncABC(OP_SELF, 0, 1, 1),
      EncABC(OP_POW, 6, 0, 0), EncABC(OP_UNM, 0, 1, 0), EncABC(OP_NOT, 0, 1, 0), EncABC(OP_NOT, 0, 256, 0),
      EncABC(OP_LEN, 0, 256, 0), EncABC(OP_CONCAT, 0, 2, 1), EncABC(OP_CONCAT, 0, 5, 6),
      EncABC(OP_LT, 1, 256, 1), EncABC(OP_LE, 0, 6, 0), EncABC(OP_TEST, 0, 0, 0), EncABC(OP_TEST, 6, 0, 1),
      EncABC(OP_CALL, 0, 2, 2), EncABC(OP_CALL, 0, 0, 0), EncABC(OP_CALL, 4, 3, 1), EncABC(OP_CALL, 4, 1, 4),
      EncABC(OP_TAILCALL, 0, 1, 0), EncABC(OP_RETURN, 0, 2, 0), EncABC(OP_RETURN, 1, 0, 0),
      EncAsBx(OP_FORLOOP, 0, -2), EncAsBx(OP_FORPREP, 0, 0), EncAsBx(OP_FORPREP, 4, 0),
      EncABC(OP_TFORLOOP, 0, 0, 4), EncABC(OP_TFORLOOP, 0, 0, 0),
      EncABC(OP_SETLIST, 0, 6, 1), EncABC(OP_SETLIST, 0, 0, 0),
      EncABC(OP_CLOSE, 0, 0, 0), EncAsBx(OP_NOP, 0, 5),
      EncABC(OP_VARARG, 0, 2, 0), EncABC(OP_VARARG, 4, 3, 0) }

MC_Shapes == {MC_Shape}

(* frame rules: parameters and the implicit arg slot against every small     *)
(* register count, with instructions that only READ registers 0..4           *)
MC_FrameShapes ==
    { [nreg |-> nr, nup |-> 1, np |-> n, va |-> v, kt |-> <<3, 2>>, ks |-> <<"s", "">>, sk |-> <<"s", "">>, pnup |-> <<1, 0>>]
      : nr \in 1..5, n \in 0..4, v \in {0, 2, 3, 7} }
MC_AlphaFrame ==
    { EncABC(OP_RETURN, r, 2, 0) : r \in 0..4 } \cup { EncABx(OP_SETGLOBAL, r, 0) : r \in 0..4 } \cup
    { EncABC(OP_TEST, r, 0, 0) : r \in 0..4 } \cup { EncABC(OP_GETTABLEKS, 0, r, 256) : r \in 0..4 } \cup
    { EncABC(OP_MOVE, 0, r, 0) : r \in 0..4 } \cup { EncABC(OP_LOADNIL, 0, r, 0) : r \in 0..4 } \cup
    { EncABC(OP_VARARG, r, 0, 0) : r \in 0..4 } \cup { EncABC(OP_CALL, r, 2, 1) : r \in 0..3 }

MC_AlphaCore == Core
MC_AlphaFull == Core \cup More \cup
    { EncABx(OP_CLOSURE, 6, 0), EncABC(OP_VARARG, 6, 0, 0), EncABC(OP_TESTSET, 6, 1, 0), EncABC(OP_GETUPVAL, 6, 0, 0) }

(* operand rules: every opcode (and one invalid one) with every combination *)
(* of boundary operand values, as one-instruction prototypes (MaxLen = 1)   *)
MC_AlphaOps ==
    { EncABC(o, a, b, c) : o \in 0..42, a \in {0, 5, 6}, b \in {0, 1, 2, 5, 6, 256, 257, 258},
                           c \in {0, 1, 2, 4, 5, 6, 256, 257, 258} } \cup
    { EncAsBx(o, a, s) : o \in {OP_JMP, OP_FORLOOP, OP_FORPREP}, a \in {0, 2, 3, 4, 6}, s \in {-3, -2, -1, 0, 1} }
=============================================================================
