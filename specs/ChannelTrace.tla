---------------------------- MODULE ChannelTrace ----------------------------
(***************************************************************************)
(* WITNESS validation for property C13.  Each line of File is one run of N *)
(* real LStates (one goroutine each) that executed generated channel       *)
(* scripts; every state logged call and return of each channel operation   *)
(* with its own sequence number - there is no cross-process clock.  TLC    *)
(* searches for an interleaving of the per-process logs that module        *)
(* Channel allows; each state in which every returned operation has been   *)
(* explained prints one WITNESS line.  A run without a WITNESS line is     *)
(* rejected: no schedule of a correct channel implementation produces it.  *)
(*                                                                         *)
(*   record: [id, caps, procs]; procs[p] = [after, ops]                    *)
(*   op: [op, c, v, cases, done, res, hs];  cases[i] = [d, c, v, h]        *)
(*   done = FALSE: the call was logged and the return was not (the process *)
(*          was blocked when the run was frozen); such an operation may or *)
(*          may not have taken effect.  Only the last op of a process can  *)
(*          be pending.                                                    *)
(*   after = TRUE: the process (the drainer that empties every channel at  *)
(*          the end) started after all returned operations of the other    *)
(*          processes had returned; its steps wait for that barrier.       *)
(*   hs: what the select handlers observed: [i, a] = case index, arguments *)
(*                                                                         *)
(* stuck: the pending operations that the abstract channel state enabled   *)
(* at the barrier without their having happened (reported, not judged      *)
(* here; the driver re-runs such scenarios with a long quiescence window). *)
(* The LAWS line printed for the initial state evaluates schedule-         *)
(* independent necessary conditions; it only names the failure class.      *)
(***************************************************************************)
EXTENDS Channel, TLC, Json

CONSTANT File
Data == ndJsonDeserialize(File)

VARIABLES idx, pos, chs, started, stuck
vars == <<idx, pos, chs, started, stuck>>

Rec == Data[idx]
Caps == Rec.caps
NProc == Len(Rec.procs)
Procs == 1..NProc
Ops(p) == Rec.procs[p].ops
After(p) == Rec.procs[p].after
NDone(p) == IF Len(Ops(p)) = 0 THEN 0
            ELSE IF Ops(p)[Len(Ops(p))].done THEN Len(Ops(p)) ELSE Len(Ops(p)) - 1

Init ==
    /\ idx \in 1..Len(Data)
    /\ pos = [p \in 1..Len(Data[idx].procs) |-> 0]
    /\ chs = [c \in 1..Len(Data[idx].caps) |-> NewChan]
    /\ started = FALSE
    /\ stuck = {}

BarrierOK == \A q \in Procs : ~After(q) => pos[q] >= NDone(q)
CanStep(p) == pos[p] < Len(Ops(p)) /\ (After(p) => BarrierOK)
NextOp(p) == Ops(p)[pos[p] + 1]

(* a returned operation must have returned what the spec computes; a       *)
(* pending one is unconstrained                                            *)
Match(op, res) == ~op.done \/ op.res = res

(* operations whose outcome does not depend on the channels and that have  *)
(* no effect (refused payloads) commute with everything: fire them first   *)
Refused(op) == \/ op.op = "send" /\ ~Admissible(op.v)
               \/ op.op = "select" /\ SelBad(op.cases)
Eager == {p \in Procs : CanStep(p) /\ NextOp(p).done /\ Refused(NextOp(p))}
MayStep(p) == CanStep(p) /\ (IF Eager = {} THEN TRUE ELSE p = CHOOSE q \in Eager : \A r \in Eager : q <= r)

(* pending operations the channel state alone would let proceed *)
Waiting == {q \in Procs : ~After(q) /\ pos[q] = NDone(q) /\ pos[q] < Len(Ops(q))}
StuckNow ==
    {q \in Waiting :
        \/ Solo(chs, Caps, NextOp(q)) # {}
        \/ \E r \in Waiting \ {q} :
              HandOffs(chs, Caps, NextOp(q), NextOp(r)) # {} \/ HandOffs(chs, Caps, NextOp(r), NextOp(q)) # {}}

Barrier(ps) ==
    IF ~started /\ \E p \in ps : After(p)
    THEN started' = TRUE /\ stuck' = StuckNow
    ELSE UNCHANGED <<started, stuck>>

SoloStep(p) ==
    /\ MayStep(p)
    /\ \E o \in Solo(chs, Caps, NextOp(p)) :
         /\ Match(NextOp(p), o.res)
         /\ chs' = o.chs
    /\ pos' = [pos EXCEPT ![p] = @ + 1]
    /\ Barrier({p})
    /\ idx' = idx

PairStep(s, r) ==
    /\ s # r /\ MayStep(s) /\ MayStep(r)
    /\ \E x \in HandOffs(chs, Caps, NextOp(s), NextOp(r)) :
         Match(NextOp(s), x.rs) /\ Match(NextOp(r), x.rr)
    /\ pos' = [pos EXCEPT ![s] = @ + 1, ![r] = @ + 1]
    /\ Barrier({s, r})
    /\ UNCHANGED <<idx, chs>>

Next == \/ \E p \in Procs : SoloStep(p)
        \/ \E s, r \in Procs : PairStep(s, r)

Spec == Init /\ [][Next]_vars

AllConsumed == \A p \in Procs : pos[p] >= NDone(p)

Witness ==
    AllConsumed => PrintT("WITNESS " \o ToJson([id |-> Rec.id, stuck |-> Cardinality(stuck),
                                                  kinds |-> {Ops(q)[Len(Ops(q))].op : q \in stuck}]))

(* ---- schedule-independent laws (failure class of a rejected run) ------- *)
Ix == UNION {{<<p, i>> : i \in 1..Len(Ops(p))} : p \in Procs}
OpAt(x) == Ops(x[1])[x[2]]
DoneIx == {x \in Ix : OpAt(x).done}
PendIx == Ix \ DoneIx

WellFormed(op) ==
    /\ op.res.r \in {"ok", "err"}
    /\ op.res.idx \in 0..Len(op.cases)
    /\ (op.op = "select" /\ op.res.r = "ok") => op.res.idx >= 1
    /\ op.op # "select" => op.res.idx = 0
    /\ (op.op \in {"send", "close"} \/ op.res.r = "err") => (~op.res.ok /\ op.res.v = Nil)
    /\ ~op.res.ok => op.res.v = Nil

ExpectedH(op, res) ==
    IF op.op # "select" \/ res.r = "err" THEN <<>>
    ELSE LET cs == op.cases[res.idx] IN
         IF ~cs.h THEN <<>>
         ELSE <<[i |-> res.idx,
                 a |-> CASE cs.d = "recv" -> <<<<"b", res.ok>>, res.v>>
                         [] cs.d = "send" -> <<cs.v>>
                         [] OTHER -> <<>>]>>

Eff(x) == Effect(OpAt(x), OpAt(x).res)
Rcvd == {x \in DoneIx : Eff(x)[1] = "rcvd"}
Unique(v) == v[1] \in {"n", "s", "T"}

(* the sending offers of an operation: set of <<c, v>> *)
Offers(op) ==
    CASE op.op = "send" -> {<<op.c, op.v>>}
      [] op.op = "select" -> {<<op.cases[i].c, op.cases[i].v>> : i \in {j \in 1..Len(op.cases) : op.cases[j].d = "send"}}
      [] OTHER -> {}
Closes(c) == {x \in Ix : OpAt(x).op = "close" /\ OpAt(x).c = c}
OfferIx(c, v) == {x \in Ix : <<c, v>> \in Offers(OpAt(x))}

ErrCause(x) ==
    LET op == OpAt(x) IN
    CASE op.op = "send" -> ~Admissible(op.v) \/ Closes(op.c) # {}
      [] op.op = "close" -> Closes(op.c) \ {x} # {}
      [] op.op = "select" -> SelBad(op.cases) \/ \E o \in Offers(op) : Closes(o[1]) # {}
      [] OTHER -> FALSE

Laws ==
    IF \E x \in DoneIx : ~WellFormed(OpAt(x)) THEN {"malformed-result"}
    ELSE
    (IF \E x \in DoneIx : OpAt(x).hs # ExpectedH(OpAt(x), OpAt(x).res) THEN {"select-handler"} ELSE {})
    \cup (IF \/ \E x \in DoneIx : Refused(OpAt(x)) /\ OpAt(x).res.r = "ok"
             \/ \E x \in Rcvd : ~Admissible(Eff(x)[3])
          THEN {"payload-accepted"} ELSE {})
    \cup (IF \E x, y \in Rcvd : x # y /\ Eff(x)[3] = Eff(y)[3] /\ Unique(Eff(x)[3]) THEN {"duplicate-delivery"} ELSE {})
    \cup (IF \E x \in Rcvd : OfferIx(Eff(x)[2], Eff(x)[3]) = {} THEN {"phantom-value"} ELSE {})
    \cup (IF \E x, y \in Rcvd :
               /\ x[1] = y[1] /\ x[2] < y[2] /\ Eff(x)[2] = Eff(y)[2]
               /\ Unique(Eff(x)[3]) /\ Unique(Eff(y)[3])
               /\ \E a \in OfferIx(Eff(x)[2], Eff(x)[3]), b \in OfferIx(Eff(y)[2], Eff(y)[3]) :
                     a[1] = b[1] /\ b[2] < a[2]
          THEN {"per-sender-order"} ELSE {})
    \cup (IF \E x \in DoneIx : Eff(x)[1] = "eof" /\ Closes(Eff(x)[2]) = {} THEN {"closure-on-open-channel"} ELSE {})
    \cup (IF \E x \in DoneIx : OpAt(x).res.r = "err" /\ ~ErrCause(x) THEN {"error-without-cause"} ELSE {})
    \cup (IF PendIx = {} /\ \E x \in DoneIx :
               /\ Eff(x)[1] = "sent" /\ Unique(Eff(x)[3])
               /\ ~\E y \in Rcvd : Eff(y)[2] = Eff(x)[2] /\ Eff(y)[3] = Eff(x)[3]
          THEN {"lost-value"} ELSE {})

IsInit == ~started /\ \A p \in Procs : pos[p] = 0
LawsLine == IsInit => PrintT("LAWS " \o ToJson([id |-> Rec.id, broken |-> Laws]))
=============================================================================
