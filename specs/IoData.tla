------------------------------- MODULE IoData -------------------------------
(***************************************************************************)
(* Property C19 - test DATA shared by the reference model (ByteFile), the  *)
(* sparse model (IoFile) and the Go driver (c19.go mirrors the two byte    *)
(* generators; they are data, not semantics).                              *)
(*                                                                         *)
(* A file starts as `size` bytes of a position-dependent base pattern with *)
(* a layout  lay = <<kind, p>>  that places the line ends:                 *)
(*    <<"per",  p>>  "\n" at every offset i with i % p = p-1 (p = 0: none) *)
(*    <<"crlf", p>>  "\r\n" ending at the same offsets (p >= 2)            *)
(*    <<"at",   p>>  one single "\n" at offset p                           *)
(*    <<"num",  p>>  decimal numerals of p-1 digits, separated in turn by  *)
(*                   " " and "\n" (for read("*n"))                         *)
(* The payload of the t-th write is WByte(t, 0..n-1).                      *)
(***************************************************************************)
EXTENDS Integers

IMin(a, b) == IF a < b THEN a ELSE b
IMax(a, b) == IF a > b THEN a ELSE b

(* lower-case letters; the pattern shifts every 26 bytes so that a read at
   a wrong offset (even one that is off by a multiple of 26) returns
   different bytes: period 26*26 = 676, and 4096 % 676 # 0 *)
Vis(i) == 97 + ((i + (i \div 26)) % 26)

BaseByte(lay, i) ==
    LET p == lay[2] IN
    CASE lay[1] = "per"  -> (IF p > 0 /\ i % p = p - 1 THEN 10 ELSE Vis(i))
      [] lay[1] = "crlf" -> (IF p > 0 /\ i % p = p - 1 THEN 10
                             ELSE IF p > 0 /\ i % p = p - 2 THEN 13 ELSE Vis(i))
      [] lay[1] = "at"   -> (IF i = p THEN 10 ELSE Vis(i))
      [] lay[1] = "num"  -> (IF i % p = p - 1 THEN (IF (i \div p) % 2 = 0 THEN 32 ELSE 10)
                             ELSE 49 + ((i + (i \div p)) % 9))

(* upper-case letters, "\n" every 5th byte (phase depends on the tag) *)
WByte(t, j) == IF (j + t) % 5 = 4 THEN 10 ELSE 65 + ((t * 7 + j) % 26)

(* white space and digits as read("*n") (C fscanf "%lf") sees them *)
WS == {9, 10, 11, 12, 13, 32}
IsDigit(b) == 48 <= b /\ b <= 57
(* bytes with which fscanf("%lf") can start a numeral: digit + - . and the
   first letters of nan / inf; and e E p P _, which C rejects without
   consuming but Go's float token (fmt.Fscanf, used by iolib.go) consumes
   before failing - a known divergence in the cursor after a FAILED read("*n")
   (one byte further), not repairable without replacing Fscanf: histories
   whose "*n" fails on one of those bytes are not generated.  Undecided for the
   same reason: Go-only numeral syntax inside a numeral ("1_000", "0x10", "0b1"):
   fscanf reads 1 and stops before "_", Go reads 1000; Legal requires a numeral
   to be digits delimited by white space, so such input is never generated *)
NumStartable(b) == IsDigit(b) \/ b \in {43, 45, 46, 78, 110, 73, 105} \/ b \in {69, 101, 80, 112, 95}

(* a count that is negative or does not fit 32 bits is given by name in the
   field a of "read" (TLC has 32-bit integers): Lua converts the count to
   size_t, so all of them mean "the rest of the file" (nil at end of file) *)
RestCounts == {"-1", "-5", "2^31", "2^40", "1e12"}

(* call forms of seek: "seek0" is f:seek() = seek("cur", 0); "seek1" is
   f:seek(whence) with the offset omitted = seek(whence, 0) *)
NormOp(o) ==
    IF o.op = "seek0" THEN [op |-> "seek", a |-> "cur", n |-> 0]
    ELSE IF o.op = "seek1" THEN [op |-> "seek", a |-> o.a, n |-> 0]
    ELSE o

(* a multi-format read  f:read(fmt1, fmt2, ..)  is the operation "readm" with
   the extra field fs = <<fmt, ..>>, fmt = <<"c", n>> (count) | <<"l", 0>>
   ("*l") | <<"n", 0>> ("*n") | <<"a", 0>> ("*a"); FmtOp is the single read a
   format stands for *)
(* Lua 5.1 looks only at the first character after the "*": "*line" = "*l",
   "*all" = "*a", "*number" = "*n".  The long spelling is a call form: field
   a = "long" of readline / readall / readnum, second component 1 of a format
   (<<"l", 1>>); the meaning is that of the short one.  Likewise a kept lines()
   iterator ignores its arguments (the file is an upvalue): calliter with
   a = "arg" passes another open handle and means the same as calliter. *)
FmtOp(f) ==
    CASE f[1] = "c" -> [op |-> "read", a |-> "", n |-> f[2]]
      [] f[1] = "l" -> [op |-> "readline", a |-> "", n |-> 0]
      [] f[1] = "n" -> [op |-> "readnum", a |-> "", n |-> 0]
      [] f[1] = "a" -> [op |-> "readall", a |-> "", n |-> 0]

(* ---- open modes (Lua 5.1 io.open / ISO C fopen) ------------------------ *)
(* ISO C allows the "b" on either side of the "+": r+b = rb+, w+b = wb+, a+b = ab+ *)
AllModes == {"r", "rb", "w", "wb", "a", "ab", "r+", "rb+", "r+b", "w+", "wb+", "w+b", "a+", "ab+", "a+b"}
(* "tmp" = io.tmpfile(): an update handle on a fresh, empty, anonymous file;            *)
(* "out" = io.output(name): the default output file, opened like "w";                    *)
(* "in"  = io.input(name): the default input file, opened like "r"                       *)
Readable(m)  == m \in {"r", "rb", "r+", "rb+", "r+b", "w+", "wb+", "w+b", "a+", "ab+", "a+b", "tmp", "in"}
Writable(m)  == m \notin {"r", "rb", "in"}
AppendM(m)   == m \in {"a", "ab", "a+", "ab+", "a+b"}
TruncM(m)    == m \in {"w", "wb", "w+", "wb+", "w+b", "tmp", "out"}
MustExist(m) == m \in {"r", "rb", "r+", "rb+", "r+b", "in"}
=============================================================================
