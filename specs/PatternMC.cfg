SPECIFICATION Spec
INVARIANTS LawWellFormed LawRegular LawCaptures LawDrivers
CHECK_DEADLOCK FALSE
