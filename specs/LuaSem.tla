------------------------------- MODULE LuaSem -------------------------------
(***************************************************************************)
(* Source-level small-step reference semantics of core Lua 5.1 + goto      *)
(* (a CEK-style machine over a flat AST).  Properties C01-C06, C08, C11,   *)
(* C12, C17 use it as the oracle for what a program must do.               *)
(*                                                                         *)
(* A program is a flat node table N (sequence of records, N[id].k = kind). *)
(* The machine state is ONE record st:                                     *)
(*   kont   stack of work items (top = last), records with field w         *)
(*   vals   stack of value LISTS (multiple results, adjusted by context)   *)
(*   cells  variable cells (one fresh cell per declaration execution)      *)
(*   heap   objects: tables, closures, coroutines, userdata                *)
(*   out    events produced so far (emit calls)                            *)
(*   seen   objects in order of first appearance in out (identity tokens)  *)
(*   mode   "run" | "done" | "unmod" (outside the model: inconclusive)     *)
(*   res    outcome when done: <<"ok",vals>> | <<"err",v>>                 *)
(*   cur    running coroutine (0 = main), thr: saved threads               *)
(* The deterministic core is the FUNCTION Step(N, st); nondeterministic    *)
(* events (fault injection, cancellation) are separate operators used by   *)
(* the wrappers (LuaSemTrace).                                             *)
(***************************************************************************)
EXTENDS LuaValues, TLC

(* ---- environments ------------------------------------------------------ *)
(* env = sequence of <<name, cell>>; the latest binding wins *)
EnvIdx(env, n) == {i \in 1..Len(env) : env[i][1] = n}
EnvCell(env, n) == LET s == EnvIdx(env, n) IN
                   IF s = {} THEN 0 ELSE env[CHOOSE i \in s : \A j \in s : j <= i][2]

(* ---- tables as association lists (insertion ordered, tombstones kept) --- *)
KeyEq(a, b) == a[1] = b[1] /\ a = b
KvIdx(kv, k) == {i \in 1..Len(kv) : KeyEq(kv[i][1], k)}
TGet(kv, k) == LET s == KvIdx(kv, k) IN IF s = {} THEN Nil ELSE kv[CHOOSE i \in s : TRUE][2]
TSet(kv, k, v) == LET s == KvIdx(kv, k) IN
                  IF s = {} THEN (IF v = Nil THEN kv ELSE Append(kv, <<k, v>>))
                  ELSE [kv EXCEPT ![CHOOSE i \in s : TRUE] = <<k, v>>]
(* the smallest border, and whether it is the only one *)
RECURSIVE BorderFrom(_, _)
BorderFrom(kv, n) == IF TGet(kv, Num(n + 1)) = Nil THEN n ELSE BorderFrom(kv, n + 1)
SmallestBorder(kv) == BorderFrom(kv, 0)
BorderUnique(kv) == LET b == SmallestBorder(kv) IN
                    \A i \in 1..Len(kv) : (kv[i][1][1] = "n" /\ kv[i][2] # Nil) => kv[i][1][2] <= b
(* first live entry after position p, or 0 *)
NextLive(kv, p) == LET s == {i \in (p + 1)..Len(kv) : kv[i][2] # Nil} IN
                   IF s = {} THEN 0 ELSE CHOOSE i \in s : \A j \in s : i <= j

NewTab == [o |-> "tab", kv |-> <<>>, mt |-> 0]

(* ---- state helpers ------------------------------------------------------ *)
PushV(st, vs) == [st EXCEPT !.vals = Append(@, vs)]
SetK(st, k) == [st EXCEPT !.kont = k]
Unmod(st, why) == [st EXCEPT !.mode = "unmod", !.res = <<"unmod", why>>]

EvalItem(e, env, multi) == [w |-> "eval", e |-> e, env |-> env, m |-> multi]
EvListItem(es, env) == [w |-> "evlist", es |-> es, i |-> 0, env |-> env, lm |-> TRUE]
EvListSingle(es, env) == [w |-> "evlist", es |-> es, i |-> 0, env |-> env, lm |-> FALSE]
BlockItem(b, env) == [w |-> "block", b |-> b, i |-> 1, env |-> env, base |-> Len(env), after |-> 0]
CallItem(multi, ln) == [w |-> "call", m |-> multi, ln |-> ln]
(* the call item of a proper tail call: the caller's activation is gone (no calling statement: ln = NoPos); tc counts the
   activations lost so far in this chain, oln is the statement that made the first, ordinary call of the chain *)
TailCallItem(multi, tc, oln) == [w |-> "call", m |-> multi, ln |-> <<0, 0>>, tc |-> tc, oln |-> oln]    \* <<0, 0>> is NoPos

(* Stack levels as debug.getinfo / error count them (lua_getstack): level 1 is the running function, each activation lost to a
   proper tail call is a level of its own ("(tail call)": no function, no line), then comes the function that made the first
   call of the chain, executing the statement oln.  LevelAt(K, lv, cur) = <<"fn", index of the ret marker, current line>>,
   <<"tail">>, <<"host">> (a host function called the level below: its levels are not modelled) or <<"none">>.  *)
RECURSIVE LevelAt(_, _, _)
LevelAt(K, lv, cur) ==
    LET S == {i \in 1..Len(K) : K[i].w = "ret"}
        r == IF S = {} THEN 0 ELSE CHOOSE i \in S : \A j \in S : j <= i IN
    IF r = 0 THEN <<"none">>
    ELSE IF lv = 1 THEN <<"fn", r, cur>>
    ELSE IF lv - 1 <= K[r].tc THEN <<"tail">>
    ELSE IF r = 1 THEN <<"none">>
    ELSE IF K[r].oln = <<0, 0>> THEN <<"host">>
    ELSE LevelAt(SubSeq(K, 1, r - 1), lv - 1 - K[r].tc, K[r].oln)

(* index (from the top) of the nearest item satisfying a predicate *)
NearestIdx(kont, P(_)) == LET s == {i \in 1..Len(kont) : P(kont[i])} IN
                          IF s = {} THEN 0 ELSE CHOOSE i \in s : \A j \in s : j <= i
IsRet(it) == it.w = "ret"
IsPMark(it) == it.w = "pmark" \/ it.w = "xpmark"
IsLoop(it) == it.w \in {"while", "repeat", "fornum", "forin"}
CurRet(st) == st.kont[NearestIdx(st.kont, IsRet)]
CurFenv(st) == st.heap[CurRet(st).fn].fenv

(* metatable of a value: 0 if none *)
MetaOf(st, v) ==
    CASE v[1] = "t" -> st.heap[v[2]].mt
      [] v[1] = "u" -> st.heap[v[2]].mt
      [] v[1] = "s" -> st.smt
      [] OTHER -> 0
MetaField(st, v, name) ==
    LET mt == MetaOf(st, v) IN IF mt = 0 THEN Nil ELSE TGet(st.heap[mt].kv, Str(Bytes(name)))

(* ---- errors --------------------------------------------------------------- *)
(* source positions are pairs <<first line, last line>> of the node's tokens.
   position prefix "c:<line>: " (only used when the node is on one line) *)
NoPos == <<0, 0>>
OneLine(ln) == ln[1] = ln[2]
PosPrefix(ln) == <<99, 58>> \o IntToBytes(ln[1]) \o <<58, 32>>

(* deliver error value v to the nearest protected call *)
Raise(st, v) ==
    LET p == NearestIdx(st.kont, IsPMark) IN
    IF p = 0
    THEN (IF st.cur = 0
          THEN [st EXCEPT !.mode = "done", !.res = <<"err", v>>, !.kont = <<>>]
          ELSE \* uncaught error inside a coroutine: kill it, report to the resumer
               [st EXCEPT !.kont = <<[w |-> "codead", err |-> TRUE]>>, !.vals = <<<<v>>>>])
    ELSE LET pm == st.kont[p] IN
         IF pm.w = "pmark"
         THEN [st EXCEPT !.kont = SubSeq(@, 1, p - 1),
                         !.vals = Append(SubSeq(@, 1, pm.vh), Adjust(<<False, v>>, pm.m))]
         ELSE IF pm.inh
         THEN \* the message handler itself failed: xpcall still returns false; which error value
              \* it reports (5.1: "error in error handling", others: the handler's error) is not judged
              [st EXCEPT !.kont = SubSeq(@, 1, p - 1),
                         !.vals = Append(SubSeq(@, 1, pm.vh), Adjust(<<False, <<"any">>>>, pm.m))]
         ELSE \* xpcall: the handler runs first, on top of the failing continuation
              [st EXCEPT !.kont = Append(Append([@ EXCEPT ![p].inh = TRUE],
                                                [w |-> "unwind", p |-> p]), CallItem(FALSE, NoPos)),
                         !.vals = Append(Append(@, <<pm.h>>), <<v>>)]
Fault(st, ln) == Raise(st, <<"rtmsg", ln[1], ln[2]>>)

(* ---- calls ---------------------------------------------------------------- *)
(* schedule a call of f with args; the result list is pushed on vals later *)
CallValue(st, f, args, multi, ln) ==
    [st EXCEPT !.kont = Append(@, CallItem(multi, ln)),
               !.vals = Append(Append(@, <<f>>), args)]

(* ---- index / newindex with metatables ------------------------------------- *)
(* result of an index operation is pushed as a one-element list *)
RECURSIVE DoIndex(_, _, _, _, _)
DoIndex(st, o, k, ln, fuel) ==
    IF fuel = 0 THEN Fault(st, ln)
    ELSE IF IsOpaqueStr(o) \/ IsOpaqueStr(k) THEN Unmod(st, "index with fault text")
    ELSE IF o[1] = "t"
    THEN LET v == TGet(st.heap[o[2]].kv, k)
             h == IF v = Nil THEN MetaField(st, o, "__index") ELSE Nil
         IN IF h = Nil THEN PushV(st, <<v>>)
            ELSE IF IsFn(h) THEN CallValue(st, h, <<o, k>>, FALSE, ln)
            ELSE DoIndex(st, h, k, ln, fuel - 1)
    ELSE LET h == MetaField(st, o, "__index") IN
         IF h = Nil THEN Fault(st, ln)
         ELSE IF IsFn(h) THEN CallValue(st, h, <<o, k>>, FALSE, ln)
         ELSE DoIndex(st, h, k, ln, fuel - 1)

BadKey(k) == k[1] = "nil"

RawSetTab(st, ref, k, v) == [st EXCEPT !.heap[ref].kv = TSet(@, k, v)]

(* a store t[k] = v; nothing is pushed (a __newindex call result is dropped) *)
RECURSIVE DoNewIndex(_, _, _, _, _, _)
DoNewIndex(st, o, k, v, ln, fuel) ==
    IF fuel = 0 THEN Fault(st, ln)
    ELSE IF o[1] = "t"
    THEN LET old == TGet(st.heap[o[2]].kv, k)
             h == IF old = Nil THEN MetaField(st, o, "__newindex") ELSE Nil
         IN IF h = Nil THEN (IF BadKey(k) THEN Fault(st, ln) ELSE RawSetTab(st, o[2], k, v))
            ELSE IF IsFn(h)
                 THEN LET s1 == CallValue(st, h, <<o, k, v>>, FALSE, ln)
                      IN [s1 EXCEPT !.kont = Append(Append(Pop(@), [w |-> "drop"]), Top(@))]
            ELSE DoNewIndex(st, h, k, v, ln, fuel - 1)
    ELSE LET h == MetaField(st, o, "__newindex") IN
         IF h = Nil THEN Fault(st, ln)
         ELSE IF IsFn(h)
              THEN LET s1 == CallValue(st, h, <<o, k, v>>, FALSE, ln)
                   IN [s1 EXCEPT !.kont = Append(Append(Pop(@), [w |-> "drop"]), Top(@))]
         ELSE DoNewIndex(st, h, k, v, ln, fuel - 1)

(* ---- operators -------------------------------------------------------------- *)
ArithEvent(op) ==
    CASE op = "+" -> "__add" [] op = "-" -> "__sub" [] op = "*" -> "__mul"
      [] op = "/" -> "__div" [] op = "%" -> "__mod" [] op = "^" -> "__pow"

(* binary metamethod: left operand's handler, then right's *)
BinHandler(st, a, b, ev) ==
    LET h1 == MetaField(st, a, ev) IN IF h1 # Nil THEN h1 ELSE MetaField(st, b, ev)

DoArith(st, op, a, b, ln) ==
    LET x == ToNum(a)  y == ToNum(b) IN
    IF x[1] = "n" /\ y[1] = "n"
    THEN LET r == Arith(op, x[2], y[2]) IN
         IF r[1] = "un" THEN Unmod(st, "arith") ELSE PushV(st, <<r>>)
    ELSE IF (x[1] = "un" /\ y[1] # "no") \/ (y[1] = "un" /\ x[1] # "no") THEN Unmod(st, "numeral")
    ELSE LET h == BinHandler(st, a, b, ArithEvent(op)) IN
         IF h = Nil THEN (IF x[1] = "un" \/ y[1] = "un" THEN Unmod(st, "numeral") ELSE Fault(st, ln))
         ELSE CallValue(st, h, <<a, b>>, FALSE, ln)

DoConcat(st, a, b, ln) ==
    LET x == ToStr(a)  y == ToStr(b) IN
    IF x[1] = "s" /\ y[1] = "s"
    THEN (IF Len(x[2]) + Len(y[2]) > 4000 THEN Unmod(st, "string too long")      \* a program doubling a string in nested loops: outside the model
          ELSE PushV(st, <<Str(x[2] \o y[2])>>))
    ELSE IF x[1] = "un" \/ y[1] = "un" THEN Unmod(st, "concat of fault text")
    ELSE LET h == BinHandler(st, a, b, "__concat") IN
         IF h = Nil THEN Fault(st, ln) ELSE CallValue(st, h, <<a, b>>, FALSE, ln)

(* comparison handler: both operands must give the same handler (5.1 rule) *)
CompHandler(st, a, b, ev) ==
    LET h1 == MetaField(st, a, ev)  h2 == MetaField(st, b, ev) IN
    IF h1 = Nil THEN Nil ELSE IF h1[1] = h2[1] /\ h1 = h2 THEN h1 ELSE Nil

PushBool(st, x) == PushV(st, <<Bool(x)>>)
(* call a comparison handler; its result is converted to a boolean (negated if neg) *)
CallComp(st, h, a, b, neg, ln) ==
    LET s1 == CallValue(st, h, <<a, b>>, FALSE, ln) IN
    [s1 EXCEPT !.kont = Append(Append(Pop(@), [w |-> "tobool", neg |-> neg]), Top(@))]

DoEq(st, a, b, neg, ln) ==
    IF IsOpaqueStr(a) \/ IsOpaqueStr(b) THEN Unmod(st, "compare fault text")
    ELSE IF a[1] # b[1] THEN PushBool(st, neg)
    ELSE IF a = b THEN PushBool(st, ~neg)
    ELSE IF a[1] \in {"t", "u"}
         THEN LET h == CompHandler(st, a, b, "__eq") IN
              IF h = Nil THEN PushBool(st, neg) ELSE CallComp(st, h, a, b, neg, ln)
    ELSE PushBool(st, neg)

DoLt(st, a, b, ln) ==
    IF a[1] = "n" /\ b[1] = "n" THEN PushBool(st, a[2] < b[2])
    ELSE IF a[1] = "s" /\ b[1] = "s" THEN PushBool(st, BytesLess(a[2], b[2], 1))
    ELSE IF IsOpaqueStr(a) \/ IsOpaqueStr(b) THEN Unmod(st, "compare fault text")
    ELSE IF TypeName(a) # TypeName(b) THEN Fault(st, ln)      \* luaV_lessthan: different types are an order error
    ELSE LET h == CompHandler(st, a, b, "__lt") IN
         IF h = Nil THEN Fault(st, ln) ELSE CallComp(st, h, a, b, FALSE, ln)

DoLe(st, a, b, ln) ==
    IF a[1] = "n" /\ b[1] = "n" THEN PushBool(st, a[2] <= b[2])
    ELSE IF a[1] = "s" /\ b[1] = "s" THEN PushBool(st, ~BytesLess(b[2], a[2], 1))
    ELSE IF IsOpaqueStr(a) \/ IsOpaqueStr(b) THEN Unmod(st, "compare fault text")
    ELSE IF TypeName(a) # TypeName(b) THEN Fault(st, ln)
    ELSE LET h == CompHandler(st, a, b, "__le") IN
         IF h # Nil THEN CallComp(st, h, a, b, FALSE, ln)
         ELSE LET h2 == CompHandler(st, b, a, "__lt") IN     \* a <= b  ==  not (b < a)
              IF h2 = Nil THEN Fault(st, ln) ELSE CallComp(st, h2, b, a, TRUE, ln)

DoBin(st, op, a, b, ln) ==
    CASE op \in {"+", "-", "*", "/", "%", "^"} -> DoArith(st, op, a, b, ln)
      [] op = ".." -> DoConcat(st, a, b, ln)
      [] op = "==" -> DoEq(st, a, b, FALSE, ln)
      [] op = "~=" -> DoEq(st, a, b, TRUE, ln)
      [] op = "<" -> DoLt(st, a, b, ln)
      [] op = "<=" -> DoLe(st, a, b, ln)
      [] op = ">" -> DoLt(st, b, a, ln)
      [] op = ">=" -> DoLe(st, b, a, ln)

DoUn(st, op, a, ln) ==
    CASE op = "not" -> PushBool(st, ~Truthy(a))
      [] op = "-" ->
           (LET x == ToNum(a) IN
            IF x[1] = "n" THEN PushV(st, <<Num(0 - x[2])>>)
            ELSE IF x[1] = "un" THEN Unmod(st, "numeral")
            ELSE LET h == MetaField(st, a, "__unm") IN
                 IF h = Nil THEN Fault(st, ln) ELSE CallValue(st, h, <<a, a>>, FALSE, ln))   \* 5.1 hands every arithmetic handler two operands
      [] op = "#" ->
           (IF a[1] = "s" THEN PushV(st, <<Num(Len(a[2]))>>)
            ELSE IF IsOpaqueStr(a) THEN Unmod(st, "length of fault text")
            ELSE IF a[1] = "t"
                 THEN (IF BorderUnique(st.heap[a[2]].kv)
                       THEN PushV(st, <<Num(SmallestBorder(st.heap[a[2]].kv))>>)
                       ELSE Unmod(st, "border choice"))
            ELSE Fault(st, ln))

(* ---- allocation ------------------------------------------------------------- *)
AllocCells(st, vs) == [st EXCEPT !.cells = @ \o vs]      \* new cells are Len(old)+1 ..
AllocObj(st, obj) == [st EXCEPT !.heap = Append(@, obj)] \* new ref is Len(old heap)+1

(* bind names to fresh cells holding vs (adjusted); returns <<st', env'>> *)
Bind(st, env, names, vs) ==
    LET n == Len(names)
        base == Len(st.cells)
    IN <<AllocCells(st, AdjustN(vs, n)), env \o [i \in 1..n |-> <<names[i], base + i>>]>>

(* the call-depth limit (C05/C12): the host announces a limit with glimit(n); a Lua function is not entered while n
   activations exist in the running thread.  The limit is abstract (the real one counts host frames too), so only
   programs that recurse without bound are generated with it: any limit gives them the same trace.  Lua 5.1 keeps
   spare frames for error handling (luaD_growCI), so a message handler that is running is not subject to the limit *)
DepthExceeded(st, K) ==
    /\ st.dl > 0
    /\ Cardinality({i \in 1..Len(K) : K[i].w = "ret"}) >= st.dl
    /\ ~\E i \in 1..Len(K) : K[i].w = "xpmark" /\ K[i].inh

(* ---- function entry ----------------------------------------------------------- *)
EnterClosure(N, st, fref, args, multi, ln, tc, oln) ==
    LET c == st.heap[fref]
        fn == N[c.node]
        np == Len(fn.ps)
        b1 == Bind(st, c.env, fn.ps, args)
        extra == IF Len(args) > np THEN SubSeq(args, np + 1, Len(args)) ELSE <<>>
        needarg == fn.va /\ ~fn.ud        \* 5.1 compatibility: `arg` table
        s2 == IF needarg
              THEN LET tref == Len(b1[1].heap) + 1
                       kv0 == [i \in 1..Len(extra) |-> <<Num(i), extra[i]>>] \o <<<<Str(<<110>>), Num(Len(extra))>>>>
                       s3 == AllocObj(b1[1], [o |-> "tab", kv |-> kv0, mt |-> 0])
                   IN Bind(s3, b1[2], <<"arg">>, <<<<"t", tref>>>>)
              ELSE b1
        marker == [w |-> "ret", m |-> multi, va |-> IF fn.va THEN extra ELSE <<>>, vh |-> Len(st.vals),
                   ln |-> ln, fn |-> fref, base |-> Len(c.env), tc |-> tc, oln |-> oln]
    IN [s2[1] EXCEPT !.kont = Append(Append(@, marker), BlockItem(fn.b, s2[2]))]

(* ---- statements ----------------------------------------------------------------- *)
IsCallNode(N, e) == N[e].k = "call" \/ N[e].k = "method"

ExecStmt(N, st, s, env) ==
    LET nd == N[s]   K == st.kont IN
    CASE nd.k = "local" ->
           [st EXCEPT !.kont = Append(Append(K, [w |-> "bindlocal", ns |-> nd.ns]), EvListItem(nd.es, env))]
      [] nd.k = "localfunction" ->
           (LET b == Bind(st, env, <<nd.n>>, <<Nil>>)
                cell == Len(st.cells) + 1
                fref == Len(st.heap) + 1
                s1 == AllocObj(b[1], [o |-> "fn", node |-> nd.f, env |-> b[2], fenv |-> CurFenv(st)])
                blk == Len(K)
            IN [s1 EXCEPT !.cells[cell] = <<"f", fref>>, !.kont[blk].env = b[2]])
      [] nd.k = "assign" ->
           [st EXCEPT !.kont = Append(Append(Append(K, [w |-> "asgstore", ts |-> nd.ts, env |-> env]),
                                             EvListItem(nd.es, env)),
                                      [w |-> "asgprep", ts |-> nd.ts, i |-> 1, env |-> env])]
      [] nd.k = "callstat" ->
           [st EXCEPT !.kont = Append(Append(K, [w |-> "drop"]), EvalItem(nd.e, env, TRUE))]
      [] nd.k = "do" -> [st EXCEPT !.kont = Append(K, BlockItem(nd.b, env))]
      [] nd.k = "while" -> [st EXCEPT !.kont = Append(K, [w |-> "while", s |-> s, env |-> env])]
      [] nd.k = "repeat" -> [st EXCEPT !.kont = Append(K, [w |-> "repeat", s |-> s, env |-> env])]
      [] nd.k = "if" ->
           [st EXCEPT !.kont = Append(Append(K, [w |-> "iftest", s |-> s, i |-> 1, env |-> env]),
                                      EvalItem(nd.cs[1], env, FALSE))]
      [] nd.k = "fornum" ->
           [st EXCEPT !.kont = Append(Append(K, [w |-> "forprep", s |-> s, env |-> env]),
                                      EvListSingle(IF nd.e3 = 0 THEN <<nd.e1, nd.e2>> ELSE <<nd.e1, nd.e2, nd.e3>>, env))]
      [] nd.k = "forin" ->
           [st EXCEPT !.kont = Append(Append(K, [w |-> "forinprep", s |-> s, env |-> env]), EvListItem(nd.es, env))]
      [] nd.k = "return" ->
           (IF Len(nd.es) = 1 /\ IsCallNode(N, nd.es[1])
            THEN [st EXCEPT !.kont = Append(K, [w |-> "eval", e |-> nd.es[1], env |-> env, m |-> TRUE, tail |-> TRUE])]
            ELSE [st EXCEPT !.kont = Append(Append(K, [w |-> "doreturn"]), EvListItem(nd.es, env))])
      [] nd.k = "break" ->
           (LET p == NearestIdx(K, IsLoop) IN [st EXCEPT !.kont = SubSeq(K, 1, p - 1)])
      [] nd.k = "goto" ->
           (LET HasLab(it) == it.w = "block" /\ \E j \in 1..Len(N[it.b].lb) : N[it.b].lb[j][1] = nd.lab
                r == NearestIdx(K, IsRet)
                cands == {i \in (r + 1)..Len(K) : HasLab(K[i])}
                p == CHOOSE i \in cands : \A j \in cands : j <= i
                blk == K[p]
                lbs == N[blk.b].lb
                li == (CHOOSE j \in 1..Len(lbs) : lbs[j][1] = nd.lab)
                pos == lbs[li][2]            \* statement index of the label
                ndecl == lbs[li][3]          \* locals declared in the block before the label
                keep == IF blk.base + ndecl < Len(blk.env) THEN blk.base + ndecl ELSE Len(blk.env)
            IN [st EXCEPT !.kont = Append(SubSeq(K, 1, p - 1),
                                          [blk EXCEPT !.i = pos + 1, !.env = SubSeq(blk.env, 1, keep)])])
      [] nd.k = "label" -> st

(* ---- expression evaluation ---------------------------------------------------------- *)
EvalExpr(N, st, it) ==
    LET e == it.e   nd == N[e]   env == it.env   K == st.kont
        ln == nd.ln IN
    CASE nd.k = "nil" -> PushV(st, <<Nil>>)
      [] nd.k = "true" -> PushV(st, <<True>>)
      [] nd.k = "false" -> PushV(st, <<False>>)
      [] nd.k = "num" -> PushV(st, <<Num(nd.v)>>)
      [] nd.k = "str" -> PushV(st, <<Str(nd.s)>>)
      [] nd.k = "dots" -> PushV(st, Adjust(CurRet(st).va, it.m))
      [] nd.k = "id" ->
           (LET c == EnvCell(env, nd.n) IN
            IF c # 0 THEN PushV(st, <<st.cells[c]>>)
            ELSE DoIndex(st, <<"t", CurFenv(st)>>, Str(nd.nb), ln, 100))
      [] nd.k = "index" ->
           [st EXCEPT !.kont = Append(Append(Append(K, [w |-> "index", ln |-> ln]),
                                             EvalItem(nd.i, env, FALSE)), EvalItem(nd.o, env, FALSE))]
      [] nd.k = "call" ->
           (LET ci == IF "tail" \in DOMAIN it THEN [w |-> "tailcall", ln |-> ln] ELSE CallItem(it.m, ln) IN
            [st EXCEPT !.kont = Append(Append(Append(K, ci), EvListItem(nd.as, env)), EvalItem(nd.f, env, FALSE))])
      [] nd.k = "method" ->
           (LET ci == IF "tail" \in DOMAIN it THEN [w |-> "tailcall", ln |-> ln] ELSE CallItem(it.m, ln) IN
            [st EXCEPT !.kont = Append(Append(Append(Append(K, ci), [w |-> "evlist", es |-> nd.as, i |-> 1, env |-> env, lm |-> TRUE]),
                                              [w |-> "self", nb |-> nd.nb, ln |-> ln]), EvalItem(nd.o, env, FALSE))])
      [] nd.k = "func" ->
           (LET fref == Len(st.heap) + 1 IN
            PushV(AllocObj(st, [o |-> "fn", node |-> e, env |-> env, fenv |-> CurFenv(st)]), <<<<"f", fref>>>>))
      [] nd.k = "bin" ->
           [st EXCEPT !.kont = Append(Append(Append(K, [w |-> "bin", op |-> nd.op, ln |-> ln]),
                                             EvalItem(nd.r, env, FALSE)), EvalItem(nd.l, env, FALSE))]
      [] nd.k \in {"and", "or"} ->
           [st EXCEPT !.kont = Append(Append(K, [w |-> "andor", op |-> nd.k, r |-> nd.r, env |-> env]),
                                      EvalItem(nd.l, env, FALSE))]
      [] nd.k = "un" ->
           [st EXCEPT !.kont = Append(Append(K, [w |-> "un", op |-> nd.op, ln |-> ln]), EvalItem(nd.e, env, FALSE))]
      [] nd.k = "paren" -> [st EXCEPT !.kont = Append(K, EvalItem(nd.e, env, FALSE))]
      [] nd.k = "table" ->
           (LET tref == Len(st.heap) + 1 IN
            [AllocObj(st, NewTab) EXCEPT !.vals = Append(@, <<<<"t", tref>>>>),
                                         !.kont = Append(K, [w |-> "tabc", e |-> e, i |-> 1, n |-> 1, env |-> env])])
(* ---- emit: tokens with first-appearance identity ------------------------------------- *)
IsPrim(v) == v[1] \in {"nil", "b", "n", "s"} \/ IsOpaqueStr(v)
SeenIdx(seen, v) == {j \in 1..Len(seen) : seen[j][1] = v[1] /\ seen[j] = v}
RECURSIVE TokList(_, _, _, _)
TokList(vs, i, toks, seen) ==
    IF i > Len(vs) THEN <<toks, seen>>
    ELSE LET v == vs[i] IN
         IF IsPrim(v) THEN TokList(vs, i + 1, Append(toks, v), seen)
         ELSE LET s == SeenIdx(seen, v) IN
              IF s = {} THEN TokList(vs, i + 1, Append(toks, <<"o", TypeName(v), Len(seen) + 1>>), Append(seen, v))
              ELSE TokList(vs, i + 1, Append(toks, <<"o", TypeName(v), CHOOSE j \in s : TRUE>>), seen)

Emit(st, vs) == LET r == TokList(vs, 1, <<>>, st.seen) IN
                [st EXCEPT !.out = Append(@, r[1]), !.seen = r[2]]

(* ---- coroutines ------------------------------------------------------------------------- *)
(* save the running thread's continuation (with item `wait` on top) and status *)
SaveCur(st, wait, status) ==
    IF st.cur = 0 THEN [st EXCEPT !.mainK = Append(st.kont, wait), !.mainV = st.vals]
    ELSE [st EXCEPT !.heap[st.cur].kont = Append(st.kont, wait), !.heap[st.cur].vals = st.vals,
                    !.heap[st.cur].status = status]

(* switch to thread t (0 = main) and deliver vs to its pending wait item *)
SwitchTo(st, t, vs, iserr) ==
    LET k == IF t = 0 THEN st.mainK ELSE st.heap[t].kont
        v == IF t = 0 THEN st.mainV ELSE st.heap[t].vals
        wt == Top(k)
        s1 == [st EXCEPT !.cur = t, !.kont = Pop(k), !.vals = v]
        s2 == IF t = 0 THEN s1 ELSE [s1 EXCEPT !.heap[t].status = "running"]
    IN IF wt.w = "resumewait"
       THEN (IF wt.wrap
             THEN (IF iserr THEN Raise(s2, vs[1]) ELSE PushV(s2, Adjust(vs, wt.m)))
             ELSE PushV(s2, Adjust(<<Bool(~iserr)>> \o vs, wt.m)))
       ELSE PushV(s2, Adjust(vs, wt.m))          \* yieldwait

DoResume(st, co, args, multi, wrap, ln) ==
    LET c == st.heap[co] IN
    IF c.status # "suspended"
    THEN (IF wrap THEN Raise(st, <<"anystr">>) ELSE PushV(st, Adjust(<<False, <<"anystr">>>>, multi)))
    ELSE LET s1 == SaveCur(st, [w |-> "resumewait", m |-> multi, wrap |-> wrap], "normal")
             s2 == [s1 EXCEPT !.heap[co].resumer = st.cur, !.heap[co].status = "running", !.cur = co]
         IN IF c.started
            THEN LET wt == Top(c.kont) IN
                 [s2 EXCEPT !.kont = Pop(c.kont), !.vals = Append(c.vals, Adjust(args, wt.m))]
            ELSE [s2 EXCEPT !.heap[co].started = TRUE,
                            !.kont = <<[w |-> "codead"], CallItem(TRUE, NoPos)>>,
                            !.vals = <<<<c.fn>>, args>>]

DoYield(st, vs, multi, ln) ==
    IF st.cur = 0 THEN Fault(st, ln)
    \* Lua 5.1: a yield cannot cross a protected call made by the host function pcall/xpcall (nor any other host
    \* call): "attempt to yield across metamethod/C-call boundary", raised at the yield call
    ELSE IF NearestIdx(st.kont, IsPMark) # 0 THEN Fault(st, ln)
    ELSE LET r == st.heap[st.cur].resumer
             s1 == SaveCur(st, [w |-> "yieldwait", m |-> multi], "suspended")
         IN SwitchTo(s1, r, vs, FALSE)

(* the body returned (vals top = results) or died with an error (Raise put <<v>>) *)
CoFinish(st, iserr) ==
    LET me == st.cur
        r == st.heap[me].resumer
        vs == Top(st.vals)
        s1 == [st EXCEPT !.heap[me].status = "dead", !.heap[me].kont = <<>>, !.heap[me].vals = <<>>]
    IN SwitchTo(s1, r, vs, iserr)

(* ---- builtins ------------------------------------------------------------------------------ *)
RetV(st, rs, multi) == PushV(st, Adjust(rs, multi))

ToStringPrim(v) ==
    CASE v[1] = "nil" -> Str(Bytes("nil"))
      [] v[1] = "b" -> Str(Bytes(IF v[2] THEN "true" ELSE "false"))
      [] v[1] = "n" -> Str(IntToBytes(v[2]))
      [] v[1] = "s" -> v
      [] OTHER -> v          \* rtmsg / anystr stay opaque strings

Builtin(N, st, name, a, multi, ln) ==
    LET n == Len(a)  a1 == NthOrNil(a, 1)  a2 == NthOrNil(a, 2)  a3 == NthOrNil(a, 3) IN
    CASE name = "emit" -> RetV(Emit(st, a), <<>>, multi)
      [] name = "type" -> (IF n = 0 THEN Fault(st, ln) ELSE RetV(st, <<Str(Bytes(TypeName(a1)))>>, multi))
      [] name = "tostring" ->
           (IF n = 0 THEN Fault(st, ln)
            ELSE LET h == MetaField(st, a1, "__tostring") IN
                 IF h # Nil THEN CallValue(st, h, <<a1>>, FALSE, ln)
                 ELSE IF IsPrim(a1) THEN RetV(st, <<ToStringPrim(a1)>>, multi)
                 ELSE Unmod(st, "tostring of object"))
      [] name = "tonumber" ->
           (IF n = 0 THEN Fault(st, ln)
            ELSE IF n >= 2 /\ a2 # Nil /\ a2 # Num(10) THEN Unmod(st, "tonumber base")
            ELSE IF a1[1] = "n" THEN RetV(st, <<a1>>, multi)
            ELSE IF a1[1] = "s"
                 THEN (LET r == StrToNum(a1[2]) IN
                       IF r[1] = "n" THEN RetV(st, <<r>>, multi)
                       ELSE IF r[1] = "no" THEN RetV(st, <<Nil>>, multi) ELSE Unmod(st, "numeral"))
            ELSE IF IsOpaqueStr(a1) THEN Unmod(st, "tonumber of fault text")
            ELSE RetV(st, <<Nil>>, multi))
      [] name = "select" ->
           (IF a1 = Str(<<35>>) THEN RetV(st, <<Num(n - 1)>>, multi)
            ELSE IF a1[1] # "n" THEN (IF a1[1] = "s" THEN Unmod(st, "select string index") ELSE Fault(st, ln))
            ELSE LET i == a1[2]  cnt == n - 1
                     idx == IF i < 0 THEN cnt + 1 + i ELSE i IN
                 IF idx < 1 THEN Fault(st, ln)
                 ELSE IF idx > cnt THEN RetV(st, <<>>, multi)
                 ELSE RetV(st, SubSeq(a, idx + 1, n), multi))
      [] name = "unpack" ->
           (IF a1[1] # "t" THEN Fault(st, ln)
            ELSE LET kv == st.heap[a1[2]].kv
                     i == IF a2 = Nil THEN Num(1) ELSE ToNum(a2)
                     j == IF a3 = Nil THEN (IF BorderUnique(kv) THEN Num(SmallestBorder(kv)) ELSE <<"un">>) ELSE ToNum(a3)
                 IN IF i[1] = "no" \/ j[1] = "no" THEN Fault(st, ln)
                    ELSE IF i[1] = "un" \/ j[1] = "un" THEN Unmod(st, "unpack range")
                    ELSE IF j[2] - i[2] >= 200 THEN Unmod(st, "unpack too many")
                    ELSE RetV(st, [x \in 1..(IF j[2] >= i[2] THEN j[2] - i[2] + 1 ELSE 0) |-> TGet(kv, Num(i[2] + x - 1))], multi))
      [] name = "rawget" -> (IF a1[1] # "t" \/ n < 2 THEN Fault(st, ln) ELSE RetV(st, <<TGet(st.heap[a1[2]].kv, a2)>>, multi))
      [] name = "rawset" -> (IF a1[1] # "t" \/ n < 3 \/ BadKey(a2) THEN Fault(st, ln)
                             ELSE RetV(RawSetTab(st, a1[2], a2, a3), <<a1>>, multi))
      [] name = "rawequal" -> (IF n < 2 THEN Fault(st, ln)
                               ELSE IF IsOpaqueStr(a1) \/ IsOpaqueStr(a2) THEN Unmod(st, "compare fault text")
                               ELSE RetV(st, <<Bool(RawEq(a1, a2))>>, multi))
      [] name = "next" ->
           (IF a1[1] # "t" THEN Fault(st, ln)
            ELSE LET kv == st.heap[a1[2]].kv
                     p == IF a2 = Nil THEN {0} ELSE KvIdx(kv, a2) IN
                 IF p = {} THEN Fault(st, ln)
                 ELSE LET q == NextLive(kv, CHOOSE x \in p : TRUE) IN
                      IF q = 0 THEN RetV(st, <<Nil>>, multi) ELSE RetV(st, <<kv[q][1], kv[q][2]>>, multi))
      [] name = "pairs" -> (IF a1[1] # "t" THEN Fault(st, ln) ELSE RetV(st, <<<<"bi", "next">>, a1, Nil>>, multi))
      [] name = "ipairs" -> (IF a1[1] # "t" THEN Fault(st, ln) ELSE RetV(st, <<<<"bi", "ipairsaux">>, a1, Num(0)>>, multi))
      [] name = "ipairsaux" ->
           (IF a1[1] # "t" \/ a2[1] # "n" THEN Fault(st, ln)
            ELSE LET v == TGet(st.heap[a1[2]].kv, Num(a2[2] + 1)) IN
                 IF v = Nil THEN RetV(st, <<Nil>>, multi) ELSE RetV(st, <<Num(a2[2] + 1), v>>, multi))
      [] name = "setmetatable" ->
           (IF n >= 2 /\ a2[1] \in {"nil", "t"} /\ ~(a1[1] \in {"t", "nil"}) THEN Unmod(st, "setmetatable on a non-table (gopher-lua extension)")
            ELSE IF a1[1] # "t" \/ n < 2 \/ ~(a2[1] \in {"nil", "t"}) THEN Fault(st, ln)
            ELSE IF MetaField(st, a1, "__metatable") # Nil THEN Fault(st, ln)
            ELSE RetV([st EXCEPT !.heap[a1[2]].mt = IF a2 = Nil THEN 0 ELSE a2[2]], <<a1>>, multi))
      [] name = "getmetatable" ->
           (IF n = 0 THEN Fault(st, ln)
            ELSE LET mt == MetaOf(st, a1) IN
                 IF mt = 0 THEN RetV(st, <<Nil>>, multi)
                 ELSE LET p == MetaField(st, a1, "__metatable") IN
                      IF p # Nil THEN RetV(st, <<p>>, multi) ELSE RetV(st, <<<<"t", mt>>>>, multi))
      [] name = "pcall" ->
           (IF n = 0 THEN Fault(st, ln)
            ELSE CallValue([st EXCEPT !.kont = Append(@, [w |-> "pmark", m |-> multi, vh |-> Len(st.vals)])],
                           a1, SubSeq(a, 2, n), TRUE, NoPos))
      [] name = "xpcall" ->
           (IF n < 2 THEN Fault(st, ln)
            ELSE CallValue([st EXCEPT !.kont = Append(@, [w |-> "xpmark", m |-> multi, vh |-> Len(st.vals), h |-> a2, inh |-> FALSE])],
                           a1, <<>>, TRUE, NoPos))
      [] name = "error" ->
           (IF n = 0 THEN Fault(st, ln)
            ELSE LET lv == IF a2 = Nil THEN Num(1) ELSE a2 IN
                 IF a1[1] = "s" /\ lv[1] = "n" /\ lv[2] > 0
                 THEN (IF ln = NoPos THEN Raise(st, <<"sfx", a1[2]>>)     \* error called by host code (pcall(error, msg)): position not judged
                       ELSE IF ~OneLine(ln) THEN Unmod(st, "error() call spans lines")
                       ELSE IF lv[2] = 1 THEN Raise(st, Str(PosPrefix(ln) \o a1[2]))
                       ELSE IF lv[2] <= 8
                       THEN (LET at == LevelAt(st.kont, lv[2], ln) IN
                             IF at[1] = "fn" THEN (IF ~OneLine(at[3]) THEN Unmod(st, "error level 2 from host-called function")
                                                   ELSE Raise(st, Str(PosPrefix(at[3]) \o a1[2])))
                             ELSE IF at[1] = "tail" THEN Unmod(st, "error level on a tail-call level")
                             ELSE IF at[1] = "host" THEN Unmod(st, "error level 2 from host-called function")
                             ELSE Raise(st, a1))                          \* no activation at that level: luaL_where gives "", the message is raised as it is
                       ELSE Unmod(st, "error level > 8"))
                 ELSE IF IsOpaqueStr(a1) /\ lv[1] = "n" /\ lv[2] > 0 THEN Unmod(st, "rethrow of fault text with position")
                 ELSE Raise(st, a1))
      [] name = "assert" ->
           (IF n = 0 THEN Fault(st, ln)
            ELSE IF Truthy(a1) THEN RetV(st, a, multi)
            ELSE IF a2[1] = "s" /\ OneLine(ln) THEN Raise(st, Str(PosPrefix(ln) \o a2[2]))
            ELSE Fault(st, ln))
      [] name = "getfenv" ->
           (IF a1[1] = "f" THEN RetV(st, <<<<"t", st.heap[a1[2]].fenv>>>>, multi)
            ELSE IF a1[1] = "bi" THEN RetV(st, <<<<"t", st.G>>>>, multi)
            ELSE IF n = 0 \/ a1 = Num(1) THEN RetV(st, <<<<"t", CurFenv(st)>>>>, multi)
            ELSE IF a1 = Num(0) THEN RetV(st, <<<<"t", st.G>>>>, multi)
            ELSE Unmod(st, "getfenv level"))
      [] name = "setfenv" ->
           (IF a2[1] # "t" THEN Fault(st, ln)
            ELSE IF a1[1] = "f" THEN RetV([st EXCEPT !.heap[a1[2]].fenv = a2[2]], <<a1>>, multi)
            ELSE IF a1 = Num(1) THEN RetV([st EXCEPT !.heap[CurRet(st).fn].fenv = a2[2]], <<<<"f", CurRet(st).fn>>>>, multi)
            ELSE IF a1[1] = "bi" THEN Fault(st, ln)
            ELSE Unmod(st, "setfenv level"))
      [] name = "newproxy" ->
           (LET uref == Len(st.heap) + 1 IN
            IF a1 = True
            THEN RetV(AllocObj(AllocObj(st, [o |-> "ud", mt |-> uref + 1]), NewTab), <<<<"u", uref>>>>, multi)
            ELSE IF a1[1] = "u"
            THEN RetV(AllocObj(st, [o |-> "ud", mt |-> st.heap[a1[2]].mt]), <<<<"u", uref>>>>, multi)
            ELSE IF n = 0 \/ a1 = False \/ a1 = Nil
            THEN RetV(AllocObj(st, [o |-> "ud", mt |-> 0]), <<<<"u", uref>>>>, multi)
            ELSE Fault(st, ln))
      [] name = "gret" ->      \* host function: returns exactly a1 values taken from the rest (nil-padded)
           (IF a1[1] # "n" \/ a1[2] < 0 \/ a1[2] > 50 THEN Unmod(st, "gret count") ELSE RetV(st, AdjustN(SubSeq(a, 2, n), a1[2]), multi))
      [] name = "gcall" ->     \* host function re-entering Lua: calls a1 with the rest, returns all results
           (IF n = 0 THEN Fault(st, ln) ELSE CallValue(st, a1, SubSeq(a, 2, n), multi, NoPos))
      [] name = "gerr" ->      \* host function failing with RaiseError: like error(msg, 1)
           (IF a1[1] # "s" THEN Fault(st, ln) ELSE IF ~OneLine(ln) THEN Unmod(st, "gerr call spans lines")
            ELSE Raise(st, Str(PosPrefix(ln) \o a1[2])))
      [] name = "gpanic" ->    \* Go panic inside a host function: reaches pcall as the panic text
           (IF a1[1] # "s" THEN Fault(st, ln) ELSE Raise(st, a1))
      [] name = "snap" -> RetV(st, <<>>, multi)      \* harness snapshot: no effect on the semantics
      [] name = "gcancel" -> RetV(st, <<>>, multi)   \* the host cancels the context: the uncancelled semantics just goes on
      [] name = "glimit" -> (IF a1[1] = "n" THEN RetV([st EXCEPT !.dl = a1[2]], <<>>, multi) ELSE Fault(st, ln))   \* the host's call-depth limit, see DepthExceeded
      [] name = "gswap" -> RetV(st, <<>>, multi)     \* the host replaces the attached context: no effect on the semantics
      [] name = "dbg.getinfo" ->
           (* fields judged by C17: currentline, linedefined, lastlinedefined *)
           (LET MkInfo(cur, fnref) ==
                    LET nd == IF st.heap[fnref].node = 0 THEN [ln |-> <<0, 0>>] ELSE N[st.heap[fnref].node]
                        tref == Len(st.heap) + 1
                        kv0 == <<<<Str(Bytes("currentline")), Num(cur)>>, <<Str(Bytes("linedefined")), Num(nd.ln[1])>>,
                                 <<Str(Bytes("lastlinedefined")), Num(nd.ln[2])>>, <<Str(Bytes("func")), <<"f", fnref>>>>>>
                    IN RetV(AllocObj(st, [o |-> "tab", kv |-> kv0, mt |-> 0]), <<<<"t", tref>>>>, multi)
                r1 == NearestIdx(st.kont, IsRet) IN
            IF a1[1] = "f" THEN MkInfo(-1, a1[2])
            ELSE IF a1[1] # "n" THEN Unmod(st, "getinfo of host function")
            ELSE IF a1[2] = 1 THEN (IF ~OneLine(ln) \/ ln = NoPos THEN Unmod(st, "getinfo call spans lines") ELSE MkInfo(ln[1], st.kont[r1].fn))
            ELSE IF a1[2] >= 2 /\ a1[2] <= 8
                 THEN (LET at == LevelAt(st.kont, a1[2], ln) IN
                       IF at[1] = "fn" THEN (IF ~OneLine(at[3]) THEN Unmod(st, "getinfo level 2 through host code") ELSE MkInfo(at[3][1], st.kont[at[2]].fn))
                       ELSE IF at[1] = "tail" THEN Unmod(st, "getinfo of a tail-call level")
                       ELSE IF at[1] = "host" THEN Unmod(st, "getinfo level 2 through host code")
                       ELSE Unmod(st, "getinfo level beyond the chunk"))
            ELSE Unmod(st, "getinfo level"))
      [] name = "dbg.getlocal" \/ name = "dbg.setlocal" ->
           (LET r1 == NearestIdx(st.kont, IsRet)
                IsBlk(x) == x.w = "block"
                RECURSIVE Below(_, _)          \* the continuation as seen from `lv` levels up; <<>> if a host-called frame intervenes
                Below(K, lv) == IF lv <= 1 THEN K
                                ELSE LET r == NearestIdx(K, IsRet) IN
                                     IF r <= 1 THEN <<>>
                                     ELSE IF lv - 1 <= K[r].tc THEN <<>>                   \* a tail-call level has no variables
                                     ELSE IF K[r].oln = NoPos THEN <<>>                    \* called by host code
                                     ELSE Below(SubSeq(K, 1, r - 1), lv - 1 - K[r].tc)
                K1 == IF a1[1] = "n" /\ a1[2] >= 1 /\ a1[2] <= 6 THEN Below(st.kont, a1[2]) ELSE <<>>
                rr == NearestIdx(K1, IsRet)
                bi == NearestIdx(K1, IsBlk) IN
            IF a1[1] # "n" \/ a2[1] # "n" \/ a1[2] < 1 \/ a1[2] > 6 THEN Unmod(st, "getlocal level/index")
            ELSE IF K1 = <<>> THEN Unmod(st, "getlocal level through host code or beyond the chunk")
            ELSE IF rr = 0 \/ bi = 0 \/ bi < rr THEN Unmod(st, "getlocal: no block")
            ELSE LET env == K1[bi].env   base == K1[rr].base   i == a2[2] IN
                 IF i < 1 \/ base + i > Len(env) THEN RetV(st, <<Nil>>, multi)
                 ELSE LET nm == Str(N[Len(N)].tab[env[base + i][1]])   c == env[base + i][2] IN
                      IF name = "dbg.getlocal" THEN RetV(st, <<nm, st.cells[c]>>, multi)
                      ELSE RetV([st EXCEPT !.cells[c] = a3], <<nm>>, multi))
      [] name = "dbg.getupvalue" \/ name = "dbg.setupvalue" ->
           (IF a1[1] # "f" \/ a2[1] # "n" THEN Unmod(st, "getupvalue argument")
            ELSE LET c == st.heap[a1[2]]
                     uv == IF c.node = 0 THEN <<>> ELSE N[c.node].uv
                     i == a2[2] IN
                 IF i < 1 \/ i > Len(uv) THEN RetV(st, <<Nil>>, multi)
                 ELSE LET cell == EnvCell(c.env, uv[i])   nm == Str(N[Len(N)].tab[uv[i]]) IN
                      IF cell = 0 THEN Unmod(st, "upvalue not bound")
                      ELSE IF name = "dbg.getupvalue" THEN RetV(st, <<nm, st.cells[cell]>>, multi)
                      ELSE RetV([st EXCEPT !.cells[cell] = a3], <<nm>>, multi))
      [] name \in {"str.sub", "str.len", "str.byte", "str.rep"} ->
           (LET sv == ToStr(a1) IN
            IF sv[1] = "un" THEN Unmod(st, "string function on fault text")
            ELSE IF sv[1] = "no" THEN Fault(st, ln)
            ELSE LET b == sv[2]   l == Len(b)
                     PosRelat(p) == IF p >= 0 THEN p ELSE (IF l + p + 1 < 0 THEN 0 ELSE l + p + 1)
                     IntArg(v, dflt) == IF v = Nil THEN Num(dflt) ELSE ToNum(v) IN
                 CASE name = "str.len" -> RetV(st, <<Num(l)>>, multi)
                   [] name = "str.sub" ->
                        (LET i0 == IntArg(a2, 1)  j0 == IntArg(a3, -1) IN
                         IF i0[1] # "n" \/ j0[1] # "n" THEN (IF i0[1] = "un" \/ j0[1] = "un" THEN Unmod(st, "numeral") ELSE Fault(st, ln))
                         ELSE LET i1 == PosRelat(i0[2])  j1 == PosRelat(j0[2])
                                  i == IF i1 < 1 THEN 1 ELSE i1   j == IF j1 > l THEN l ELSE j1 IN
                              RetV(st, <<Str(IF i > j THEN <<>> ELSE SubSeq(b, i, j))>>, multi))
                   [] name = "str.byte" ->
                        (LET i0 == IntArg(a2, 1) IN
                         IF i0[1] # "n" THEN Unmod(st, "byte index")
                         ELSE LET i1 == PosRelat(i0[2])
                                  j0 == IntArg(a3, i1) IN
                              IF j0[1] # "n" THEN Unmod(st, "byte index")
                              ELSE LET j1 == PosRelat(j0[2])
                                       i == IF i1 < 1 THEN 1 ELSE i1   j == IF j1 > l THEN l ELSE j1 IN
                                   RetV(st, IF i > j THEN <<>> ELSE [x \in 1..(j - i + 1) |-> Num(b[i + x - 1])], multi))
                   [] name = "str.rep" ->
                        (LET c == IntArg(a2, 0) IN
                         IF c[1] # "n" THEN Fault(st, ln)
                         ELSE IF c[2] * l > 200 THEN Unmod(st, "rep too long")
                         ELSE LET RECURSIVE Rep(_)
                                  Rep(k) == IF k <= 0 THEN <<>> ELSE b \o Rep(k - 1) IN
                              RetV(st, <<Str(Rep(c[2]))>>, multi)))
      [] name = "co.create" ->
           \* deviation named on purpose: Lua 5.1 demands a Lua function here; gopher-lua (like Lua 5.2) also takes a
           \* host function as the body, which then runs as the coroutine's only activation
           (IF ~IsFn(a1) THEN Fault(st, ln)
            ELSE RetV(AllocObj(st, [o |-> "co", status |-> "suspended", started |-> FALSE, fn |-> a1,
                                    kont |-> <<>>, vals |-> <<>>, resumer |-> 0]),
                      <<<<"co", Len(st.heap) + 1>>>>, multi))
      [] name = "co.wrap" ->
           (IF ~IsFn(a1) THEN Fault(st, ln)
            ELSE RetV(AllocObj(st, [o |-> "co", status |-> "suspended", started |-> FALSE, fn |-> a1,
                                    kont |-> <<>>, vals |-> <<>>, resumer |-> 0]),
                      <<<<"wf", Len(st.heap) + 1>>>>, multi))
      [] name = "co.resume" -> (IF a1[1] # "co" THEN Fault(st, ln) ELSE DoResume(st, a1[2], SubSeq(a, 2, n), multi, FALSE, ln))
      [] name = "co.yield" -> DoYield(st, a, multi, ln)
      [] name = "co.status" -> (IF a1[1] # "co" THEN Fault(st, ln) ELSE RetV(st, <<Str(Bytes(st.heap[a1[2]].status))>>, multi))
      [] name = "co.running" -> RetV(st, <<IF st.cur = 0 THEN Nil ELSE <<"co", st.cur>>>>, multi)
      [] OTHER -> Unmod(st, "unknown builtin")

(* ---- the step function ------------------------------------------------------------------------ *)
Step(N, st) ==
    LET it == Top(st.kont)
        K0 == Pop(st.kont)
        s0 == [st EXCEPT !.kont = K0, !.steps = @ + 1]     \* the top item removed
        V == st.vals
    IN
    CASE it.w = "block" ->
           (IF it.i > Len(N[it.b].ss)
            THEN (IF it.after = 0 THEN s0
                  ELSE [s0 EXCEPT !.kont = Append(Append(K0, [w |-> "repeattest"]), EvalItem(it.after, it.env, FALSE))])
            ELSE ExecStmt(N, [s0 EXCEPT !.kont = Append(K0, [it EXCEPT !.i = @ + 1])], N[it.b].ss[it.i], it.env))
      [] it.w = "eval" -> EvalExpr(N, s0, it)
      [] it.w = "evlist" ->
           (IF it.i = 0 THEN [st EXCEPT !.kont = Append(K0, [it EXCEPT !.i = 1]), !.vals = Append(V, <<>>), !.steps = @ + 1]
            ELSE IF it.i > Len(it.es) THEN s0
            ELSE [s0 EXCEPT !.kont = Append(Append(Append(K0, [it EXCEPT !.i = @ + 1]), [w |-> "acc"]),
                                            EvalItem(it.es[it.i], it.env, it.lm /\ it.i = Len(it.es)))])
      [] it.w = "acc" -> [s0 EXCEPT !.vals = Append(PopN(V, 2), V[Len(V) - 1] \o Top(V))]
      [] it.w = "drop" -> [s0 EXCEPT !.vals = Pop(V)]
      [] it.w = "bindlocal" ->
           (LET blk == Len(K0)
                b == Bind([s0 EXCEPT !.vals = Pop(V)], K0[blk].env, it.ns, Top(V))
            IN [b[1] EXCEPT !.kont[blk].env = b[2]])
      [] it.w = "asgprep" ->
           (IF it.i > Len(it.ts) THEN s0
            ELSE LET t == N[it.ts[it.i]]  nxt == Append(K0, [it EXCEPT !.i = @ + 1]) IN
                 IF t.k = "index"
                 THEN [s0 EXCEPT !.kont = Append(Append(Append(nxt, [w |-> "pair"]), EvalItem(t.i, it.env, FALSE)),
                                                 EvalItem(t.o, it.env, FALSE))]
                 ELSE [s0 EXCEPT !.kont = nxt])
      [] it.w = "pair" -> [s0 EXCEPT !.vals = Append(PopN(V, 2), V[Len(V) - 1] \o Top(V))]
      [] it.w = "asgstore" ->
           (* vals: [target pairs for index targets ...] [rhs list]; build places right to left *)
           (LET nt == Len(it.ts)
                rhs == AdjustN(Top(V), nt)
                idxs == {i \in 1..nt : N[it.ts[i]].k = "index"}
                nidx == Cardinality(idxs)
                (* the j-th index target (in source order) sits at V[Len(V) - 1 - nidx + j] *)
                Rank(i) == Cardinality({x \in idxs : x <= i})
                Place(i) == LET t == N[it.ts[i]] IN
                            IF t.k = "index" THEN <<"idx", V[Len(V) - 1 - nidx + Rank(i)], t.ln>>
                            ELSE LET c == EnvCell(it.env, t.n) IN
                                 IF c # 0 THEN <<"cell", c>> ELSE <<"glob", t.nb, t.ln>>
                places == [j \in 1..nt |-> Place(nt + 1 - j)]
                values == [j \in 1..nt |-> rhs[nt + 1 - j]]
            IN [s0 EXCEPT !.vals = PopN(V, 1 + nidx),
                          !.kont = Append(K0, [w |-> "stores", ps |-> places, vs |-> values, i |-> 1])])
      [] it.w = "stores" ->
           (IF it.i > Len(it.ps) THEN s0
            ELSE LET p == it.ps[it.i]  v == it.vs[it.i]
                     s1 == [s0 EXCEPT !.kont = Append(K0, [it EXCEPT !.i = @ + 1])] IN
                 CASE p[1] = "cell" -> [s1 EXCEPT !.cells[p[2]] = v]
                   [] p[1] = "glob" -> DoNewIndex(s1, <<"t", CurFenv(st)>>, Str(p[2]), v, p[3], 100)
                   [] p[1] = "idx" -> DoNewIndex(s1, p[2][1], p[2][2], v, p[3], 100))
      [] it.w = "index" -> DoIndex([s0 EXCEPT !.vals = PopN(V, 2)], V[Len(V) - 1][1], Top(V)[1], it.ln, 100)
      [] it.w = "self" ->
           (LET obj == Top(V)[1] IN
            [DoIndex([s0 EXCEPT !.kont = Append(K0, [w |-> "selfswap"])], obj, Str(it.nb), it.ln, 100) EXCEPT !.steps = @])
      [] it.w = "selfswap" -> [s0 EXCEPT !.vals = Append(Append(PopN(V, 2), Top(V)), V[Len(V) - 1])]
      [] it.w = "bin" -> DoBin([s0 EXCEPT !.vals = PopN(V, 2)], it.op, V[Len(V) - 1][1], Top(V)[1], it.ln)
      [] it.w = "un" -> DoUn([s0 EXCEPT !.vals = Pop(V)], it.op, Top(V)[1], it.ln)
      [] it.w = "tobool" -> [s0 EXCEPT !.vals = Append(Pop(V), <<Bool(IF it.neg THEN ~Truthy(Top(V)[1]) ELSE Truthy(Top(V)[1]))>>)]
      [] it.w = "andor" ->
           (LET v == Top(V)[1]
                keep == IF it.op = "and" THEN ~Truthy(v) ELSE Truthy(v) IN
            IF keep THEN s0
            ELSE [s0 EXCEPT !.vals = Pop(V), !.kont = Append(K0, EvalItem(it.r, it.env, FALSE))])
      [] it.w = "tabc" ->
           (LET its == N[it.e].it IN
            IF it.i > Len(its) THEN s0
            ELSE LET x == its[it.i]  last == it.i = Len(its)
                     nxt == Append(K0, [it EXCEPT !.i = @ + 1]) IN
                 IF x.t = "p"
                 THEN [s0 EXCEPT !.kont = Append(Append(nxt, [w |-> "tabpos", last |-> last]), EvalItem(x.v, it.env, last))]
                 ELSE [s0 EXCEPT !.kont = Append(Append(Append(nxt, [w |-> "tabkey", ln |-> N[x.v].ln]),
                                                        EvalItem(x.v, it.env, FALSE)), EvalItem(x.kk, it.env, FALSE))])
      [] it.w = "tabpos" ->
           (LET vs == Top(V)  t == V[Len(V) - 1][1]  tc == Len(K0)  n0 == K0[tc].n
                RECURSIVE SetAll(_, _)
                SetAll(kv, j) == IF j > Len(vs) THEN kv ELSE SetAll(TSet(kv, Num(n0 + j - 1), vs[j]), j + 1)
            IN [s0 EXCEPT !.vals = Pop(V), !.kont[tc].n = n0 + Len(vs),
                          !.heap[t[2]].kv = SetAll(@, 1)])
      [] it.w = "tabkey" ->
           (LET v == Top(V)[1]  k == V[Len(V) - 1][1]  t == V[Len(V) - 2][1] IN
            IF BadKey(k) THEN Fault([s0 EXCEPT !.vals = PopN(V, 2)], it.ln)
            ELSE [s0 EXCEPT !.vals = PopN(V, 2), !.heap[t[2]].kv = TSet(@, k, v)])
      [] it.w = "call" ->
           (LET args == Top(V)  f == V[Len(V) - 1][1]
                s1 == [s0 EXCEPT !.vals = PopN(V, 2)] IN
            CASE f[1] = "f" -> (IF DepthExceeded(st, K0) THEN Fault(s1, it.ln)      \* "stack overflow": an ordinary error at the call
                                ELSE IF "tc" \in DOMAIN it THEN EnterClosure(N, s1, f[2], args, it.m, it.ln, it.tc, it.oln)
                                ELSE EnterClosure(N, s1, f[2], args, it.m, it.ln, 0, it.ln))
              [] f[1] = "bi" -> Builtin(N, s1, f[2], args, it.m, it.ln)
              [] f[1] = "wf" -> DoResume(s1, f[2], args, it.m, TRUE, it.ln)
              [] OTHER -> (LET h == MetaField(st, f, "__call") IN
                           IF IsFn(h) THEN [st EXCEPT !.vals = Append(Append(PopN(V, 2), <<h>>), <<f>> \o args), !.steps = @ + 1]
                           ELSE Fault(s1, it.ln)))
      [] it.w = "tailcall" ->
           (* a proper tail call: the frame is replaced before the callee is entered *)
           (LET args == Top(V)  f == V[Len(V) - 1]
                r == NearestIdx(K0, IsRet)  mk == K0[r] IN
            IF r = 1 /\ st.cur = 0     \* tail call out of the main chunk: keep the chunk marker
            THEN [s0 EXCEPT !.kont = Append(Append(K0, [w |-> "doreturn"]), CallItem(TRUE, it.ln))]
            ELSE \* the caller's frame is gone: what "the calling statement" of the callee is
                 \* (error level 2, getinfo level 2) is not defined by the manual -> no position
                 [s0 EXCEPT !.kont = Append(SubSeq(K0, 1, r - 1), TailCallItem(mk.m, mk.tc + 1, mk.oln)),
                            !.vals = Append(Append(SubSeq(V, 1, mk.vh), f), args)])
      [] it.w = "ret" ->       \* the body fell off its end
           [s0 EXCEPT !.vals = Append(SubSeq(V, 1, it.vh), Adjust(<<>>, it.m))]
      [] it.w = "doreturn" ->
           (LET r == NearestIdx(K0, IsRet)  mk == K0[r] IN
            [s0 EXCEPT !.kont = SubSeq(K0, 1, r - 1), !.vals = Append(SubSeq(V, 1, mk.vh), Adjust(Top(V), mk.m))])
      [] it.w = "while" ->
           [s0 EXCEPT !.kont = Append(Append(st.kont, [w |-> "whiletest", s |-> it.s, env |-> it.env]),
                                      EvalItem(N[it.s].c, it.env, FALSE))]
      [] it.w = "whiletest" ->
           (IF Truthy(Top(V)[1]) THEN [s0 EXCEPT !.vals = Pop(V), !.kont = Append(K0, BlockItem(N[it.s].b, it.env))]
            ELSE [s0 EXCEPT !.vals = Pop(V), !.kont = Pop(K0)])
      [] it.w = "repeat" ->
           [s0 EXCEPT !.kont = Append(st.kont, [BlockItem(N[it.s].b, it.env) EXCEPT !.after = N[it.s].c])]
      [] it.w = "repeattest" ->
           (IF Truthy(Top(V)[1]) THEN [s0 EXCEPT !.vals = Pop(V), !.kont = Pop(K0)]
            ELSE [s0 EXCEPT !.vals = Pop(V)])
      [] it.w = "iftest" ->
           (LET nd == N[it.s]  s1 == [s0 EXCEPT !.vals = Pop(V)] IN
            IF Truthy(Top(V)[1]) THEN [s1 EXCEPT !.kont = Append(K0, BlockItem(nd.bs[it.i], it.env))]
            ELSE IF it.i < Len(nd.cs)
                 THEN [s1 EXCEPT !.kont = Append(Append(K0, [it EXCEPT !.i = @ + 1]), EvalItem(nd.cs[it.i + 1], it.env, FALSE))]
            ELSE IF nd.el # 0 THEN [s1 EXCEPT !.kont = Append(K0, BlockItem(nd.el, it.env))]
            ELSE s1)
      [] it.w = "forprep" ->
           \* init, limit and step are converted like arithmetic operands (luaV_tonumber in OP_FORPREP): numeric strings count
           (LET nd == N[it.s]  vs == Top(V)
                a == ToNum(vs[1])  b == ToNum(vs[2])  c == IF nd.e3 = 0 THEN Num(1) ELSE ToNum(vs[3])
                s1 == [s0 EXCEPT !.vals = Pop(V)] IN
            IF a[1] = "n" /\ b[1] = "n" /\ c[1] = "n"
            THEN (IF c[2] = 0 THEN Unmod(s1, "for step 0")
                  ELSE [s1 EXCEPT !.kont = Append(K0, [w |-> "fornum", s |-> it.s, cur |-> a[2], lim |-> b[2], step |-> c[2], env |-> it.env])])
            ELSE IF \E x \in {a, b, c} : x[1] = "un" THEN Unmod(s1, "numeral")
            ELSE Fault(s1, nd.ln))
      [] it.w = "fornum" ->
           (IF (it.step > 0 /\ it.cur <= it.lim) \/ (it.step < 0 /\ it.cur >= it.lim)
            THEN (IF ~InRange(it.cur + it.step) THEN Unmod(st, "for counter range")
                  ELSE LET b == Bind(s0, it.env, <<N[it.s].v>>, <<Num(it.cur)>>) IN
                       [b[1] EXCEPT !.kont = Append(Append(K0, [it EXCEPT !.cur = @ + it.step]), BlockItem(N[it.s].b, b[2]))])
            ELSE s0)
      [] it.w = "forinprep" ->
           (LET vs == AdjustN(Top(V), 3) IN
            [s0 EXCEPT !.vals = Pop(V),
                       !.kont = Append(K0, [w |-> "forin", s |-> it.s, f |-> vs[1], sv |-> vs[2], ctl |-> vs[3], env |-> it.env])])
      [] it.w = "forin" ->
           [s0 EXCEPT !.kont = Append(Append(st.kont, [w |-> "forinstep"]), CallItem(TRUE, N[it.s].ln)),
                      !.vals = Append(Append(V, <<it.f>>), <<it.sv, it.ctl>>)]
      [] it.w = "forinstep" ->
           (LET lp == K0[Len(K0)]  nd == N[lp.s]
                rs == AdjustN(Top(V), Len(nd.ns))
                s1 == [s0 EXCEPT !.vals = Pop(V)] IN
            IF rs[1] = Nil THEN [s1 EXCEPT !.kont = Pop(K0)]
            ELSE LET b == Bind(s1, lp.env, nd.ns, rs) IN
                 [b[1] EXCEPT !.kont = Append(Append(Pop(K0), [lp EXCEPT !.ctl = rs[1]]), BlockItem(nd.b, b[2]))])
      [] it.w = "pmark" -> [s0 EXCEPT !.vals = Append(Pop(V), Adjust(<<True>> \o Top(V), it.m))]
      [] it.w = "xpmark" -> [s0 EXCEPT !.vals = Append(Pop(V), Adjust(<<True>> \o Top(V), it.m))]
      [] it.w = "unwind" ->
           (LET pm == K0[it.p] IN
            [s0 EXCEPT !.kont = SubSeq(K0, 1, it.p - 1),
                       !.vals = Append(SubSeq(V, 1, pm.vh), Adjust(<<False, Top(V)[1]>>, pm.m))])
      [] it.w = "codead" -> CoFinish(s0, "err" \in DOMAIN it)

(* ---- initial state ------------------------------------------------------------------------------- *)
GlobalNames == <<"emit", "type", "tostring", "tonumber", "select", "unpack", "rawget", "rawset", "rawequal",
                 "next", "pairs", "ipairs", "setmetatable", "getmetatable", "pcall", "xpcall", "error", "assert",
                 "getfenv", "setfenv", "newproxy", "gret", "gcall", "gerr", "gpanic", "snap", "gcancel", "gswap", "glimit">>
CoNames == <<"create", "resume", "yield", "status", "wrap", "running">>
DbgNames == <<"getinfo", "getlocal", "setlocal", "getupvalue", "setupvalue">>
StrNames == <<"sub", "len", "byte", "rep">>

(* heap: 1 = globals, 2 = main closure, 3 = coroutine table, 4 = string metatable, 5 = string table, 6 = debug table *)
InitState(root) ==
    LET gkv == [i \in 1..Len(GlobalNames) |-> <<Str(Bytes(GlobalNames[i])), <<"bi", GlobalNames[i]>>>>]
               \o <<<<Str(Bytes("coroutine")), <<"t", 3>>>>, <<Str(Bytes("string")), <<"t", 5>>>>, <<Str(Bytes("_G")), <<"t", 1>>>>, <<Str(Bytes("debug")), <<"t", 6>>>>,
                    \* ghuge: the host's name for "more than any run gets to count" (math.huge in the harness; a run is cut off long before 2^30 - 1)
                    <<Str(Bytes("ghuge")), Num(1073741823)>>>>
        strkv == [i \in 1..Len(StrNames) |-> <<Str(Bytes(StrNames[i])), <<"bi", "str." \o StrNames[i]>>>>]
        dbgkv == [i \in 1..Len(DbgNames) |-> <<Str(Bytes(DbgNames[i])), <<"bi", "dbg." \o DbgNames[i]>>>>]
        cokv == [i \in 1..Len(CoNames) |-> <<Str(Bytes(CoNames[i])), <<"bi", "co." \o CoNames[i]>>>>]
    IN [kont |-> <<[w |-> "ret", m |-> TRUE, va |-> <<>>, vh |-> 0, ln |-> NoPos, fn |-> 2, base |-> 0, tc |-> 0, oln |-> NoPos], BlockItem(root, <<>>)>>,
        vals |-> <<>>,
        cells |-> <<>>,
        heap |-> <<[o |-> "tab", kv |-> gkv, mt |-> 0],
                   [o |-> "fn", node |-> 0, env |-> <<>>, fenv |-> 1],
                   [o |-> "tab", kv |-> cokv, mt |-> 0],
                   [o |-> "tab", kv |-> <<<<Str(Bytes("__index")), <<"t", 5>>>>>>, mt |-> 0],
                   [o |-> "tab", kv |-> strkv, mt |-> 0],
                   [o |-> "tab", kv |-> dbgkv, mt |-> 0]>>,
        out |-> <<>>, seen |-> <<>>, mode |-> "run", res |-> <<>>, steps |-> 0,
        cur |-> 0, mainK |-> <<>>, mainV |-> <<>>, G |-> 1, smt |-> 4, dl |-> 0]

(* one machine step, with termination detection *)
Finish(st) ==
    IF st.mode = "run" /\ st.kont = <<>> /\ st.cur = 0
    THEN [st EXCEPT !.mode = "done", !.res = <<"ok", IF st.vals = <<>> THEN <<>> ELSE Top(st.vals)>>]
    ELSE st
StepF(N, st) == Finish(Step(N, st))

RECURSIVE RunAll(_, _, _)
RunAll(N, st, fuel) ==
    IF st.mode # "run" THEN st
    ELSE IF fuel = 0 THEN Unmod(st, "step budget")
    ELSE RunAll(N, StepF(N, st), fuel - 1)
=============================================================================
