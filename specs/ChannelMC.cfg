SPECIFICATION Spec
VIEW view
INVARIANTS TypeOK EventLaws Conservation AtMostOnce NoFuture PerSenderFIFO ExactlyOnceAtCompletion ClosedRules RendezvousOnly NoBadPayload
CHECK_DEADLOCK FALSE
