SPECIFICATION Spec
CONSTANTS
  Sizes = {0, 1, 4095, 4096, 4097}
  Lays <- MC_BigLays
  Modes = {"r", "rb", "w", "wb", "a", "ab", "r+", "rb+", "w+", "wb+", "a+", "ab+", "r+b", "w+b", "a+b", "tmp"}
  RCounts = {0, 1, 2, 4096, 5000}
  WCounts = {0, 1, 2, 4096, 5000}
  SOffs <- MC_BigSOffs
  VBufs = {"no", "full", "line"}
  MFmts <- MC_None
  VSizes = {0}
  Extra <- MC_AllExtra
  Naive = FALSE
  Gen = TRUE
VIEW genview
ACTION_CONSTRAINT GenPrint
CHECK_DEADLOCK FALSE
