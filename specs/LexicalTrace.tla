---------------------------- MODULE LexicalTrace ----------------------------
(***************************************************************************)
(* Validation of what the real interpreter produced (property C16), one    *)
(* JSON record per line of File, one VERDICT line per record:               *)
(*  k = "q":  s, q = string.format('%q', s) as produced by the real code,   *)
(*            rb/back = whether loading "return "..q succeeded and what it  *)
(*            returned.  Accepted iff the quoted text denotes s as a Lua    *)
(*            5.1 literal (Denote) and the real reader gave s back.         *)
(*  k = "ti": an integral value  (-1)^neg * (hi*10^8 + lo)  below 2^53 and  *)
(*            text = tostring(value), rt = tonumber(text) == value.         *)
(*            Accepted iff text is exactly the plain decimal digits.        *)
(*  k = "tf": the value m * 2^e (m odd) and text = tostring(value), rt as   *)
(*            above.  Accepted iff rt and, when Numeral(text) is within the *)
(*            model, it is exactly that value (unmodelled is reported).     *)
(*  k = "tr": any finite float64: accepted iff rt and text is a numeral.    *)
(***************************************************************************)
EXTENDS Lexical, TLC, Json

CONSTANT File
Data == ndJsonDeserialize(File)

VARIABLE idx
Init == idx \in 1..Len(Data)
Spec == Init /\ [][UNCHANGED idx]_idx

Judge(r) ==
    CASE r.k = "q" ->
            LET d == Denote(r.q) IN
            IF d.kind # "ok" THEN <<FALSE, "quote", "the quoted text is not one Lua 5.1 string literal: " \o d.kind \o " " \o d.why>>
            ELSE IF d.val # r.s THEN <<FALSE, "quote", "the quoted text denotes other bytes than s">>
            ELSE IF ~r.rb THEN <<FALSE, "readback", "the interpreter failed to load its own quoted text">>
            ELSE IF r.back # r.s THEN <<FALSE, "readback", "the interpreter read other bytes back">>
            ELSE <<TRUE, "", "">>
      [] r.k = "ti" ->
            IF r.text # IntToStr2(r.neg, r.hi, r.lo)
               /\ ~(r.neg /\ r.hi = 0 /\ r.lo = 0 /\ r.text = <<45, 48>>)       \* negative zero may print as -0
            THEN <<FALSE, "print", "integral value not printed as plain decimal digits">>
            ELSE IF ~r.rt THEN <<FALSE, "roundtrip", "tonumber(tostring(x)) ~= x">>
            ELSE <<TRUE, "", "">>
      [] r.k = "tf" ->
            LET v == Numeral(r.text) IN
            IF ~r.rt THEN <<FALSE, "roundtrip", "tonumber(tostring(x)) ~= x">>
            ELSE IF v = Valid THEN <<TRUE, "unmodelled", "">>
            ELSE IF v # <<"v", r.m, r.e>> THEN <<FALSE, "print", "printed text is not a numeral for x">>
            ELSE <<TRUE, "", "">>
      [] r.k = "tr" ->
            IF ~r.rt THEN <<FALSE, "roundtrip", "tonumber(tostring(x)) ~= x">>
            ELSE IF Numeral(r.text)[1] \notin {"v", "valid"} THEN <<FALSE, "print", "printed text is not a Lua numeral">>
            ELSE <<TRUE, "", "">>

Verdict ==
    LET r == Data[idx]
        j == Judge(r)
    IN PrintT("VERDICT " \o ToJson([id |-> r.id, ok |-> j[1], why |-> j[2], msg |-> j[3]]))
=============================================================================
