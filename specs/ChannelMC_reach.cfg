SPECIFICATION Spec
INVARIANTS KindNote EventLaws
CHECK_DEADLOCK FALSE
