------------------------------- MODULE Table -------------------------------
(***************************************************************************)
(* Abstract specification of a Lua table (property C09): a finite map with *)
(* a valid length border and complete traversal.                           *)
(*                                                                         *)
(* Keys and values are tagged tuples:                                      *)
(*   <<"n", i>>  integer-valued number      <<"f", i>> non-integral number *)
(*   <<"s", x>>  string      <<"b", TRUE>>  boolean     <<"t", i>> object  *)
(*   <<"nil">>   nil         <<"nan">>      NaN                            *)
(* The map m is total over the key universe Keys; absent = Nil.            *)
(* Unspecified choices are explicit nondeterminism: Len returns ANY border,*)
(* Next returns ANY present key not yet visited.                           *)
(***************************************************************************)
EXTENDS Integers, Sequences, FiniteSets

CONSTANTS Keys,      \* the key universe (never contains Nil or NaN)
          Vals       \* non-nil values

Nil == <<"nil">>
NaN == <<"nan">>

Lookup(mm, k) == IF k \in DOMAIN mm THEN mm[k] ELSE Nil
Present(mm) == {k \in DOMAIN mm : mm[k] # Nil}
IntKey(i) == <<"n", i>>

EmptyMap == [k \in Keys |-> Nil]

(* A border: t[n] ~= nil and t[n+1] == nil, or 0 when t[1] == nil *)
IsBorder(mm, n) ==
    /\ n >= 0
    /\ (n = 0 => Lookup(mm, IntKey(1)) = Nil)
    /\ (n > 0 => Lookup(mm, IntKey(n)) # Nil)
    /\ Lookup(mm, IntKey(n + 1)) = Nil

(* a Lua-level store under nil or NaN is an error *)
BadStoreKey(k) == k = Nil \/ k = NaN

Store(mm, k, v) == [mm EXCEPT ![k] = v]

(* ipairs visits 1..n up to the first nil *)
RECURSIVE IPairsFrom(_, _)
IPairsFrom(mm, i) ==
    IF Lookup(mm, IntKey(i)) = Nil THEN <<>>
    ELSE <<Lookup(mm, IntKey(i))>> \o IPairsFrom(mm, i + 1)
IPairs(mm) == IPairsFrom(mm, 1)

(* A complete traversal result: a sequence of <<k, v>> pairs that lists    *)
(* every present key exactly once with its current value.                  *)
IsTraversalOf(mm, ps) ==
    /\ \A i \in 1..Len(ps) : ps[i][1] \in Present(mm) /\ ps[i][2] = mm[ps[i][1]]
    /\ \A i, j \in 1..Len(ps) : i # j => ps[i][1] # ps[j][1]
    /\ \A k \in Present(mm) : \E i \in 1..Len(ps) : ps[i][1] = k

(***************************************************************************)
(* Stepwise traversal state.  A traversal is "valid" as long as no new key *)
(* is added (clearing and overwriting existing fields is allowed).         *)
(*   trav = [on, last, visited, must]                                      *)
(* must: keys present at the start and never cleared since.                *)
(***************************************************************************)
NoTrav == [on |-> FALSE, last |-> Nil, visited |-> {}, must |-> {}]
StartTrav(mm) == [on |-> TRUE, last |-> Nil, visited |-> {}, must |-> Present(mm)]

(* effect of a store on an active traversal *)
TravAfterStore(tr, mm, k, v) ==
    IF ~tr.on THEN tr
    ELSE IF v = Nil THEN [tr EXCEPT !.must = @ \ {k}]
    ELSE IF Lookup(mm, k) = Nil THEN NoTrav        \* new key: traversal undefined
    ELSE tr

(* admissible result <<rk, rv>> of next(last) *)
NextOK(tr, mm, rk, rv) ==
    IF rk = Nil
    THEN tr.must \subseteq tr.visited               \* complete
    ELSE /\ rk \in Present(mm)                        \* present ...
         /\ rv = mm[rk]                               \* ... with its current value
         /\ rk \notin tr.visited                      \* exactly once

TravAfterNext(tr, rk) ==
    IF rk = Nil THEN NoTrav
    ELSE [tr EXCEPT !.last = rk, !.visited = @ \cup {rk}]
=============================================================================
