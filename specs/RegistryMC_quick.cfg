SPECIFICATION Spec
CONSTANTS
  Cfgs <- MC_Cfgs_quick
  Gen = FALSE
  DepthInView = FALSE
VIEW genview
INVARIANTS Refines AnswersOK TopWithinCap CapWithinLimit AboveTopNil FullOK
CHECK_DEADLOCK FALSE
