SPECIFICATION Spec
CONSTANTS
  Mode = "wide"
  Years = {}
INVARIANTS WidePrint
CHECK_DEADLOCK FALSE
