package main

// Per-instruction footprint recorder (Frames, stage 2; specs/FramesStep.tla).
// The deterministic context is polled by the VM before every instruction of the
// main thread; at each poll the recorder closes the step of the activation that
// continues here (state before its previous instruction vs state now) and opens
// the next one.  Only projections are computed here; the laws are judged by TLC.

import (
	"fmt"
	"math"
	"strings"

	lua "github.com/yuin/gopher-lua"
)

var opNames = []string{"MOVE", "MOVEN", "LOADK", "LOADBOOL", "LOADNIL", "GETUPVAL", "GETGLOBAL", "GETTABLE", "GETTABLEKS", "SETGLOBAL",
	"SETUPVAL", "SETTABLE", "SETTABLEKS", "NEWTABLE", "SELF", "ADD", "SUB", "MUL", "DIV", "MOD", "POW", "UNM", "NOT", "LEN", "CONCAT",
	"JMP", "EQ", "LT", "LE", "TEST", "TESTSET", "CALL", "TAILCALL", "RETURN", "FORLOOP", "FORPREP", "TFORLOOP", "SETLIST", "CLOSE", "CLOSURE", "VARARG", "NOP"}

type footPending struct {
	depth     int
	proto     *lua.FunctionProto
	tail      int
	localBase int
	pc        int
	regs      []lua.LValue
	open      map[int]bool
	toprel    int
}

type footTracker struct {
	L     *lua.LState
	pend  []footPending
	seen  map[string]bool
	steps []interface{}
	polls int
}

func newFootTracker(L *lua.LState) *footTracker {
	return &footTracker{L: L, seen: map[string]bool{}}
}

// activeLocals lists the DbgLocals entries in scope at pc, in register order.
func activeLocals(p *lua.FunctionProto, pc int) []*lua.DbgLocalInfo {
	var out []*lua.DbgLocalInfo
	for _, l := range p.DbgLocals {
		if l.StartPc <= pc && pc < l.EndPc {
			out = append(out, l)
		}
	}
	return out
}

func sameValue(a, b lua.LValue) bool {
	if a == nil || b == nil {
		return a == nil && b == nil
	}
	if x, ok := a.(lua.LNumber); ok {
		if y, ok2 := b.(lua.LNumber); ok2 && math.IsNaN(float64(x)) && math.IsNaN(float64(y)) {
			return true
		}
	}
	defer func() { recover() }() // uncomparable dynamic types never occur among LValues; be safe
	return a == b
}

func (t *footTracker) step() {
	t.polls++
	if t.polls > 60000 {
		return
	}
	sp, top, f, ok := t.L.VerifCurrent()
	if !ok || f.IsG || f.Proto == nil || f.Pc < 1 {
		return
	}
	for len(t.pend) > 0 {
		p := t.pend[len(t.pend)-1]
		if p.depth > sp {
			t.pend = t.pend[:len(t.pend)-1] // that activation ended
			continue
		}
		if p.depth == sp {
			t.pend = t.pend[:len(t.pend)-1]
			// the same activation continues only if it is the same function at the same place and this is not a
			// fresh entry (pc 0 reached by anything but a backward jump: a host function calling the same Lua
			// function again, e.g. a metamethod handler used twice by one CONCAT)
			pop := int(p.proto.Code[p.pc] >> 26)
			backjump := pop < len(opNames) && (opNames[pop] == "JMP" || opNames[pop] == "FORLOOP")
			if p.proto == f.Proto && p.tail == f.TailCall && p.localBase == f.LocalBase && (f.Pc-1 != 0 || backjump) {
				t.judge(p, f, top)
			}
		}
		break
	}
	if cur := int(f.Proto.Code[f.Pc-1] >> 26); cur < len(opNames) && (opNames[cur] == "RETURN" || opNames[cur] == "TAILCALL") {
		return // the activation ends with this instruction: there is no "after"
	}
	n := int(f.Proto.NumUsedRegisters)
	open := map[int]bool{}
	for _, i := range t.L.VerifOpenUpvalueIndexes() {
		open[i] = true
	}
	t.pend = append(t.pend, footPending{depth: sp, proto: f.Proto, tail: f.TailCall, localBase: f.LocalBase, pc: f.Pc - 1,
		regs: t.L.VerifRegs(f.LocalBase, f.LocalBase+n), open: open, toprel: top - f.LocalBase})
}

func (t *footTracker) judge(p footPending, f lua.VerifFrame, top int) {
	inst := p.proto.Code[p.pc]
	op := int(inst >> 26)
	a, b, c := int(inst>>18)&0xff, int(inst&0x1ff), int(inst>>9)&0x1ff
	name := "?"
	if op < len(opNames) {
		name = opNames[op]
	}
	extra := []int{}
	if name == "MOVEN" {
		for i := 1; i <= c && p.pc+i < len(p.proto.Code); i++ {
			extra = append(extra, int(p.proto.Code[p.pc+i]>>18)&0xff)
		}
	}
	before := activeLocals(p.proto, p.pc)
	after := activeLocals(p.proto, f.Pc-1)
	now := t.L.VerifRegs(f.LocalBase, f.LocalBase+len(p.regs))
	openNow := map[int]bool{}
	for _, i := range t.L.VerifOpenUpvalueIndexes() {
		openNow[i] = true
	}
	changed := []int{}
	for r := 0; r < len(before) && r < len(after) && r < len(p.regs); r++ {
		if before[r] != after[r] || strings.HasPrefix(before[r].Name, "(") {
			continue // not the same variable / a hidden loop slot (the loop instructions own those)
		}
		abs := f.LocalBase + r
		if p.open[abs] || openNow[abs] {
			continue // shared with closures: anyone holding the upvalue may assign it
		}
		if !sameValue(p.regs[r], now[r]) {
			changed = append(changed, r)
		}
	}
	// a local that was readable (below the register top) before the step and is still the same
	// variable afterwards must still be readable
	toprel0 := top - f.LocalBase
	dropped := []int{}
	for r := 0; r < len(before) && r < len(after); r++ {
		if before[r] == after[r] && r < p.toprel && r >= toprel0 {
			dropped = append(dropped, r)
		}
	}
	nlive := len(after)
	toprel := top - f.LocalBase
	key := fmt.Sprint(name, a, b, c, extra, changed, dropped)
	if t.seen[key] {
		return
	}
	t.seen[key] = true
	line := 0
	if p.pc < len(p.proto.DbgSourcePositions) {
		line = p.proto.DbgSourcePositions[p.pc]
	}
	t.steps = append(t.steps, map[string]interface{}{"op": name, "a": a, "b": b, "c": c, "extra": extra, "changed": changed, "dropped": dropped,
		"nlive": nlive, "toprel": toprel, "pc": p.pc, "line": line})
}
