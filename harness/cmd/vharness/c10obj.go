package main

// C10, part 2: object-level API versus the corresponding Lua expression.
// For every case the operand world is built twice in the same LState (so that
// mutating calls cannot influence each other); once the API method is called
// (inside a protected host function), once the Lua expression is evaluated.
// Handlers installed in the metatables log their arguments and return a
// value fixed by the world description.  Both outcomes go into one record,
// validated by ApiObjTrace.tla.

import (
	"encoding/json"
	"flag"
	"fmt"
	"math"
	"sort"

	lua "github.com/yuin/gopher-lua"
)

type c10Object struct {
	O       string        `json:"o"`       // tab | ud
	KV      []interface{} `json:"kv"`      // [[k,v],...]
	MT      int           `json:"mt"`      // heap ref, 0 = none
	Builtin string        `json:"builtin"` // "", G, smt, string
}

type c10World struct {
	Heap []c10Object     `json:"heap"`
	Ret  [][]interface{} `json:"ret"` // [[handler name, value], ...]
	G    int             `json:"G"`
	Smt  int             `json:"smt"`
}

type c10Case struct {
	ID  int           `json:"id"`
	W   int           `json:"w"`
	Op  string        `json:"op"`
	A   []interface{} `json:"a"`
	Gmt int           `json:"gmt"`
	Tmt []interface{} `json:"tmt"` // type metatables for this case: [[tag, heap ref], ...], tag n|b|nil|bi|s
}

type c10Env struct {
	L      *lua.LState
	w      *c10World
	objs   []lua.LValue       // heap ref-1 -> object
	rev    map[lua.LValue]Tok // object -> token
	hfn    map[string]*lua.LFunction
	ret    map[string]Tok
	log    []interface{}
	luafn  map[string]*lua.LFunction
	strlen lua.LValue
	plainF *lua.LFunction
	gnames map[string]bool
	was    map[int]string // world table -> canonical JSON of its described content
	strmt  lua.LValue     // the original string metatable
}

func c10Bytes(x interface{}) string {
	arr := x.([]interface{})
	b := make([]byte, len(arr))
	for i, v := range arr {
		b[i] = byte(tokInt(v))
	}
	return string(b)
}

func c10StrTok(s string) Tok {
	b := make([]interface{}, len(s))
	for i := 0; i < len(s); i++ {
		b[i] = int(s[i])
	}
	return Tok{"s", b}
}

func (e *c10Env) handler(name string) *lua.LFunction {
	if f, ok := e.hfn[name]; ok {
		return f
	}
	f := e.L.NewFunction(func(L *lua.LState) int {
		args := []interface{}{}
		for i := 1; i <= L.GetTop(); i++ {
			args = append(args, e.tok(L.Get(i)))
		}
		e.log = append(e.log, []interface{}{name, args})
		r, ok := e.ret[name]
		if !ok {
			panic("c10 harness: handler without a return value: " + name)
		}
		if r[0].(string) == "raise" {
			L.RaiseError("c10 handler %s fails", name)
		}
		if r[0].(string) == "arg" { // the handler returns one of its arguments (its self)
			L.Push(L.Get(tokInt(r[1])))
			return 1
		}
		L.Push(e.val(r))
		return 1
	})
	e.hfn[name] = f
	e.rev[f] = Tok{"bi", name}
	return f
}

func (e *c10Env) val(t Tok) lua.LValue {
	switch t[0].(string) {
	case "nil":
		return lua.LNil
	case "b":
		return lua.LBool(t[1].(bool))
	case "n":
		return lua.LNumber(tokInt(t[1]))
	case "x":
		var f float64
		fmt.Sscan(t[1].(string), &f)
		return lua.LNumber(f)
	case "s":
		return lua.LString(c10Bytes(t[1]))
	case "t", "u":
		return e.objs[tokInt(t[1])-1]
	case "bi":
		switch n := t[1].(string); n {
		case "F":
			return e.plainF
		case "string.len":
			return e.strlen
		default:
			return e.handler(n)
		}
	}
	panic("c10 harness: bad token " + fmt.Sprint(t))
}

func (e *c10Env) tok(v lua.LValue) Tok {
	if v == nil {
		return Tok{"gonil"}
	}
	switch x := v.(type) {
	case *lua.LNilType:
		return Tok{"nil"}
	case lua.LBool:
		return Tok{"b", bool(x)}
	case lua.LNumber:
		f := float64(x)
		if f == math.Trunc(f) && math.Abs(f) < 1e9 {
			return Tok{"n", int(f)}
		}
		return Tok{"x", fmt.Sprint(f)}
	case lua.LString:
		return c10StrTok(string(x))
	}
	if t, ok := e.rev[v]; ok {
		return t
	}
	return Tok{"o", v.Type().String()}
}

// build (re)creates the operand world in the state.
func (e *c10Env) build(gmt int) {
	L := e.L
	w := e.w
	e.objs = make([]lua.LValue, len(w.Heap))
	e.rev = map[lua.LValue]Tok{}
	e.hfn = map[string]*lua.LFunction{}
	e.rev[e.plainF] = Tok{"bi", "F"}
	e.rev[e.strlen] = Tok{"bi", "string.len"}
	for i, o := range w.Heap {
		var v lua.LValue
		switch {
		case o.Builtin == "G":
			v = L.G.Global
		case o.Builtin == "smt":
			v = e.strmt
		case o.Builtin == "string":
			v = L.GetGlobal("string")
		case o.O == "tab":
			v = L.NewTable()
		case o.O == "ud":
			v = L.NewUserData()
		default:
			panic("c10 harness: bad object")
		}
		e.objs[i] = v
		tag := "t"
		if o.O == "ud" {
			tag = "u"
		}
		e.rev[v] = Tok{tag, i + 1}
	}
	for i, o := range w.Heap {
		if o.Builtin == "smt" || o.Builtin == "string" {
			continue
		}
		if o.O == "tab" {
			tb := e.objs[i].(*lua.LTable)
			for _, kv := range o.KV {
				p := kv.([]interface{})
				tb.RawSet(e.val(asTok(p[0])), e.val(asTok(p[1])))
				if o.Builtin == "G" {
					e.gnames[c10Bytes(asTok(p[0])[1])] = true
				}
			}
			mt := o.MT
			if o.Builtin == "G" {
				mt = gmt
			}
			if mt != 0 {
				tb.Metatable = e.objs[mt-1]
			} else {
				tb.Metatable = lua.LNil
			}
		} else if o.MT != 0 {
			e.objs[i].(*lua.LUserData).Metatable = e.objs[o.MT-1]
		}
	}
}

// sample value of the type a tag stands for (type metatables are per type)
func (e *c10Env) sample(tag string) lua.LValue {
	switch tag {
	case "n":
		return lua.LNumber(0)
	case "b":
		return lua.LTrue
	case "nil":
		return lua.LNil
	case "bi":
		return e.plainF
	case "s":
		return lua.LString("")
	}
	panic("c10 harness: bad type tag " + tag)
}

func (e *c10Env) setTypeMts(tmt []interface{}, install bool) {
	for _, x := range tmt {
		p := x.([]interface{})
		tag := p[0].(string)
		var mt lua.LValue = lua.LNil
		if install {
			mt = e.objs[tokInt(p[1])-1]
		} else if tag == "s" {
			mt = e.strmt
		}
		e.L.SetMetatable(e.sample(tag), mt)
	}
}

func (e *c10Env) cleanGlobals() {
	g := e.L.G.Global
	g.Metatable = lua.LNil
	for n := range e.gnames {
		g.RawSetString(n, lua.LNil)
	}
}

func c10SortPairs(ps []interface{}) []interface{} {
	keys := make([]string, len(ps))
	idx := make([]int, len(ps))
	for i, p := range ps {
		b, _ := json.Marshal(p)
		keys[i] = string(b)
		idx[i] = i
	}
	sort.Slice(idx, func(a, b int) bool { return keys[idx[a]] < keys[idx[b]] })
	out := make([]interface{}, len(ps))
	for i, j := range idx {
		out[i] = ps[j]
	}
	return out
}

// post lists the tables whose live content differs from the world description.
func (e *c10Env) post() []interface{} {
	out := []interface{}{}
	for i, o := range e.w.Heap {
		if o.O != "tab" || o.Builtin == "smt" || o.Builtin == "string" {
			continue
		}
		tb := e.objs[i].(*lua.LTable)
		now := []interface{}{}
		if o.Builtin == "G" {
			names := []string{}
			for n := range e.gnames {
				names = append(names, n)
			}
			sort.Strings(names)
			for _, n := range names {
				if v := tb.RawGetString(n); v != lua.LNil {
					now = append(now, []interface{}{c10StrTok(n), e.tok(v)})
				}
			}
		} else {
			tb.ForEach(func(k, v lua.LValue) { now = append(now, []interface{}{e.tok(k), e.tok(v)}) })
		}
		b, ok := e.was[i]
		if !ok {
			was := []interface{}{}
			for _, kv := range o.KV {
				if asTok(kv.([]interface{})[1])[0].(string) != "nil" {
					was = append(was, kv)
				}
			}
			bb, _ := json.Marshal(c10SortPairs(was))
			b = string(bb)
			e.was[i] = b
		}
		a, _ := json.Marshal(c10SortPairs(now))
		if string(a) != b {
			out = append(out, []interface{}{i + 1, c10SortPairs(now)})
		}
	}
	return out
}

func c10Name(t Tok) string { return c10Bytes(t[1]) }

// runAPI calls the API method inside a protected host function.
func (e *c10Env) runAPI(c *c10Case) map[string]interface{} {
	L := e.L
	e.log = nil
	res := []interface{}{}
	a := make([]lua.LValue, len(c.A))
	for i, t := range c.A {
		a[i] = e.val(asTok(t))
	}
	leak := 0
	body := L.NewFunction(func(L *lua.LState) int {
		t0 := L.GetTop()
		switch c.Op {
		case "GetTable":
			res = append(res, e.tok(L.GetTable(a[0], a[1])))
		case "GetField", "GetFieldT": // GetFieldT: against the generic-key Lua form obj[k]
			res = append(res, e.tok(L.GetField(a[0], c10Name(asTok(c.A[1])))))
		case "SetTable":
			L.SetTable(a[0], a[1], a[2])
		case "SetField", "SetFieldT":
			L.SetField(a[0], c10Name(asTok(c.A[1])), a[2])
		case "GetGlobal":
			res = append(res, e.tok(L.GetGlobal(c10Name(asTok(c.A[0])))))
		case "SetGlobal":
			L.SetGlobal(c10Name(asTok(c.A[0])), a[1])
		case "Equal":
			res = append(res, Tok{"b", L.Equal(a[0], a[1])})
		case "RawEqual":
			res = append(res, Tok{"b", L.RawEqual(a[0], a[1])})
		case "LessThan":
			res = append(res, Tok{"b", L.LessThan(a[0], a[1])})
		case "Concat":
			res = append(res, c10StrTok(L.Concat(a...)))
		case "ObjLen":
			res = append(res, Tok{"n", L.ObjLen(a[0])})
		case "GetMetatable":
			res = append(res, e.tok(L.GetMetatable(a[0])))
		case "RawMetatable": // the metatable itself, whatever __metatable says (tables / userdata)
			switch o := a[0].(type) {
			case *lua.LTable:
				res = append(res, e.tok(o.Metatable))
			case *lua.LUserData:
				res = append(res, e.tok(o.Metatable))
			default:
				panic("c10 harness: RawMetatable of " + a[0].Type().String())
			}
		case "ProtectedSet": // setmetatable() reached through the Go call API: refuses a protected metatable
			t1 := L.GetTop()
			L.Push(L.GetGlobal("setmetatable"))
			L.Push(a[0])
			L.Push(a[1])
			L.Call(2, 1)
			r := L.Get(-1)
			L.SetTop(t1)
			res = append(res, e.tok(r), e.tok(a[0].(*lua.LTable).Metatable))
		case "ToStringMeta":
			res = append(res, e.tok(L.ToStringMeta(a[0])))
		case "Next":
			k, v := L.Next(a[0].(*lua.LTable), a[1])
			res = append(res, e.tok(k), e.tok(v))
		case "ForEachWalk":
			n := 0
			L.ForEach(a[0].(*lua.LTable), func(k, v lua.LValue) {
				if n < 1000 {
					res = append(res, []interface{}{e.tok(k), e.tok(v)})
				}
				n++
			})
		case "NextWalk":
			tb := a[0].(*lua.LTable)
			n := 0
			for k, v := L.Next(tb, lua.LNil); k != lua.LNil && n < 1000; k, v = L.Next(tb, k) {
				res = append(res, []interface{}{e.tok(k), e.tok(v)})
				n++
			}
		default:
			panic("c10 harness: unknown op " + c.Op)
		}
		leak = L.GetTop() - t0 // the method must leave the caller's list as it was
		return 0
	})
	top := L.GetTop()
	// the host function owns one argument: a method that looks below its own operands would see it
	err := L.CallByParam(lua.P{Fn: body, NRet: 0, Protect: true}, lua.LString("c10-caller-value"))
	out := map[string]interface{}{"err": err != nil, "calls": e.log, "res": res}
	if err != nil {
		out["res"] = []interface{}{}
		out["errmsg"] = err.Error()
	}
	if L.GetTop() != top || leak != 0 {
		out["stackleak"] = []interface{}{leak, L.GetTop() - top}
		L.SetTop(top)
	}
	if e.log == nil {
		out["calls"] = []interface{}{}
	}
	return out
}

func (e *c10Env) luaFunc(src string) *lua.LFunction {
	if f, ok := e.luafn[src]; ok {
		return f
	}
	L := e.L
	chunk, err := L.LoadString(src)
	if err != nil {
		panic("c10 harness: " + err.Error())
	}
	top := L.GetTop()
	if err := L.CallByParam(lua.P{Fn: chunk, NRet: 1, Protect: true}); err != nil {
		panic("c10 harness: " + err.Error())
	}
	f := L.Get(top + 1).(*lua.LFunction)
	L.SetTop(top)
	e.luafn[src] = f
	return f
}

// runLua evaluates the corresponding Lua expression on the same operands.
func (e *c10Env) runLua(c *c10Case) map[string]interface{} {
	L := e.L
	e.log = nil
	a := make([]lua.LValue, len(c.A))
	for i, t := range c.A {
		a[i] = e.val(asTok(t))
	}
	var src string
	var args []lua.LValue
	nret := 1
	switch c.Op {
	case "GetTable", "GetFieldT":
		src, args = "return function(a,b) return a[b] end", a
	case "GetField":
		src, args = "return function(a) return a."+c10Name(asTok(c.A[1]))+" end", a[:1]
	case "SetTable", "SetFieldT":
		src, args, nret = "return function(a,b,c) a[b]=c end", a, 0
	case "SetField":
		src, args, nret = "return function(a,c) a."+c10Name(asTok(c.A[1]))+"=c end", []lua.LValue{a[0], a[2]}, 0
	case "GetGlobal":
		src, args = "return function() return "+c10Name(asTok(c.A[0]))+" end", nil
	case "SetGlobal":
		src, args, nret = "return function(c) "+c10Name(asTok(c.A[0]))+"=c end", a[1:], 0
	case "Equal":
		src, args = "return function(a,b) return a==b end", a
	case "RawEqual":
		src, args = "return function(a,b) return rawequal(a,b) end", a
	case "LessThan":
		src, args = "return function(a,b) return a<b end", a
	case "Concat":
		if len(a) == 0 { // the empty concatenation (lua_concat with n = 0): the empty string
			src = "return function() return '' end"
		} else if len(a) == 2 {
			src = "return function(a,b) return a..b end"
		} else {
			src = "return function(a,b,c) return a..b..c end"
		}
		args = a
	case "ObjLen":
		src, args = "return function(a) return #a end", a
	case "GetMetatable":
		src, args = "return function(a) return getmetatable(a) end", a
	case "RawMetatable":
		src, args = "return function(a) return debug.getmetatable(a) end", a
	case "ProtectedSet":
		src, args, nret = "return function(a,m) local r = setmetatable(a,m) return r, debug.getmetatable(a) end", a, 2
	case "ToStringMeta":
		src, args = "return function(a) return tostring(a) end", a
	case "Next":
		src, args, nret = "return function(a,b) return next(a,b) end", a, 2
	case "ForEachWalk":
		src, nret = "return function(a,f) local n=0 for k,v in pairs(a) do if n<1000 then f(k,v) end n=n+1 if n>2000 then break end end end", 0
	case "NextWalk":
		src, nret = "return function(a,f) local n=0 local k,v=next(a) while k~=nil and n<1000 do f(k,v) n=n+1 k,v=next(a,k) end end", 0
	default:
		panic("c10 harness: unknown op " + c.Op)
	}
	f := e.luaFunc(src)
	res := []interface{}{}
	if c.Op == "NextWalk" || c.Op == "ForEachWalk" {
		args = []lua.LValue{a[0], L.NewFunction(func(L *lua.LState) int {
			res = append(res, []interface{}{e.tok(L.Get(1)), e.tok(L.Get(2))})
			return 0
		})}
	}
	top := L.GetTop()
	err := L.CallByParam(lua.P{Fn: f, NRet: nret, Protect: true}, args...)
	out := map[string]interface{}{"err": err != nil, "calls": e.log}
	if err != nil {
		res = []interface{}{}
		out["errmsg"] = err.Error()
	} else {
		for i := 1; i <= nret; i++ {
			res = append(res, e.tok(L.Get(top+i)))
		}
	}
	out["res"] = res
	L.SetTop(top)
	if e.log == nil {
		out["calls"] = []interface{}{}
	}
	return out
}

func c10Obj(args []string) int {
	fs := flag.NewFlagSet("c10-obj", flag.ExitOnError)
	in := fs.String("in", "", "worlds and cases (JSON)")
	out := fs.String("out", "", "ndjson records")
	fs.Parse(args)
	var in0 struct {
		Worlds []c10World `json:"worlds"`
		Cases  []c10Case  `json:"cases"`
	}
	readJSONFile(*in, &in0)
	w := newNdWriter(*out)
	defer w.close()
	L := lua.NewState()
	defer L.Close()
	e := &c10Env{L: L, luafn: map[string]*lua.LFunction{}}
	e.strlen = L.GetField(L.GetGlobal("string"), "len")
	e.strmt = L.GetMetatable(lua.LString(""))
	e.plainF = L.NewFunction(func(L *lua.LState) int { return 0 })
	for ci := range in0.Cases {
		c := &in0.Cases[ci]
		if e.w != &in0.Worlds[c.W-1] {
			e.was = map[int]string{}
		}
		e.w = &in0.Worlds[c.W-1]
		e.ret = map[string]Tok{}
		for _, p := range e.w.Ret {
			e.ret[p[0].(string)] = asTok(p[1])
		}
		if c.Tmt == nil {
			c.Tmt = []interface{}{}
		}
		rec := map[string]interface{}{"id": c.ID, "w": c.W, "op": c.Op, "a": c.A, "gmt": c.Gmt, "tmt": c.Tmt}
		mutating := c.Op == "SetTable" || c.Op == "SetField" || c.Op == "SetGlobal" || c.Op == "ProtectedSet" || c.Op == "SetFieldT"
		e.gnames = map[string]bool{}
		if c.Op == "GetGlobal" || c.Op == "SetGlobal" {
			e.gnames[c10Name(asTok(c.A[0]))] = true
		}
		for si, side := range []string{"api", "lua"} {
			// alternate which side runs first: neither may depend on the other's leftovers
			if c.ID%2 == 1 {
				side = []string{"lua", "api"}[si]
			}
			func() {
				defer func() {
					if x := recover(); x != nil {
						rec[side] = map[string]interface{}{"crash": fmt.Sprint(x)}
						L.SetTop(0)
					}
				}()
				// the SAME operands for both sides; a mutating call gets a fresh copy of the world
				if si == 0 || mutating {
					e.cleanGlobals()
					e.build(c.Gmt)
				}
				e.setTypeMts(c.Tmt, true)
				defer e.setTypeMts(c.Tmt, false)
				var o map[string]interface{}
				if side == "api" {
					o = e.runAPI(c)
				} else {
					o = e.runLua(c)
				}
				o["post"] = e.post()
				rec[side] = o
			}()
		}
		e.cleanGlobals()
		w.write(rec)
	}
	return 0
}
