package main

// C18: replay operation histories on lists (exported by TLC from ListRef's
// state graph, or enumerated sort cases) through the real table library
// (table.insert/remove/concat/maxn/getn/sort, unpack, direct assignments) and
// record what the real code returned and the list read back afterwards, for
// validation by ListTrace.tla.  No expectation is computed here.

import (
	"flag"
	"fmt"
	"math"
	"strings"

	lua "github.com/yuin/gopher-lua"
)

func init() { subcmds["c18-run"] = c18Run }

type c18Hist struct {
	ID   int                      `json:"id"`
	Keys []int                    `json:"keys"`  // key of object id (1-based); objects exist when non-empty
	MT   bool                     `json:"mt"`    // objects share a metatable whose __lt compares .k (and logs)
	Q    string                   `json:"q"`     // "last" | "all" | "none": where the concat/unpack battery runs
	XK   []Tok                    `json:"xkeys"` // numeric keys outside the list read back after every call
	DQ   []map[string]interface{} `json:"dq"`    // digest concat queries {sepb,i,j} run where the battery runs (long lists)
	H    []map[string]interface{} `json:"h"`
}

const c18Lua = `
local rawget, rawset, select, pcall, error = rawget, rawset, select, pcall, error
function vset(t,i,v) t[i]=v end
function vrawset(t,i,v) rawset(t,i,v) end
function vlen(t) return #t end
function vrd(t,from,w,f) for i=from,from+w do f(rawget(t,i)) end end
function vidx(t,from,w,f) for i=from,from+w do f(t[i]) end end
function vfill(t,n,a,m) for k=1,n do t[k]=(a*k)%m end end
-- comparators: every call is logged with its arguments and its answer (T/F/E)
local function logged(log, f, noret)
  local cnt = 0
  return function(a,b)
    cnt = cnt + 1
    local ok, r = pcall(f, a, b, cnt)
    if not ok then log(a,b,"E") error(r,0) end
    log(a,b, r and "T" or "F")
    if noret then return end
    return r
  end
end
function mkcmp(kind, j, log)
  if kind == "ltf" then return logged(log, function(a,b) return a<b end) end
  if kind == "gt" then return logged(log, function(a,b) return a>b end) end
  if kind == "lt0" then return logged(log, function(a,b) if a<b then return 0 else return nil end end) end
  if kind == "bykey" then return logged(log, function(a,b) return a.k<b.k end) end
  if kind == "true" then return logged(log, function(a,b) return true end) end
  if kind == "false" then return logged(log, function(a,b) return false end) end
  if kind == "none" then return logged(log, function(a,b) end, true) end
  if kind == "alt" then return logged(log, function(a,b,cnt) return cnt%2==1 end) end
  if kind == "errat" then return logged(log, function(a,b,cnt) if cnt==j then error("boom") end return a<b end) end
  error("unknown comparator kind "..tostring(kind))
end
function mkmt(log) return {__lt = logged(log, function(a,b) return a.k<b.k end)} end
`

type c18Env struct {
	L      *lua.LState
	objs   *objTable
	calls  []interface{}
	ncalls int
	fn     map[string]lua.LValue
	logfn  *lua.LFunction
}

// call runs fn(args...) protected and returns all results.
func (e *c18Env) call(fn lua.LValue, args ...lua.LValue) ([]lua.LValue, error) {
	L := e.L
	top := L.GetTop()
	err := L.CallByParam(lua.P{Fn: fn, NRet: lua.MultRet, Protect: true}, args...)
	if err != nil {
		L.SetTop(top)
		return nil, err
	}
	n := L.GetTop() - top
	out := make([]lua.LValue, n)
	for i := 0; i < n; i++ {
		out[i] = L.Get(top + 1 + i)
	}
	L.SetTop(top)
	return out, nil
}

func (e *c18Env) toks(vs []lua.LValue) []interface{} {
	out := []interface{}{}
	for _, v := range vs {
		out = append(out, valueToTok(e.objs, v))
	}
	return out
}

// Numeric key tokens: ["n",i] = i, ["f",i] = i+0.5, ["p",e] = 2^e.
func c18KeyValue(t Tok) lua.LValue {
	switch t[0].(string) {
	case "n":
		return lua.LNumber(tokInt(t[1]))
	case "f":
		return lua.LNumber(float64(tokInt(t[1])) + 0.5)
	case "p":
		return lua.LNumber(math.Ldexp(1, tokInt(t[1])))
	}
	panic("bad key token " + fmt.Sprint(t))
}

func c18KeyTok(v lua.LValue) Tok {
	n, ok := v.(lua.LNumber)
	if !ok {
		return Tok{"o", v.Type().String()}
	}
	f := float64(n)
	if f == math.Trunc(f) && math.Abs(f) < 1<<31 {
		return Tok{"n", int(f)}
	}
	if f-0.5 == math.Trunc(f-0.5) && math.Abs(f) < 1<<30 {
		return Tok{"f", int(f - 0.5)}
	}
	if fr, e := math.Frexp(f); fr == 0.5 && e-1 >= 31 {
		return Tok{"p", e - 1}
	}
	return Tok{"x", fmt.Sprint(f)}
}

// c18Digest: length and two polynomial hashes of the bytes of s (what ListLib!ConcatDigest defines).
func c18Digest(s string) (int, int, int) {
	h1, h2 := 0, 0
	for i := 0; i < len(s); i++ {
		h1 = (h1*31 + int(s[i])) % 32749
		h2 = (h2*31 + int(s[i])) % 32719
	}
	return len(s), h1, h2
}

// c18Int: an integral number result as int, -1 for anything else.
func c18Int(v lua.LValue) int {
	if n, ok := v.(lua.LNumber); ok && float64(n) == float64(int(n)) {
		return int(n)
	}
	return -1
}

func c18OptArg(t Tok) lua.LValue {
	if t[0].(string) == "nil" {
		return lua.LNil
	}
	return lua.LNumber(tokInt(t[1]))
}

// c18TrimArgs drops trailing absent arguments when omit is set (f(t,sep) instead of f(t,sep,nil,nil)).
func c18TrimArgs(args []lua.LValue, min int, omit bool) []lua.LValue {
	if !omit {
		return args
	}
	n := len(args)
	for n > min && args[n-1] == lua.LNil {
		n--
	}
	return args[:n]
}

func (e *c18Env) battery(tb *lua.LTable, qa, qr []int, salt int) []interface{} {
	ln := tb.Len()
	seen := map[int]bool{}
	opts := []Tok{{"nil"}}
	for _, a := range qa {
		if !seen[a] {
			seen[a] = true
			opts = append(opts, Tok{"n", a})
		}
	}
	for _, r := range qr {
		if !seen[ln+r] {
			seen[ln+r] = true
			opts = append(opts, Tok{"n", ln + r})
		}
	}
	qs := []interface{}{}
	k := salt
	for _, i := range opts {
		for _, j := range opts {
			k++
			// concat: separator "," mostly, absent every fifth call; trailing absent args omitted or passed as nil alternately
			sep := Tok{"s", ","}
			if k%5 == 0 {
				sep = Tok{"nil"}
			}
			var sepv lua.LValue = lua.LNil
			if sep[0].(string) == "s" {
				sepv = lua.LString(",")
			}
			args := c18TrimArgs([]lua.LValue{tb, sepv, c18OptArg(i), c18OptArg(j)}, 1, k%2 == 0)
			q := map[string]interface{}{"q": "concat", "sep": sep, "i": i, "j": j, "argc": len(args)}
			r, err := e.call(e.fn["concat"], args...)
			if err != nil || len(r) != 1 {
				q["err"], q["r"] = true, Tok{"nil"}
			} else {
				q["err"], q["r"] = false, valueToTok(e.objs, r[0])
			}
			qs = append(qs, q)
			args = c18TrimArgs([]lua.LValue{tb, c18OptArg(i), c18OptArg(j)}, 1, k%2 == 1)
			u := map[string]interface{}{"q": "unpack", "i": i, "j": j, "argc": len(args)}
			r, err = e.call(e.fn["unpack"], args...)
			if err != nil {
				u["err"], u["rs"] = true, []interface{}{}
			} else {
				u["err"], u["rs"] = false, e.toks(r)
			}
			qs = append(qs, u)
		}
	}
	return qs
}

// digestQuery: table.concat(t, sep, i, j) on a long list; the result is recorded as length + hashes.
func (e *c18Env) digestQuery(tb *lua.LTable, dq map[string]interface{}) map[string]interface{} {
	sepb := dq["sepb"].([]interface{})
	b := make([]byte, len(sepb))
	for i, x := range sepb {
		b[i] = byte(tokInt(x))
	}
	i, j := asTok(dq["i"]), asTok(dq["j"])
	var sepv lua.LValue = lua.LNil
	if len(b) > 0 {
		sepv = lua.LString(string(b))
	}
	args := c18TrimArgs([]lua.LValue{tb, sepv, c18OptArg(i), c18OptArg(j)}, 1, true)
	q := map[string]interface{}{"q": "concatd", "sepb": sepb, "i": i, "j": j, "argc": len(args), "err": false, "len": 0, "h1": 0, "h2": 0}
	r, err := e.call(e.fn["concat"], args...)
	if err != nil || len(r) != 1 || r[0].Type() != lua.LTString {
		q["err"] = true
		if err != nil {
			q["msg"] = strings.SplitN(err.Error(), "\n", 2)[0]
		}
		return q
	}
	q["len"], q["h1"], q["h2"] = c18Digest(string(r[0].(lua.LString)))
	return q
}

func (e *c18Env) observe(tb *lua.LTable, ev map[string]interface{}, w int, useIndex bool, xkeys []Tok) {
	rd := []interface{}{}
	from := 0
	if n := tb.Len(); n > 1000 { // long lists: a window around the end
		from = n - 3
	}
	ev["rdfrom"] = from
	col := e.L.NewFunction(func(L *lua.LState) int {
		rd = append(rd, valueToTok(e.objs, L.Get(1)))
		return 0
	})
	name := "vrd"
	if useIndex {
		name = "vidx"
	}
	if _, err := e.call(e.L.GetGlobal(name), tb, lua.LNumber(from), lua.LNumber(w), col); err != nil {
		panic(err)
	}
	ev["rd"] = rd
	xk := []interface{}{}
	for _, k := range xkeys {
		r, err := e.call(e.L.GetGlobal("rawget"), tb, c18KeyValue(k))
		if err != nil || len(r) != 1 {
			xk = append(xk, []interface{}{k, Tok{"err"}})
		} else {
			xk = append(xk, []interface{}{k, valueToTok(e.objs, r[0])})
		}
	}
	ev["xk"] = xk
	ev["len"], ev["getn"] = -1, -1
	ev["maxn"] = Tok{"err"}
	if r, err := e.call(e.L.GetGlobal("vlen"), tb); err == nil && len(r) == 1 {
		ev["len"] = c18Int(r[0])
	}
	if r, err := e.call(e.fn["getn"], tb); err == nil && len(r) == 1 {
		ev["getn"] = c18Int(r[0])
	}
	if r, err := e.call(e.fn["maxn"], tb); err == nil && len(r) == 1 {
		ev["maxn"] = c18KeyTok(r[0])
	}
	ev["arr"] = tb.VerifShape().Array
}

func c18Run(args []string) int {
	fs := flag.NewFlagSet("c18-run", flag.ExitOnError)
	in := fs.String("in", "", "histories (JSON)")
	out := fs.String("out", "", "ndjson traces")
	fs.Parse(args)
	var in0 struct {
		W  int       `json:"W"`  // read-back window: rawget 0..W
		QA []int     `json:"QA"` // battery arguments, absolute
		QR []int     `json:"QR"` // battery arguments, relative to #t
		H  []c18Hist `json:"H"`
	}
	readJSONFile(*in, &in0)
	w := newNdWriter(*out)
	defer w.close()
	L := lua.NewState()
	defer L.Close()
	if err := L.DoString(c18Lua); err != nil {
		panic(err)
	}
	e := &c18Env{L: L, fn: map[string]lua.LValue{}}
	tabmod := L.GetGlobal("table").(*lua.LTable)
	for _, n := range []string{"insert", "remove", "concat", "sort", "getn", "maxn"} {
		e.fn[n] = tabmod.RawGetString(n)
	}
	e.fn["unpack"] = L.GetGlobal("unpack")
	e.logfn = L.NewFunction(func(L *lua.LState) int {
		e.ncalls++
		if e.ncalls > 200000 {
			L.RaiseError("c18 budget exhausted")
		}
		e.calls = append(e.calls, []interface{}{valueToTok(e.objs, L.Get(1)), valueToTok(e.objs, L.Get(2)), string(L.Get(3).(lua.LString))})
		return 0
	})
	for _, h := range in0.H {
		e.objs = newObjTable()
		if len(h.Keys) > 0 {
			var mt lua.LValue = lua.LNil
			if h.MT {
				r, err := e.call(L.GetGlobal("mkmt"), e.logfn)
				if err != nil {
					panic(err)
				}
				mt = r[0]
			}
			for id, k := range h.Keys {
				o := e.objs.get(L, id+1)
				o.RawSetString("k", lua.LNumber(k))
				if h.MT {
					L.SetMetatable(o, mt)
				}
			}
		}
		tb := L.NewTable()
		evs := []interface{}{}
		for pos, op := range h.H {
			ev := map[string]interface{}{}
			for k, v := range op {
				ev[k] = v
			}
			ev["err"] = false
			ev["res"] = []interface{}{}
			var r []lua.LValue
			var err error
			val := func() lua.LValue { return tokToValue(L, e.objs, asTok(op["v"])) }
			switch op["op"].(string) {
			case "ins_end":
				r, err = e.call(e.fn["insert"], tb, val())
			case "ins":
				r, err = e.call(e.fn["insert"], tb, lua.LNumber(tokInt(op["pos"])), val())
			case "insx": // more than three arguments
				r, err = e.call(e.fn["insert"], tb, lua.LNumber(tokInt(op["pos"])), val(), lua.LNumber(9))
			case "rem_end":
				r, err = e.call(e.fn["remove"], tb)
			case "rem":
				r, err = e.call(e.fn["remove"], tb, lua.LNumber(tokInt(op["pos"])))
			case "set":
				name := "vset"
				if (h.ID+pos)%3 == 0 {
					name = "vrawset"
				}
				ev["entry"] = name
				r, err = e.call(L.GetGlobal(name), tb, lua.LNumber(tokInt(op["i"])), val())
			case "setx":
				name := "vset"
				if (h.ID+pos)%3 == 0 {
					name = "vrawset"
				}
				ev["entry"] = name
				r, err = e.call(L.GetGlobal(name), tb, c18KeyValue(asTok(op["k"])), val())
			case "fill":
				r, err = e.call(L.GetGlobal("vfill"), tb, lua.LNumber(tokInt(op["n"])), lua.LNumber(tokInt(op["a"])), lua.LNumber(tokInt(op["m"])))
			case "sort":
				cmp := op["cmp"].(map[string]interface{})
				kind := cmp["kind"].(string)
				e.calls = []interface{}{}
				e.ncalls = 0
				if kind == "lt" || kind == "mt" {
					r, err = e.call(e.fn["sort"], tb)
				} else if kind == "ltnil" { // an explicit nil comparator
					r, err = e.call(e.fn["sort"], tb, lua.LNil)
				} else {
					j := 0
					if jv, ok := cmp["j"]; ok {
						j = tokInt(jv)
					}
					var c []lua.LValue
					c, err = e.call(L.GetGlobal("mkcmp"), lua.LString(kind), lua.LNumber(j), e.logfn)
					if err != nil {
						panic(err)
					}
					r, err = e.call(e.fn["sort"], tb, c[0])
				}
				outc := "ok"
				if err != nil {
					outc = "error"
					if ae, ok := err.(*lua.ApiError); ok && ae.Type == lua.ApiErrorPanic {
						outc = "gopanic"
					} else if strings.Contains(err.Error(), "c18 budget exhausted") {
						outc = "timeout"
					}
					ev["msg"] = err.Error()
					err = nil
				} else if len(r) != 0 {
					outc = "results"
				}
				r = nil
				ev["out"] = outc
				ev["calls"] = e.calls
			default:
				panic("unknown op " + fmt.Sprint(op["op"]))
			}
			if err != nil {
				ev["err"] = true
				ev["msg"] = err.Error()
			} else {
				ev["res"] = e.toks(r)
			}
			ev["obs"] = true
			e.observe(tb, ev, in0.W, (h.ID+pos)%4 == 1, h.XK)
			qs := []interface{}{}
			if h.Q == "all" || (h.Q == "last" && pos == len(h.H)-1) {
				if tb.Len() <= 1000 {
					qs = e.battery(tb, in0.QA, in0.QR, h.ID+pos)
				}
				for _, dq := range h.DQ {
					qs = append(qs, e.digestQuery(tb, dq))
				}
			}
			ev["q"] = qs
			evs = append(evs, ev)
		}
		keys := h.Keys
		if keys == nil {
			keys = []int{}
		}
		w.write(map[string]interface{}{"id": h.ID, "keys": keys, "ev": evs})
	}
	return 0
}
