package main

import (
	"fmt"
	"os"
)

type subcmd func(args []string) int

var subcmds = map[string]subcmd{}

func main() {
	if len(os.Args) < 2 {
		fmt.Fprintln(os.Stderr, "usage: vharness <subcommand> ...")
		os.Exit(2)
	}
	f, ok := subcmds[os.Args[1]]
	if !ok {
		fmt.Fprintln(os.Stderr, "unknown subcommand", os.Args[1])
		os.Exit(2)
	}
	os.Exit(f(os.Args[2:]))
}
