package main

// C16: text <-> value round trips.  The drivers below only move data: they
// hand byte strings / numbers / timestamps chosen by the check to the REAL
// interpreter (lexer, tonumber, arithmetic coercion, tostring, string.format
// %q, os.date, os.time) and write down what came back, in a form TLC can
// read (bytes as integer arrays, float64 as exact odd-mantissa * 2^e pairs).
// Expected values come from specs/Lexical.tla and specs/Calendar.tla.

import (
	"bytes"
	"flag"
	"fmt"
	"math"
	"os"
	"runtime"
	"sync"
	"time"

	lua "github.com/yuin/gopher-lua"
)

func init() {
	subcmds["c16-lit"] = c16Lit
	subcmds["c16-num"] = c16Num
	subcmds["c16-tnb"] = c16ToNumberBase
	subcmds["c16-q"] = c16Quote
	subcmds["c16-ts"] = c16ToString
	subcmds["c16-date"] = c16Date
}

const c16Lua = `
function r_ton(s) return tonumber(s) end
function r_tonb(s, b) return tonumber(s, b) end
function r_add(s) return s + 0 end
function r_radd(s) return 0 + s end
function r_unm(s) return -(-s) end
function r_chk(s) return math.max(s) end
-- step 0 keeps the control variable exact: Lua computes it as (init - step) + step, which rounds for a non-zero step
function r_for(s) for i = s, s, 0 do return i end end
function q_fmt(s) return string.format('%q', s) end
function q_back(q) local f, e = loadstring('return ' .. q) if not f then return false, e end return true, f() end
function ts_tostring(x) local t = tostring(x) return t, tonumber(t) == x end
function ts_concat(x) local t = x .. '' return t, tonumber(t) == x end
function ts_fmt_s(x) local t = string.format('%s', x) return t, tonumber(t) == x end
function ts_fmt_d(x) local t = string.format('%d', x) return t, tonumber(t) == x end
function d_fields(fmt, t) return os.date(fmt, t) end
function d_fmt(fmt, t) return os.date(fmt, t) end
function d_rt(fmt, t) return os.time(os.date(fmt, t)) end
function d_time(tb) return os.time(tb) end
`

func c16State() *lua.LState {
	L := lua.NewState()
	if err := L.DoString(c16Lua); err != nil {
		panic(err)
	}
	return L
}

func c16ToBytes(a []int) []byte {
	b := make([]byte, len(a))
	for i, x := range a {
		b[i] = byte(x)
	}
	return b
}

func c16FromBytes(s string) []int {
	a := make([]int, len(s))
	for i := 0; i < len(s); i++ {
		a[i] = int(s[i])
	}
	return a
}

// c16Call calls a global Lua function in protected mode; nret results.
func c16Call(L *lua.LState, name string, nret int, args ...lua.LValue) ([]lua.LValue, error) {
	top := L.GetTop()
	err := L.CallByParam(lua.P{Fn: L.GetGlobal(name), NRet: nret, Protect: true}, args...)
	if err != nil {
		L.SetTop(top)
		return nil, err
	}
	out := make([]lua.LValue, nret)
	for i := 0; i < nret; i++ {
		out[i] = L.Get(top + 1 + i)
	}
	L.SetTop(top)
	return out, nil
}

// c16NumTok renders a float64 exactly: ["v", m, e] = m * 2^e with m odd (or 0,0)
// when |m| < 2^31, otherwise the IEEE bits.
func c16NumTok(f float64) []interface{} {
	if math.IsNaN(f) {
		return []interface{}{"nan"}
	}
	if math.IsInf(f, 0) {
		if f > 0 {
			return []interface{}{"inf", 1}
		}
		return []interface{}{"inf", -1}
	}
	if f == 0 {
		return []interface{}{"v", 0, 0}
	}
	fr, ex := math.Frexp(f)
	m := int64(fr * (1 << 53))
	e := ex - 53
	for m%2 == 0 {
		m /= 2
		e++
	}
	if m < (1<<31) && m > -(1<<31) {
		return []interface{}{"v", m, e}
	}
	return []interface{}{"x", fmt.Sprintf("%016x", math.Float64bits(f))}
}

func c16ValTok(v lua.LValue) []interface{} {
	switch x := v.(type) {
	case *lua.LNilType:
		return []interface{}{"nil"}
	case lua.LNumber:
		return c16NumTok(float64(x))
	case lua.LString:
		return []interface{}{"s", c16FromBytes(string(x))}
	case lua.LBool:
		return []interface{}{"b", bool(x)}
	}
	return []interface{}{"o", v.Type().String()}
}

// c16LoadReturn compiles and runs the chunk "return <src>" and gives its first result.
func c16LoadReturn(L *lua.LState, src []byte) (res []interface{}) {
	chunk := append([]byte("return "), src...)
	fn, err := L.Load(bytes.NewReader(chunk), "=c16")
	if err != nil {
		return []interface{}{"err", "load", err.Error()}
	}
	top := L.GetTop()
	L.Push(fn)
	if err := L.PCall(0, 1, nil); err != nil {
		L.SetTop(top)
		return []interface{}{"err", "run", err.Error()}
	}
	v := L.Get(top + 1)
	L.SetTop(top)
	return c16ValTok(v)
}

// c16ParallelCases runs f(i) for i in 0..n-1 on several workers, each with its own
// interpreter; a Go panic inside one case is recorded for that case only.
func c16ParallelCases(n int, f func(L *lua.LState, i int) map[string]interface{}) []map[string]interface{} {
	out := make([]map[string]interface{}, n)
	nw := runtime.NumCPU() / 2
	if nw < 1 {
		nw = 1
	}
	if nw > 8 {
		nw = 8
	}
	var wg sync.WaitGroup
	for w := 0; w < nw; w++ {
		wg.Add(1)
		go func(w int) {
			defer wg.Done()
			L := c16State()
			for i := w; i < n; i += nw {
				func() {
					defer func() {
						if r := recover(); r != nil {
							out[i] = map[string]interface{}{"panic": fmt.Sprint(r)}
							L = c16State()
						}
					}()
					out[i] = f(L, i)
				}()
			}
			L.Close()
		}(w)
	}
	wg.Wait()
	return out
}

type c16In struct {
	Cases []struct {
		ID   int    `json:"id"`
		K    string `json:"k"`
		Src  []int  `json:"src"`
		S    []int  `json:"s"`
		Lex  bool   `json:"lex"`
		Neg  bool   `json:"neg"`
		Hi   int64  `json:"hi"`
		Lo   int64  `json:"lo"`
		M    int64  `json:"m"`
		E    int    `json:"e"`
		Bits string `json:"bits"`
		N    int64  `json:"n"`
		B    int64  `json:"b"`
		BStr bool   `json:"bstr"`
	} `json:"cases"`
	Bases []int `json:"bases"`
}

func c16IO(args []string) (*c16In, *ndWriter) {
	fs := flag.NewFlagSet("c16", flag.ExitOnError)
	in := fs.String("in", "", "input json")
	out := fs.String("out", "", "output ndjson")
	fs.Parse(args)
	var inp c16In
	readJSONFile(*in, &inp)
	return &inp, newNdWriter(*out)
}

func c16Lit(args []string) int {
	inp, w := c16IO(args)
	defer w.close()
	res := c16ParallelCases(len(inp.Cases), func(L *lua.LState, i int) map[string]interface{} {
		return map[string]interface{}{"r": c16LoadReturn(L, c16ToBytes(inp.Cases[i].Src))}
	})
	for i, r := range res {
		r["id"] = inp.Cases[i].ID
		w.write(r)
	}
	return 0
}

func c16Num(args []string) int {
	inp, w := c16IO(args)
	defer w.close()
	one := func(L *lua.LState, name string, a ...lua.LValue) []interface{} {
		r, err := c16Call(L, name, 1, a...)
		if err != nil {
			return []interface{}{"err"}
		}
		return c16ValTok(r[0])
	}
	res := c16ParallelCases(len(inp.Cases), func(L *lua.LState, i int) map[string]interface{} {
		c := inp.Cases[i]
		s := lua.LString(string(c16ToBytes(c.S)))
		m := map[string]interface{}{
			"ton":   one(L, "r_ton", s),
			"ton10": one(L, "r_tonb", s, lua.LNumber(10)),
			"add":   one(L, "r_add", s),
			"radd":  one(L, "r_radd", s),
			"unm":   one(L, "r_unm", s),
			"chk":   one(L, "r_chk", s),
			"for":   one(L, "r_for", s),
		}
		bs := make([]interface{}, len(inp.Bases))
		for j, b := range inp.Bases {
			bs[j] = one(L, "r_tonb", s, lua.LNumber(b))
		}
		m["b"] = bs
		if c.Lex {
			m["lex"] = c16LoadReturn(L, c16ToBytes(c.S))
		}
		return m
	})
	for i, r := range res {
		r["id"] = inp.Cases[i].ID
		w.write(r)
	}
	return 0
}

// c16ToNumberBase: tonumber(arg, base) with the first argument a string or a number and the base a
// number or a numeric string.
func c16ToNumberBase(args []string) int {
	inp, w := c16IO(args)
	defer w.close()
	res := c16ParallelCases(len(inp.Cases), func(L *lua.LState, i int) map[string]interface{} {
		c := inp.Cases[i]
		var arg, base lua.LValue
		if c.K == "tnn" {
			arg = lua.LNumber(c.N)
		} else {
			arg = lua.LString(string(c16ToBytes(c.S)))
		}
		if c.BStr {
			base = lua.LString(fmt.Sprint(c.B))
		} else {
			base = lua.LNumber(c.B)
		}
		r, err := c16Call(L, "r_tonb", 1, arg, base)
		if err != nil {
			return map[string]interface{}{"r": []interface{}{"err", err.Error()}}
		}
		return map[string]interface{}{"r": c16ValTok(r[0])}
	})
	for i, r := range res {
		r["id"] = inp.Cases[i].ID
		w.write(r)
	}
	return 0
}

func c16Quote(args []string) int {
	inp, w := c16IO(args)
	defer w.close()
	res := c16ParallelCases(len(inp.Cases), func(L *lua.LState, i int) map[string]interface{} {
		c := inp.Cases[i]
		m := map[string]interface{}{"k": "q", "s": c.S, "q": []int{}, "rb": false, "back": []int{}}
		r, err := c16Call(L, "q_fmt", 1, lua.LString(string(c16ToBytes(c.S))))
		if err != nil {
			m["err"] = err.Error()
			return m
		}
		q, ok := r[0].(lua.LString)
		if !ok {
			m["err"] = "string.format did not return a string"
			return m
		}
		m["q"] = c16FromBytes(string(q))
		r, err = c16Call(L, "q_back", 2, q)
		if err != nil {
			m["err"] = err.Error()
			return m
		}
		if r[0] == lua.LTrue {
			if b, ok := r[1].(lua.LString); ok {
				m["rb"] = true
				m["back"] = c16FromBytes(string(b))
			} else {
				m["err"] = "read back a " + r[1].Type().String()
			}
		} else {
			m["err"] = r[1].String()
		}
		return m
	})
	for i, r := range res {
		r["id"] = inp.Cases[i].ID
		w.write(r)
	}
	return 0
}

// c16ToString: every print path of a number, with the round trip through tonumber.
func c16ToString(args []string) int {
	inp, w := c16IO(args)
	defer w.close()
	paths := []string{"ts_tostring", "ts_concat", "ts_fmt_s", "go:String", "ts_fmt_d"}
	res := c16ParallelCases(len(inp.Cases), func(L *lua.LState, i int) map[string]interface{} {
		c := inp.Cases[i]
		var x float64
		switch c.K {
		case "ti":
			x = float64(c.Hi)*1e8 + float64(c.Lo)
			if c.Neg {
				x = -x
			}
		case "tf":
			x = math.Ldexp(float64(c.M), c.E)
		case "tr":
			var bits uint64
			fmt.Sscanf(c.Bits, "%x", &bits)
			x = math.Float64frombits(bits)
		}
		outs := []interface{}{}
		for pi, p := range paths {
			if p == "ts_fmt_d" && c.K != "ti" {
				continue
			}
			o := map[string]interface{}{"path": p, "p": pi, "text": []int{}, "rt": false}
			if p == "go:String" {
				t := lua.LNumber(x).String()
				o["text"] = c16FromBytes(t)
				r, err := c16Call(L, "r_ton", 1, lua.LString(t))
				o["rt"] = err == nil && r[0] == lua.LNumber(x)
			} else {
				r, err := c16Call(L, p, 2, lua.LNumber(x))
				if err != nil {
					o["err"] = err.Error()
				} else if t, ok := r[0].(lua.LString); ok {
					o["text"] = c16FromBytes(string(t))
					o["rt"] = r[1] == lua.LTrue
				} else {
					o["err"] = "not a string"
				}
			}
			outs = append(outs, o)
		}
		return map[string]interface{}{"outs": outs, "x": c16NumTok(x)}
	})
	for i, r := range res {
		r["id"] = inp.Cases[i].ID
		w.write(r)
	}
	return 0
}

type c16DateIn struct {
	Ts     []int64                  `json:"ts"`
	Dirs   []string                 `json:"dirs"`
	Comps  []string                 `json:"comps"`
	Fields []map[string]interface{} `json:"fields"`
}

func c16FieldsTok(v lua.LValue) interface{} {
	tb, ok := v.(*lua.LTable)
	if !ok {
		return map[string]interface{}{"_type": v.Type().String()}
	}
	m := map[string]interface{}{}
	tb.ForEach(func(k, val lua.LValue) {
		ks := k.String()
		switch x := val.(type) {
		case lua.LNumber:
			if float64(x) == math.Trunc(float64(x)) && math.Abs(float64(x)) < 1e15 {
				m[ks] = int64(x)
			} else {
				m[ks] = x.String()
			}
		case lua.LBool:
			m[ks] = bool(x)
		default:
			m[ks] = val.Type().String() + ":" + val.String()
		}
	})
	return m
}

func c16Date(args []string) int {
	fs := flag.NewFlagSet("c16-date", flag.ExitOnError)
	in := fs.String("in", "", "input json")
	out := fs.String("out", "", "output ndjson")
	fs.Parse(args)
	var inp c16DateIn
	readJSONFile(*in, &inp)
	w := newNdWriter(*out)
	defer w.close()
	zn, zo := time.Unix(0, 0).Zone()
	zn2, zo2 := time.Unix(1<<30, 0).Zone()
	w.write(map[string]interface{}{"zone": zn, "offset": zo, "zone2": zn2, "offset2": zo2, "TZ": os.Getenv("TZ")})
	str := func(L *lua.LState, f string, t int64) interface{} {
		r, err := c16Call(L, "d_fmt", 1, lua.LString(f), lua.LNumber(t))
		if err != nil {
			return []interface{}{"err", err.Error()}
		}
		if s, ok := r[0].(lua.LString); ok {
			return string(s)
		}
		return []interface{}{"o", r[0].Type().String()}
	}
	num := func(r []lua.LValue, err error) interface{} {
		if err != nil {
			return []interface{}{"err", err.Error()}
		}
		if n, ok := r[0].(lua.LNumber); ok && float64(n) == math.Trunc(float64(n)) && math.Abs(float64(n)) < 1e15 {
			return int64(n)
		}
		return []interface{}{"o", r[0].String()}
	}
	res := c16ParallelCases(len(inp.Ts), func(L *lua.LState, i int) map[string]interface{} {
		t := inp.Ts[i]
		m := map[string]interface{}{"t": t}
		for _, pre := range []string{"", "!"} {
			r, err := c16Call(L, "d_fields", 1, lua.LString(pre+"*t"), lua.LNumber(t))
			key := "lt"
			if pre == "!" {
				key = "ut"
			}
			if err != nil {
				m[key] = map[string]interface{}{"_err": err.Error()}
			} else {
				m[key] = c16FieldsTok(r[0])
			}
			d := map[string]interface{}{}
			for _, dir := range inp.Dirs {
				d[dir] = str(L, pre+"%"+dir, t)
			}
			if pre == "" {
				m["ld"] = d
			} else {
				m["ud"] = d
			}
		}
		cs := make([]interface{}, len(inp.Comps))
		for j, c := range inp.Comps {
			cs[j] = str(L, c, t)
		}
		m["comps"] = cs
		m["rt"] = num(c16Call(L, "d_rt", 1, lua.LString("*t"), lua.LNumber(t)))
		if i < len(inp.Fields) {
			f := inp.Fields[i]
			full := L.NewTable()
			part := L.NewTable()
			strs := L.NewTable()
			for _, k := range []string{"year", "month", "day", "hour", "min", "sec"} {
				v := lua.LNumber(f[k].(float64))
				full.RawSetString(k, v)
				strs.RawSetString(k, lua.LString(fmt.Sprintf("%02d", int(f[k].(float64)))))
				if k == "year" || k == "month" || k == "day" {
					part.RawSetString(k, v)
				}
			}
			full.RawSetString("isdst", lua.LFalse)
			m["fromspec"] = num(c16Call(L, "d_time", 1, full))
			m["noon"] = num(c16Call(L, "d_time", 1, part))
			m["fromstr"] = num(c16Call(L, "d_time", 1, strs))
		}
		return m
	})
	for _, r := range res {
		w.write(r)
	}
	return 0
}
