package main

// C14: drive the REAL string.find / match / gmatch / gsub of gopher-lua.
//   c14-gen    : read the reference results exported by TLC from PatternMC
//                (GEN, bounded-exhaustive scope), call the real functions for
//                every (pattern, subject, init / replacement) and report every
//                observed result that is not in the exported admissible list.
//   c14-run    : run seeded random cases and record what came back (ndjson)
//                for validation by PatternTrace.tla.
//   c14-key    : narrow case key for rejected cases (shared classifier).
//   c14-stress : robustness on large inputs (no panic / hang / crash).
// Strings are JSON arrays of byte values.  No expected result is computed here.

import (
	"bufio"
	"bytes"
	"encoding/json"
	"flag"
	"fmt"
	"math"
	"os"
	"sort"
	"strconv"
	"strings"
	"sync"
	"sync/atomic"
	"time"

	lua "github.com/yuin/gopher-lua"
)

func init() {
	subcmds["c14-gen"] = c14Gen
	subcmds["c14-run"] = c14Run
	subcmds["c14-key"] = c14Key
	subcmds["c14-stress"] = c14Stress
}

const c14Lua = `
function vgmatch(s, p, cb)
  for a,b,c,d,e,f,g,h,i,j in string.gmatch(s, p) do cb(a,b,c,d,e,f,g,h,i,j) end
end
`

type c14Env struct {
	L                         *lua.LState
	find, match, gsub, gmatch lua.LValue
	cur                       atomic.Value // description of the running case (watchdog)
	since                     atomic.Int64
}

func newC14Env() *c14Env {
	L := lua.NewState()
	if err := L.DoString(c14Lua); err != nil {
		panic(err)
	}
	str := L.GetGlobal("string")
	e := &c14Env{L: L}
	e.find = L.GetField(str, "find")
	e.match = L.GetField(str, "match")
	e.gsub = L.GetField(str, "gsub")
	e.gmatch = L.GetGlobal("vgmatch")
	return e
}

func c14Bytes(x interface{}) []byte {
	a, _ := x.([]interface{})
	b := make([]byte, len(a))
	for i, v := range a {
		b[i] = byte(tokInt(v))
	}
	return b
}

func c14Ints(b string) []interface{} {
	out := make([]interface{}, len(b))
	for i := 0; i < len(b); i++ {
		out[i] = int(b[i])
	}
	return out
}

// value -> token of the Pattern spec: ["s",bytes] / ["n",k]
func c14Val(v lua.LValue) interface{} {
	switch x := v.(type) {
	case lua.LString:
		return []interface{}{"s", c14Ints(string(x))}
	case lua.LNumber:
		if float64(x) == float64(int64(x)) {
			return []interface{}{"n", int(x)}
		}
	}
	return []interface{}{"odd", v.Type().String() + ":" + v.String()}
}

// call fn(args...) protected; returns the results or an ["err"|"panic", msg] token
func (e *c14Env) call(fn lua.LValue, args ...lua.LValue) ([]lua.LValue, []interface{}) {
	L := e.L
	top := L.GetTop()
	err := L.CallByParam(lua.P{Fn: fn, NRet: lua.MultRet, Protect: true}, args...)
	if err != nil {
		L.SetTop(top)
		kind := "err"
		if ae, ok := err.(*lua.ApiError); ok && ae.Type == lua.ApiErrorPanic {
			kind = "panic"
		}
		msg := err.Error()
		if i := strings.Index(msg, "\nstack traceback"); i >= 0 {
			msg = msg[:i]
		}
		return nil, []interface{}{kind, msg}
	}
	n := L.GetTop() - top
	out := make([]lua.LValue, n)
	for i := 0; i < n; i++ {
		out[i] = L.Get(top + 1 + i)
	}
	L.SetTop(top)
	return out, nil
}

// optional arguments from argument tokens (see Pattern!OptInteger): ["nil"] absent,
// ["xnil"] explicit nil, ["n",k], ["h",k] = k+0.5, ["str",t] decimal text of t,
// ["big",e] = 2^e, ["nbig",e] = -2^e, ["bad"] a non-numeric string, ["b",bool], ["s",bytes].
// Trailing absent arguments are not passed; an absent one before a present one is nil.
func c14ArgValue(tok interface{}) (lua.LValue, bool) {
	t, ok := tok.([]interface{})
	if !ok || len(t) == 0 {
		return lua.LNil, false
	}
	switch t[0].(string) {
	case "xnil":
		return lua.LNil, true
	case "n":
		return lua.LNumber(tokInt(t[1])), true
	case "h":
		return lua.LNumber(float64(tokInt(t[1])) + 0.5), true
	case "big":
		return lua.LNumber(math.Pow(2, float64(tokInt(t[1])))), true
	case "nbig":
		return lua.LNumber(-math.Pow(2, float64(tokInt(t[1])))), true
	case "str":
		v, _ := c14ArgValue(t[1])
		return lua.LString(strconv.FormatFloat(float64(v.(lua.LNumber)), 'f', -1, 64)), true
	case "bad":
		return lua.LString("x"), true
	case "b":
		return lua.LBool(t[1].(bool)), true
	case "s":
		return lua.LString(c14Bytes(t[1])), true
	}
	return lua.LNil, false
}

func c14OptNum(args []lua.LValue, toks ...interface{}) []lua.LValue {
	last := -1
	vals := make([]lua.LValue, len(toks))
	for i, tok := range toks {
		v, present := c14ArgValue(tok)
		vals[i] = v
		if present {
			last = i
		}
	}
	return append(args, vals[:last+1]...)
}

func c14Odd(rets []lua.LValue) []interface{} {
	vs := []interface{}{}
	for _, r := range rets {
		vs = append(vs, c14Val(r))
	}
	return []interface{}{"odd", vs}
}

// string.find(s, p [, init]) -> ["nil"] | ["m", start, end, [captures]]
func (e *c14Env) runFind(s, p []byte, init interface{}, plain ...interface{}) []interface{} {
	var pl interface{}
	if len(plain) > 0 {
		pl = plain[0]
	}
	rets, bad := e.call(e.find, c14OptNum([]lua.LValue{lua.LString(s), lua.LString(p)}, init, pl)...)
	if bad != nil {
		return bad
	}
	if len(rets) == 1 && rets[0] == lua.LNil {
		return []interface{}{"nil"}
	}
	if len(rets) >= 2 {
		a, ok1 := rets[0].(lua.LNumber)
		b, ok2 := rets[1].(lua.LNumber)
		if ok1 && ok2 {
			caps := []interface{}{}
			for _, r := range rets[2:] {
				caps = append(caps, c14Val(r))
			}
			return []interface{}{"m", int(a), int(b), caps}
		}
	}
	return c14Odd(rets)
}

// string.match(s, p [, init]) -> ["nil"] | ["none"] (no value at all) | ["m", [values]]
func (e *c14Env) runMatch(s, p []byte, init interface{}) []interface{} {
	rets, bad := e.call(e.match, c14OptNum([]lua.LValue{lua.LString(s), lua.LString(p)}, init)...)
	if bad != nil {
		return bad
	}
	if len(rets) == 0 {
		return []interface{}{"none"}
	}
	if len(rets) == 1 && rets[0] == lua.LNil {
		return []interface{}{"nil"}
	}
	vs := []interface{}{}
	for _, r := range rets {
		vs = append(vs, c14Val(r))
	}
	return []interface{}{"m", vs}
}

// for ... in string.gmatch(s, p) iterated to exhaustion -> ["g", [[values]...]]
func (e *c14Env) runGmatch(s, p []byte) []interface{} {
	items := []interface{}{}
	cb := e.L.NewFunction(func(L *lua.LState) int {
		n := L.GetTop()
		for n > 0 && L.Get(n) == lua.LNil {
			n--
		}
		vs := []interface{}{}
		for i := 1; i <= n; i++ {
			vs = append(vs, c14Val(L.Get(i)))
		}
		items = append(items, vs)
		if len(items) > 100000 {
			L.RaiseError("vharness: gmatch does not terminate")
		}
		return 0
	})
	_, bad := e.call(e.gmatch, lua.LString(s), lua.LString(p), cb)
	if bad != nil {
		return bad
	}
	return []interface{}{"g", items}
}

func (e *c14Env) mapValue(t interface{}) lua.LValue {
	a := t.([]interface{})
	switch a[0].(string) {
	case "s":
		return lua.LString(c14Bytes(a[1]))
	case "n":
		return lua.LNumber(tokInt(a[1]))
	case "b":
		return lua.LBool(a[1].(bool))
	}
	return lua.LNil
}

// string.gsub(s, p, repl [, n]) -> ["r", bytes, count, [[call args]...]]
// repl: ["s",bytes] | ["t",map] | ["f",map]; map = [[key,value]...]; the
// function replacement records its arguments and returns map[first argument].
func (e *c14Env) runGsub(s, p []byte, repl []interface{}, n interface{}) []interface{} {
	L := e.L
	calls := []interface{}{}
	var rv lua.LValue
	switch repl[0].(string) {
	case "s":
		rv = lua.LString(c14Bytes(repl[1]))
	case "n":
		rv = lua.LNumber(tokInt(repl[1]))
	default:
		tb := L.NewTable()
		for _, kv := range repl[1].([]interface{}) {
			pair := kv.([]interface{})
			tb.RawSet(e.mapValue(pair[0]), e.mapValue(pair[1]))
		}
		rv = tb
		if repl[0].(string) == "f" {
			rv = L.NewFunction(func(L *lua.LState) int {
				args := []interface{}{}
				for i := 1; i <= L.GetTop(); i++ {
					args = append(args, c14Val(L.Get(i)))
				}
				calls = append(calls, args)
				L.Push(tb.RawGet(L.Get(1)))
				return 1
			})
		}
	}
	rets, bad := e.call(e.gsub, c14OptNum([]lua.LValue{lua.LString(s), lua.LString(p), rv}, n)...)
	if bad != nil {
		return bad
	}
	if len(rets) == 2 {
		r, ok1 := rets[0].(lua.LString)
		c, ok2 := rets[1].(lua.LNumber)
		if ok1 && ok2 {
			return []interface{}{"r", c14Ints(string(r)), int(c), calls}
		}
	}
	return c14Odd(rets)
}

// one case record (fields as in PatternTrace.tla) -> observed result
func (e *c14Env) runCase(c map[string]interface{}) []interface{} {
	s, p := c14Bytes(c["s"]), c14Bytes(c["p"])
	switch c["fn"].(string) {
	case "find":
		return e.runFind(s, p, c["i"], c["pl"])
	case "match":
		return e.runMatch(s, p, c["i"])
	case "gmatch":
		return e.runGmatch(s, p)
	case "gmatchiter":
		return e.runGmatchIter(s, c14Bytes(c["s2"]), p, tokInt(c["k"]), tokInt(c["mode"]))
	case "gsub":
		return e.runGsub(s, p, c["repl"].([]interface{}), c["n"])
	}
	panic("c14: unknown fn")
}

// ---- watchdog: a case that runs longer than the deadline is a hang ---------

type c14Watch struct {
	mu    sync.Mutex
	envs  []*c14Env
	limit time.Duration
}

func (w *c14Watch) add(e *c14Env) {
	w.mu.Lock()
	w.envs = append(w.envs, e)
	w.mu.Unlock()
}

func (e *c14Env) begin(desc interface{}) {
	e.cur.Store(desc)
	e.since.Store(time.Now().UnixNano())
}

func (e *c14Env) end() { e.since.Store(0) }

// start polls; on a hang it prints {"hang": case} on stdout and exits 3
func (w *c14Watch) start() {
	go func() {
		for {
			time.Sleep(200 * time.Millisecond)
			w.mu.Lock()
			for _, e := range w.envs {
				t := e.since.Load()
				if t != 0 && time.Since(time.Unix(0, t)) > w.limit {
					b, _ := json.Marshal(map[string]interface{}{"hang": e.cur.Load()})
					fmt.Println(string(b))
					os.Exit(3)
				}
			}
			w.mu.Unlock()
		}
	}()
}

// ---- c14-run: record what the real functions return -------------------------

func c14Run(args []string) int {
	fs := flag.NewFlagSet("c14-run", flag.ExitOnError)
	in := fs.String("in", "", "cases (ndjson)")
	out := fs.String("out", "", "observations (ndjson)")
	nw := fs.Int("workers", 4, "goroutines")
	dl := fs.Int("deadline", 20, "seconds per case")
	fs.Parse(args)
	data, err := os.ReadFile(*in)
	if err != nil {
		panic(err)
	}
	lines := bytes.Split(data, []byte("\n"))
	cases := []map[string]interface{}{}
	for _, l := range lines {
		if len(bytes.TrimSpace(l)) == 0 {
			continue
		}
		var c map[string]interface{}
		if err := json.Unmarshal(l, &c); err != nil {
			panic(err)
		}
		cases = append(cases, c)
	}
	w := &c14Watch{limit: time.Duration(*dl) * time.Second}
	w.start()
	var wg sync.WaitGroup
	for k := 0; k < *nw; k++ {
		wg.Add(1)
		e := newC14Env()
		w.add(e)
		go func(k int) {
			defer wg.Done()
			for i := k; i < len(cases); i += *nw {
				e.begin(cases[i])
				cases[i]["o"] = e.runCase(cases[i])
				e.end()
			}
		}(k)
	}
	wg.Wait()
	o := newNdWriter(*out)
	for _, c := range cases {
		o.write(c)
	}
	o.close()
	return 0
}

// ---- c14-gen: compare with the reference results exported by TLC ------------

func c14Canon(v interface{}) string {
	b, err := json.Marshal(v)
	if err != nil {
		panic(err)
	}
	return string(b)
}

// obs is admissible iff it is (structurally) one of the exported results;
// an exported ["err"] stands for "any Lua error".
func c14Admits(adm []interface{}, obs []interface{}) bool {
	oc := ""
	for _, a := range adm {
		at := a.([]interface{})
		if at[0] == "err" {
			if obs[0] == "err" {
				return true
			}
			continue
		}
		if oc == "" {
			oc = c14Canon(obs)
		}
		if c14Canon(at) == oc {
			return true
		}
	}
	return false
}

type c14KeyStat struct {
	N  int                      `json:"n"`
	Ex []map[string]interface{} `json:"ex"`
}

type c14GenOut struct {
	Patterns   int                       `json:"patterns"`
	Pairs      int                       `json:"pairs"`
	Calls      int                       `json:"calls"`
	Matching   int                       `json:"calls_with_reference_match"`
	Mismatches int                       `json:"mismatches"`
	Keys       map[string]*c14KeyStat    `json:"keys"`
	Samples    []map[string]interface{}  `json:"samples"`
	ByPattern  map[string]map[string]int `json:"rejected_patterns_by_key"` // key -> pattern -> count
}

func (o *c14GenOut) merge(b *c14GenOut) {
	o.Patterns += b.Patterns
	o.Pairs += b.Pairs
	o.Calls += b.Calls
	o.Matching += b.Matching
	o.Mismatches += b.Mismatches
	for k, v := range b.Keys {
		t := o.Keys[k]
		if t == nil {
			t = &c14KeyStat{}
			o.Keys[k] = t
		}
		t.N += v.N
		for _, x := range v.Ex {
			t.Ex = c14KeepSmallest(t.Ex, x, 3)
		}
	}
	for _, s := range b.Samples {
		o.Samples = c14KeepSmallest(o.Samples, s, 6)
	}
	for k, m := range b.ByPattern {
		if o.ByPattern == nil {
			o.ByPattern = map[string]map[string]int{}
		}
		if o.ByPattern[k] == nil {
			o.ByPattern[k] = map[string]int{}
		}
		for p, n := range m {
			o.ByPattern[k][p] += n
		}
	}
}

// deterministic choice of examples: the smallest ones (by size, then text)
func c14RecLess(a, b map[string]interface{}) bool {
	la := len(a["p"].([]interface{})) + len(a["s"].([]interface{}))
	lb := len(b["p"].([]interface{})) + len(b["s"].([]interface{}))
	if la != lb {
		return la < lb
	}
	return c14Canon(a) < c14Canon(b)
}

func c14KeepSmallest(l []map[string]interface{}, r map[string]interface{}, n int) []map[string]interface{} {
	l = append(l, r)
	sort.SliceStable(l, func(i, j int) bool { return c14RecLess(l[i], l[j]) })
	if len(l) > n {
		l = l[:n]
	}
	return l
}

func (o *c14GenOut) addEx(key string, rec map[string]interface{}) {
	t := o.Keys[key]
	if t == nil {
		t = &c14KeyStat{}
		o.Keys[key] = t
	}
	t.N++
	if o.ByPattern == nil {
		o.ByPattern = map[string]map[string]int{}
	}
	if o.ByPattern[key] == nil {
		o.ByPattern[key] = map[string]int{}
	}
	if bp := o.ByPattern[key]; len(bp) < 2000 {
		bp[string(c14Bytes(rec["p"]))]++
	}
	if len(t.Ex) < 3 || c14RecLess(rec, t.Ex[len(t.Ex)-1]) {
		t.Ex = c14KeepSmallest(t.Ex, rec, 3)
	}
}

type c14Hdr struct {
	Subjects []interface{}   `json:"subjects"`
	Inits    []int           `json:"inits"`
	Io       [][]int         `json:"io"`
	Repls    []c14ReplCase   `json:"repls"`
	Nm       [][]interface{} `json:"nm"`
	NmLax    [][]interface{} `json:"nmlax"`
}

type c14ReplCase struct {
	Repl []interface{} `json:"repl"`
	N    []interface{} `json:"n"`
}

type c14GenLine struct {
	P []interface{}   `json:"p"`
	R [][]interface{} `json:"r"`
}

// TLC prints a string value with \" and \\ escapes inside double quotes
func c14Unquote(line []byte) []byte {
	line = line[1 : len(line)-1]
	line = bytes.ReplaceAll(line, []byte(`\"`), []byte(`"`))
	return bytes.ReplaceAll(line, []byte(`\\`), []byte(`\`))
}

func (e *c14Env) genPattern(h *c14Hdr, g *c14GenLine, out *c14GenOut) {
	p := c14Bytes(g.P)
	out.Patterns++
	check := func(rec map[string]interface{}, adm interface{}, obs []interface{}) {
		out.Calls++
		al := adm.([]interface{})
		if f := al[0].([]interface{}); f[0] == "m" || (f[0] == "g" && len(f[1].([]interface{})) > 0) ||
			(f[0] == "r" && tokInt(f[2]) > 0) {
			out.Matching++
			if len(p) >= 3 && (int(p[0])*7+int(p[1])*13+int(p[2])*3+len(rec["s"].([]interface{})))%101 == 5 {
				rec["o"] = obs
				out.Samples = c14KeepSmallest(out.Samples, rec, 6)
			}
		}
		if c14Admits(al, obs) {
			return
		}
		out.Mismatches++
		rec["o"] = obs
		rec["adm"] = adm
		exp := al[0].([]interface{})
		if len(al) == 2 && al[1].([]interface{})[0] == "err" {
			exp = []interface{}{"err"} // an error (or no match) is what is expected
		}
		rec["feat"] = c14FeatList(p)
		out.addEx(c14Classify(e, rec, exp, obs), rec)
	}
	for j, sj := range h.Subjects {
		s := c14Bytes(sj)
		out.Pairs++
		ent := g.R[j]
		if len(ent) == 1 {
			if tokInt(ent[0]) == 0 {
				ent = h.Nm[j]
			} else {
				ent = h.NmLax[j]
			}
		}
		F, M := ent[0].([]interface{}), ent[1].([]interface{})
		U := ent[3].([]interface{})
		for ii, init := range h.Inits {
			it := []interface{}{"n", init}
			off := h.Io[j][ii]
			e.begin(g.P)
			check(map[string]interface{}{"fn": "find", "s": sj, "p": g.P, "i": it}, F[off], e.runFind(s, p, it))
			check(map[string]interface{}{"fn": "match", "s": sj, "p": g.P, "i": it}, M[off], e.runMatch(s, p, it))
			if init == 1 { // the default of the optional argument
				no := []interface{}{"nil"}
				check(map[string]interface{}{"fn": "find", "s": sj, "p": g.P, "i": no}, F[off], e.runFind(s, p, no))
				check(map[string]interface{}{"fn": "match", "s": sj, "p": g.P, "i": no}, M[off], e.runMatch(s, p, no))
			}
			e.end()
		}
		e.begin(g.P)
		check(map[string]interface{}{"fn": "gmatch", "s": sj, "p": g.P}, ent[2], e.runGmatch(s, p))
		for k, rc := range h.Repls {
			check(map[string]interface{}{"fn": "gsub", "s": sj, "p": g.P, "repl": rc.Repl, "n": rc.N},
				U[k], e.runGsub(s, p, rc.Repl, rc.N))
		}
		e.end()
	}
}

func c14Gen(args []string) int {
	fs := flag.NewFlagSet("c14-gen", flag.ExitOnError)
	in := fs.String("in", "", "stdout of the TLC GEN run")
	out := fs.String("out", "", "result (json)")
	nw := fs.Int("workers", 4, "goroutines")
	dl := fs.Int("deadline", 20, "seconds per pattern")
	fs.Parse(args)
	f, err := os.Open(*in)
	if err != nil {
		panic(err)
	}
	defer f.Close()
	rd := bufio.NewReaderSize(f, 1<<20)
	var hdr *c14Hdr
	var pending [][]byte
	jobs := make(chan []byte, 256)
	results := make([]*c14GenOut, *nw)
	w := &c14Watch{limit: time.Duration(*dl) * time.Second}
	w.start()
	var wg sync.WaitGroup
	startWorkers := func() {
		for k := 0; k < *nw; k++ {
			wg.Add(1)
			e := newC14Env()
			w.add(e)
			res := &c14GenOut{Keys: map[string]*c14KeyStat{}}
			results[k] = res
			go func() {
				defer wg.Done()
				for raw := range jobs {
					var g c14GenLine
					if err := json.Unmarshal(raw, &g); err != nil {
						panic(err)
					}
					e.genPattern(hdr, &g, res)
				}
			}()
		}
	}
	for {
		line, err := rd.ReadBytes('\n')
		line = bytes.TrimRight(line, "\r\n")
		switch {
		case bytes.HasPrefix(line, []byte(`"hdr `)):
			hdr = &c14Hdr{}
			if e2 := json.Unmarshal(c14Unquote(line)[4:], hdr); e2 != nil {
				panic(e2)
			}
			startWorkers()
			for _, p := range pending {
				jobs <- p
			}
			pending = nil
		case bytes.HasPrefix(line, []byte(`"gen `)):
			raw := c14Unquote(line)[4:]
			if hdr == nil {
				pending = append(pending, raw)
			} else {
				jobs <- raw
			}
		}
		if err != nil {
			break
		}
	}
	if hdr == nil {
		fmt.Fprintln(os.Stderr, "c14-gen: no header line in", *in)
		return 2
	}
	close(jobs)
	wg.Wait()
	total := &c14GenOut{Keys: map[string]*c14KeyStat{}}
	for _, r := range results {
		total.merge(r)
	}
	b, _ := json.Marshal(total)
	if err := os.WriteFile(*out, b, 0o644); err != nil {
		panic(err)
	}
	return 0
}

// ---- narrow case keys ---------------------------------------------------------
// Static features of a pattern (item structure as lstrlib's classEnd sees it).
func c14Feat(p []byte) map[string]bool { return c14FeatF(p, nil) }

// keep (optional) selects the bracket sets whose features are reported
func c14FeatF(p []byte, keep func(set []byte) bool) map[string]bool {
	ft := map[string]bool{}
	at := func(i int) byte {
		if i < len(p) {
			return p[i]
		}
		return 0
	}
	caps := []bool{} // true = position capture
	open := []bool{} // true = capture not closed yet
	isq := func(c byte) bool { return c == '*' || c == '+' || c == '-' || c == '?' }
	i := 0
	if at(0) == '^' {
		ft["anchor"] = true
		i = 1
	}
	for i < len(p) {
		c := p[i]
		item := false
		switch {
		case c == '(':
			if at(i+1) == ')' {
				caps = append(caps, true)
				open = append(open, false)
				ft["poscap"] = true
				i += 2
			} else {
				caps = append(caps, false)
				open = append(open, true)
				ft["capture"] = true
				i++
			}
		case c == ')':
			for k := len(open) - 1; k >= 0; k-- {
				if open[k] {
					open[k] = false
					break
				}
			}
			i++
		case c == '%' && at(i+1) >= '0' && at(i+1) <= '9':
			ft["backref"] = true
			k := int(at(i+1)) - '1'
			if k >= 0 && k < len(caps) && caps[k] {
				ft["backref-pos"] = true
			}
			if k >= 0 && k < len(caps) && open[k] {
				ft["backref-open"] = true
			}
			i += 2
		case c == '%' && at(i+1) == 'b':
			ft["balance"] = true
			i += 4
		case c == '%' && at(i+1) == 'f':
			ft["frontier"] = true
			i += 2
		case c == '%':
			ft["class"] = true
			i += 2
			item = true
		case c == '$' && i == len(p)-1:
			ft["anchor"] = true
			i++
		case c == '[':
			ft["set"] = true
			q := i + 1
			if at(q) == '^' {
				q++
			}
			ec := q // find the closing ']' as classEnd does
			for {
				if ec >= len(p) {
					break
				}
				if p[ec] == '%' && ec+1 < len(p) {
					ec += 2
				} else {
					ec++
				}
				if at(ec) == ']' {
					break
				}
			}
			prev := ""
			end := ec + 1
			if end > len(p) {
				end = len(p)
			}
			// a set that lstrlib sees as unterminated is always reported
			use := keep == nil || ec >= len(p) || keep(p[i:end])
			for use && q < ec {
				if p[q] == '%' {
					q += 2
					prev = "class"
				} else if at(q+1) == '-' && q+2 < ec {
					if p[q+2] == '%' {
						ft["set-range-end-escape"] = true
					}
					if p[q+2] == '-' {
						ft["set-range-end-dash"] = true
					}
					q += 3
					prev = "range"
				} else {
					if p[q] == '-' && (prev == "class" || prev == "range") && q+1 < ec {
						ft["set-dash-after-"+prev] = true
					}
					q++
					prev = "lit"
				}
			}
			i = ec + 1
			item = true
		default:
			if c == '.' {
				ft["dot"] = true
			}
			i++
			item = true
		}
		if item && i < len(p) && isq(p[i]) {
			ft["quant"+string(p[i])] = true
			i++
		}
	}
	return ft
}

func c14Classify(e *c14Env, rec map[string]interface{}, exp, obs []interface{}) string {
	fn := rec["fn"].(string)
	p, s := c14Bytes(rec["p"]), c14Bytes(rec["s"])
	ft := c14Feat(p)
	if e != nil && (ft["set-dash-after-class"] || ft["set-dash-after-range"] || ft["set-range-end-escape"] || ft["set-range-end-dash"]) {
		// name only the shapes of the sets the real code really treats differently
		only := c14FeatF(p, e.setDiffers)
		for _, k := range []string{"set-dash-after-class", "set-dash-after-range", "set-range-end-escape", "set-range-end-dash"} {
			ft[k] = only[k]
		}
	}
	ok, _ := obs[0].(string)
	ek, _ := exp[0].(string)
	num := func(x interface{}) (int, bool) {
		if t, o := x.([]interface{}); o && len(t) == 2 && t[0] == "n" {
			return tokInt(t[1]), true
		}
		return 0, false
	}
	if fn == "gmatchiter" && ok == "panic" {
		return "C14:gmatch:iterator-panics-after-exhaustion"
	}
	if fn == "gsub" && ok == "err" && ek != "err" {
		// only the type rejection of the argument itself, not an error of the pattern
		if repl := rec["repl"].([]interface{}); repl[0] == "n" && len(obs) > 1 && strings.Contains(fmt.Sprint(obs[1]), "bad argument #3") {
			return "C14:gsub:number-replacement-rejected"
		}
	}
	if ok == "panic" {
		if ft["backref-pos"] {
			return "C14:pattern:backref-to-position-capture"
		}
		if ft["backref-open"] {
			return "C14:pattern:backref-to-open-capture"
		}
		return "C14:" + fn + ":go-panic"
	}
	if ok == "odd" {
		return "C14:" + fn + ":odd-result"
	}
	if e != nil {
		if k := e.argFormKey(rec, obs); k != "" {
			return k
		}
	}
	// function-level classes whose signature does not depend on the pattern
	switch fn {
	case "gmatchiter":
		if ok == "err" && ek != "err" && tokInt(rec["mode"]) == 0 {
			return "C14:gmatch:iterator-needs-state-argument"
		}
	case "match":
		if ok == "none" && (ek == "nil" || ek == "err") {
			return "C14:match:no-match-returns-no-value"
		}
	case "find":
		if len(p) == 0 {
			return "C14:find:empty-pattern-ignores-init"
		}
	case "gsub":
		if n, has := num(rec["n"]); has && n <= 0 {
			return "C14:gsub:max_n<=0"
		}
		// same number of substitutions as the reference and an escape in the
		// replacement string that the real code is known to treat differently
		if repl := rec["repl"].([]interface{}); repl[0] == "s" && ok == "r" && ek == "r" &&
			len(obs) > 2 && len(exp) > 2 && tokInt(obs[2]) == tokInt(exp[2]) {
			if k := c14ReplKey(c14Bytes(repl[1])); k != "" {
				return k
			}
		}
	}
	if fn == "find" || fn == "match" {
		if i, has := num(rec["i"]); has && i > len(s)+1 && ek == "m" && (ok == "nil" || ok == "none") {
			return "C14:" + fn + ":init-beyond-end"
		}
	}
	// pattern-level classes
	switch {
	case ft["backref-pos"]:
		return "C14:pattern:backref-to-position-capture"
	case ft["backref-open"]:
		return "C14:pattern:backref-to-open-capture"
	case ft["set-dash-after-class"] || ft["set-dash-after-range"]:
		return "C14:pattern:set-dash-after-class-or-range"
	case ft["set-range-end-escape"]:
		return "C14:pattern:set-range-end-escape"
	case ft["set-range-end-dash"]:
		return "C14:pattern:set-range-end-dash"
	case ft["frontier"]:
		return "C14:pattern:frontier"
	}
	// a '%x' escape whose single-byte membership differs from lstrlib's match_class
	if e != nil {
		for _, x := range c14Escapes(p) {
			if e.escDiffers(x) {
				return "C14:pattern:escape-membership:" + c14EscKind(x)
			}
		}
	}
	switch fn {
	case "gmatch":
		if len(p) > 0 && p[0] == '^' {
			return "C14:gmatch:caret-treated-as-anchor"
		}
	case "find", "match":
		if i, has := num(rec["i"]); has && i > len(s)+1 {
			return "C14:" + fn + ":init-beyond-end"
		}
	case "gsub":
		repl := rec["repl"].([]interface{})
		if repl[0] == "s" {
			if k := c14ReplKey(c14Bytes(repl[1])); k != "" {
				return k
			}
		} else if ek == "err" && ok == "r" {
			return "C14:gsub:invalid-replacement-value"
		}
	}
	// unknown class: one key per function and outcome relation (the features of
	// the pattern go into the description, not into the key)
	return "C14:" + fn + ":unclassified:" + ek + ">" + ok
}

// key of a replacement string with an escape outside %0-%9 / %%
func c14ReplKey(rb []byte) string {
	for i := 0; i < len(rb); i++ {
		if rb[i] == '%' {
			if i == len(rb)-1 {
				return "C14:gsub:repl-trailing-percent"
			}
			if c := rb[i+1]; c != '%' && (c < '0' || c > '9') {
				return "C14:gsub:repl-percent-nondigit"
			}
			i++
		}
	}
	return ""
}

func c14FeatList(p []byte) string {
	fl := []string{}
	for k := range c14Feat(p) {
		fl = append(fl, k)
	}
	sort.Strings(fl)
	return strings.Join(fl, "+")
}

// ---- c14-key: keys for cases rejected by PatternTrace ---------------------------
// in: ndjson of case records with "o" (observed) and "exp" (reference result)
func c14Key(args []string) int {
	fs := flag.NewFlagSet("c14-key", flag.ExitOnError)
	in := fs.String("in", "", "rejected cases (ndjson)")
	fs.Parse(args)
	data, err := os.ReadFile(*in)
	if err != nil {
		panic(err)
	}
	w := bufio.NewWriter(os.Stdout)
	defer w.Flush()
	env := newC14Env()
	for _, l := range bytes.Split(data, []byte("\n")) {
		if len(bytes.TrimSpace(l)) == 0 {
			continue
		}
		var c map[string]interface{}
		if err := json.Unmarshal(l, &c); err != nil {
			panic(err)
		}
		key := c14Classify(env, c, c["exp"].([]interface{}), c["o"].([]interface{}))
		b, _ := json.Marshal(map[string]interface{}{"id": c["id"], "key": key, "feat": c14FeatList(c14Bytes(c["p"]))})
		w.Write(b)
		w.WriteByte('\n')
	}
	return 0
}

// ---- c14-stress: large inputs; only "comes back with a value or a Lua error" ---

func c14Stress(args []string) int {
	fs := flag.NewFlagSet("c14-stress", flag.ExitOnError)
	scale := fs.Int("scale", 1, "size multiplier")
	dl := fs.Int("deadline", 60, "seconds per case")
	fs.Parse(args)
	rep := func(s string, n int) []byte { return []byte(strings.Repeat(s, n)) }
	N := 100000 * *scale
	type sc struct {
		name string
		fn   string
		s, p []byte
	}
	cases := []sc{
		{"a*:long-run", "find", rep("a", N), []byte("a*")},
		{"a-b:lazy-to-end", "find", append(rep("a", N), 'b'), []byte("a-b")},
		{".-b:no-b", "find", rep("a", 3000**scale), []byte(".-b")},
		{"[^b]*b:long", "match", append(rep("a", N), 'b'), []byte("[^b]*b")},
		{"(a+)%1:backref", "find", rep("a", 2000**scale), []byte("(a+)%1b")},
		{"%b():deep", "find", append(rep("(", N), rep(")", N)...), []byte("%b()")},
		{"%b():unclosed", "find", rep("(", 3000**scale), []byte("%b()")},
		{"a*a*a*b:poly", "find", rep("a", 120**scale), []byte("a*a*a*b")},
		{"a?^n a^n", "find", rep("a", 18), append(rep("a?", 18), rep("a", 18)...)},
		{"gsub:.:long", "gsub", rep("ab", N/10), []byte(".")},
		{"gsub:empty:long", "gsub", rep("a", N/5), []byte("")},
		{"gmatch:%a+", "gmatch", rep("ab ", N/2), []byte("%a+")},
		{"a*:beyond-recursion-cap", "find", rep("a", 1200000**scale), []byte("a*")},
		{"many-captures", "find", rep("a", 40), rep("(a)", 33)},
		{"nested-captures", "find", rep("a", 40), append(rep("(", 40), append([]byte("a"), rep(")", 40)...)...)},
	}
	e := newC14Env()
	w := &c14Watch{limit: time.Duration(*dl) * time.Second}
	w.add(e)
	w.start()
	enc := json.NewEncoder(os.Stdout)
	for _, c := range cases {
		fmt.Fprintln(os.Stderr, "begin", c.name)
		e.begin(c.name)
		t0 := time.Now()
		var o []interface{}
		switch c.fn {
		case "find":
			o = e.runFind(c.s, c.p, nil)
		case "match":
			o = e.runMatch(c.s, c.p, nil)
		case "gmatch":
			o = e.runGmatch(c.s, c.p)
		default:
			o = e.runGsub(c.s, c.p, []interface{}{"s", []interface{}{float64('x')}}, nil)
		}
		e.end()
		r := map[string]interface{}{"name": c.name, "kind": o[0], "ms": time.Since(t0).Milliseconds(),
			"slen": len(c.s), "plen": len(c.p)}
		if o[0] == "err" || o[0] == "panic" {
			r["msg"] = o[1]
		}
		enc.Encode(r)
	}
	return 0
}

// ---- attribution of a rejected case to one bracket set (keys only) ------------
// Membership of byte c in the set "[...]" as lstrlib's matchbracketclass decides
// it.  Used only to find out WHICH set of a pattern the real code treats
// differently, so that the case key names that set's shape; verdicts never
// depend on it.
func c14RefClass(c, cl byte) bool {
	in := func(lo, hi byte) bool { return c >= lo && c <= hi }
	lc := cl
	if cl >= 'A' && cl <= 'Z' {
		lc = cl + 32
	}
	var r bool
	switch lc {
	case 'a':
		r = in('a', 'z') || in('A', 'Z')
	case 'c':
		r = c < 32 || c == 127
	case 'd':
		r = in('0', '9')
	case 'l':
		r = in('a', 'z')
	case 'p':
		r = in(33, 47) || in(58, 64) || in(91, 96) || in(123, 126)
	case 's':
		r = in(9, 13) || c == 32
	case 'u':
		r = in('A', 'Z')
	case 'w':
		r = in('a', 'z') || in('A', 'Z') || in('0', '9')
	case 'x':
		r = in('0', '9') || in('a', 'f') || in('A', 'F')
	case 'z':
		r = c == 0
	default:
		return cl == c
	}
	if cl >= 'a' && cl <= 'z' {
		return r
	}
	return !r
}

func c14RefSet(set []byte, c byte) bool {
	ec := len(set) - 1
	sig := true
	q := 1
	if ec >= 1 && set[1] == '^' {
		sig = false
		q = 2
	}
	for ; q < ec; q++ {
		if set[q] == '%' {
			q++
			if q <= ec && c14RefClass(c, set[q]) {
				return sig
			}
		} else if q+1 <= ec && set[q+1] == '-' && q+2 < ec {
			q += 2
			if set[q-2] <= c && c <= set[q] {
				return sig
			}
		} else if set[q] == c {
			return sig
		}
	}
	return !sig
}

// true iff the real matcher's membership for the set differs from lstrlib's
func (e *c14Env) setDiffers(set []byte) bool {
	if len(set) < 3 || set[len(set)-1] != ']' {
		return true
	}
	for c := 0; c < 256; c++ {
		o := e.runFind([]byte{byte(c)}, set, nil)
		if o[0] != "m" && o[0] != "nil" {
			return true
		}
		if (o[0] == "m") != c14RefSet(set, byte(c)) {
			return true
		}
	}
	return false
}

// the bytes x of the '%x' escapes of a pattern (outside and inside sets);
// digits (back-references), %b and %f outside sets are not single-byte escapes
func c14Escapes(p []byte) []byte {
	out := []byte{}
	seen := map[byte]bool{}
	inset := false
	for i := 0; i < len(p); i++ {
		switch {
		case p[i] == '%' && i+1 < len(p):
			x := p[i+1]
			i++
			if !inset && (x == 'b' || x == 'f' || (x >= '0' && x <= '9')) {
				if x == 'b' {
					i += 2
				}
				continue
			}
			if !seen[x] {
				seen[x] = true
				out = append(out, x)
			}
		case p[i] == '[' && !inset:
			inset = true
			if i+1 < len(p) && p[i+1] == '^' {
				i++
			}
			if i+1 < len(p) && p[i+1] == ']' {
				i++
			}
		case p[i] == ']' && inset:
			inset = false
		}
	}
	return out
}

func c14EscKind(x byte) string {
	switch {
	case strings.IndexByte("acdlpsuwxz", x) >= 0:
		return "lower-class-letter"
	case strings.IndexByte("ACDLPSUWXZ", x) >= 0:
		return "upper-class-letter"
	case x >= 'a' && x <= 'z':
		return "lower-non-class-letter"
	case x >= 'A' && x <= 'Z':
		return "upper-non-class-letter"
	case x >= 128:
		return "high-byte"
	case x < 32 || x == 127:
		return "control-byte"
	}
	return "punctuation"
}

var c14EscCache sync.Map // byte -> bool

// true iff the real matcher's membership for "%x" (as the set "[%x]") differs from match_class
func (e *c14Env) escDiffers(x byte) bool {
	if v, ok := c14EscCache.Load(x); ok {
		return v.(bool)
	}
	d := false
	pat := []byte{'[', '%', x, ']'}
	for c := 0; c < 256 && !d; c++ {
		o := e.runFind([]byte{byte(c)}, pat, nil)
		if (o[0] != "m" && o[0] != "nil") || (o[0] == "m") != c14RefClass(byte(c), x) {
			d = true
		}
	}
	c14EscCache.Store(x, d)
	return d
}

// string.gmatch's iterator driven by hand: two iterators over s and s2 (same
// pattern) are created first and then stepped alternately k times each.
// mode 0: f() (Lua 5.1: the closure carries its own state); mode 1: f(st)
// with st = the second value gmatch returned (nil in Lua 5.1, ignored there).
// -> ["i", [calls of A], [calls of B]], a call being ["v", values] or ["end"]
func (e *c14Env) runGmatchIter(s, s2, p []byte, k, mode int) []interface{} {
	gm := e.L.GetField(e.L.GetGlobal("string"), "gmatch")
	type it struct {
		f, st lua.LValue
		out   []interface{}
	}
	its := []*it{}
	for _, subj := range [][]byte{s, s2} {
		rets, bad := e.call(gm, lua.LString(subj), lua.LString(p))
		if bad != nil {
			return bad
		}
		if len(rets) == 0 {
			return c14Odd(rets)
		}
		x := &it{f: rets[0], st: lua.LNil, out: []interface{}{}}
		if len(rets) > 1 {
			x.st = rets[1]
		}
		its = append(its, x)
	}
	for i := 0; i < k; i++ {
		for _, x := range its {
			args := []lua.LValue{}
			if mode == 1 {
				args = append(args, x.st)
			}
			rets, bad := e.call(x.f, args...)
			if bad != nil {
				return bad
			}
			n := len(rets)
			for n > 0 && rets[n-1] == lua.LNil {
				n--
			}
			if n == 0 {
				x.out = append(x.out, []interface{}{"end"})
				continue
			}
			vs := []interface{}{}
			for _, r := range rets[:n] {
				vs = append(vs, c14Val(r))
			}
			x.out = append(x.out, []interface{}{"v", vs})
		}
	}
	return []interface{}{"i", its[0].out, its[1].out}
}

// ---- attribution to the FORM of an optional argument (keys only) ---------------
// The reference reads an explicit nil like an absent argument, a numeric string
// like its number, a fraction like its truncation, +-2^e like a number beyond
// every length, and any plain flag other than nil/false like true.  If the real
// function answers differently for the given form than for that plain form,
// the case key names the argument and its form.
func c14ArgNorm(tok interface{}, plain bool) (interface{}, string) {
	t, ok := tok.([]interface{})
	if !ok || len(t) == 0 {
		return tok, ""
	}
	form := t[0].(string)
	if plain {
		switch {
		case form == "nil" || (form == "b" && t[1] == true):
			return tok, ""
		case form == "xnil" || form == "b":
			return []interface{}{"nil"}, form
		}
		return []interface{}{"b", true}, "truthy-" + form
	}
	switch form {
	case "xnil":
		return []interface{}{"nil"}, "explicit-nil"
	case "h":
		k := tokInt(t[1])
		if k < 0 {
			k++
		}
		return []interface{}{"n", k}, "fraction"
	case "big":
		return []interface{}{"n", 1 << 30}, "huge"
	case "nbig":
		return []interface{}{"n", -(1 << 30)}, "huge-negative"
	case "str":
		n, _ := c14ArgNorm(t[1], false)
		return n, "numeric-string"
	}
	return tok, ""
}

func (e *c14Env) argFormKey(rec map[string]interface{}, obs []interface{}) string {
	fn := rec["fn"].(string)
	for _, a := range []struct {
		field, name string
		plain       bool
	}{{"i", "init", false}, {"pl", "plain", true}, {"n", "limit", false}} {
		if (a.field == "n") != (fn == "gsub") || (a.field == "pl" && fn != "find") || fn == "gmatch" || fn == "gmatchiter" {
			continue
		}
		norm, form := c14ArgNorm(rec[a.field], a.plain)
		if form == "" {
			continue
		}
		alt := map[string]interface{}{}
		for k, v := range rec {
			alt[k] = v
		}
		alt[a.field] = norm
		if c14Canon(e.runCase(alt)) != c14Canon(obs) {
			return "C14:" + fn + ":" + a.name + "-given-as-" + form
		}
	}
	return ""
}
