package main

// Value tokens shared by the drivers: Lua values as JSON arrays
//   ["nil"] ["nan"] ["b",true] ["n",5] ["f",1] (=1.5) ["s","ab"] ["t",1] (object ref)
// matching the tagged tuples used by the TLA+ specifications.

import (
	"bufio"
	"encoding/json"
	"fmt"
	"math"
	"os"

	lua "github.com/yuin/gopher-lua"
)

type Tok = []interface{}

type objTable struct {
	objs map[int]*lua.LTable
	ids  map[*lua.LTable]int
}

func newObjTable() *objTable {
	return &objTable{objs: map[int]*lua.LTable{}, ids: map[*lua.LTable]int{}}
}

func (o *objTable) get(L *lua.LState, id int) *lua.LTable {
	if t, ok := o.objs[id]; ok {
		return t
	}
	t := L.NewTable()
	o.objs[id] = t
	o.ids[t] = id
	return t
}

func tokInt(x interface{}) int {
	switch v := x.(type) {
	case float64:
		return int(v)
	case int:
		return v
	case json.Number:
		i, _ := v.Int64()
		return int(i)
	}
	panic(fmt.Sprintf("tokInt: %T", x))
}

func tokToValue(L *lua.LState, o *objTable, t Tok) lua.LValue {
	switch t[0].(string) {
	case "nil":
		return lua.LNil
	case "nan":
		return lua.LNumber(math.NaN())
	case "b":
		return lua.LBool(t[1].(bool))
	case "n":
		return lua.LNumber(tokInt(t[1]))
	case "f":
		return lua.LNumber(float64(tokInt(t[1])) + 0.5)
	case "s":
		return lua.LString(t[1].(string))
	case "t":
		return o.get(L, tokInt(t[1]))
	}
	panic("bad token " + fmt.Sprint(t))
}

func valueToTok(o *objTable, v lua.LValue) Tok {
	switch x := v.(type) {
	case *lua.LNilType:
		return Tok{"nil"}
	case lua.LBool:
		return Tok{"b", bool(x)}
	case lua.LNumber:
		f := float64(x)
		if math.IsNaN(f) {
			return Tok{"nan"}
		}
		if f == math.Trunc(f) && math.Abs(f) < 1e15 {
			return Tok{"n", int(f)}
		}
		if f-0.5 == math.Trunc(f-0.5) {
			return Tok{"f", int(f - 0.5)}
		}
		return Tok{"x", fmt.Sprint(f)}
	case lua.LString:
		return Tok{"s", string(x)}
	case *lua.LTable:
		if o != nil {
			if id, ok := o.ids[x]; ok {
				return Tok{"t", id}
			}
		}
		return Tok{"t", -1}
	}
	return Tok{"o", v.Type().String()}
}

func asTok(x interface{}) Tok {
	a, ok := x.([]interface{})
	if !ok {
		panic(fmt.Sprintf("asTok: %T %v", x, x))
	}
	return a
}

func readJSONFile(path string, v interface{}) {
	f, err := os.Open(path)
	if err != nil {
		panic(err)
	}
	defer f.Close()
	dec := json.NewDecoder(bufio.NewReaderSize(f, 1<<20))
	if err := dec.Decode(v); err != nil {
		panic(err)
	}
}

type ndWriter struct {
	f *os.File
	w *bufio.Writer
}

func newNdWriter(path string) *ndWriter {
	f, err := os.Create(path)
	if err != nil {
		panic(err)
	}
	return &ndWriter{f, bufio.NewWriterSize(f, 1<<20)}
}

func (n *ndWriter) write(v interface{}) {
	b, err := json.Marshal(v)
	if err != nil {
		panic(err)
	}
	n.w.Write(b)
	n.w.WriteByte('\n')
}

func (n *ndWriter) close() {
	n.w.Flush()
	n.f.Close()
}
