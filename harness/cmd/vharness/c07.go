package main

// C07: compile source texts with the REAL front-end (parse.Parse + lua.Compile)
// and dump every (nested) FunctionProto as plain data for validation by the
// TLA+ predicate WF of module Bytecode (BytecodeTrace.tla).  Nothing is decoded
// or judged here: instruction words are only split into 16-bit halves because
// TLC integers are 32-bit.
//
//   c07-dump --in sources.ndjson --out protos.ndjson [--j N]
//
// input  line: {"id":int,"src":string}
// output line: {"t":"src","sid":id,"st":"ok|parse-error|compile-error|panic","msg":..,"np":#protos}
//              {"t":"p","sid":id,"path":"0.2.1", ...prototype fields...}   (one per prototype)

import (
	"bufio"
	"crypto/sha1"
	"encoding/hex"
	"encoding/json"
	"errors"
	"flag"
	"fmt"
	"os"
	"runtime/debug"
	"sort"
	"strings"
	"sync"
	"time"

	lua "github.com/yuin/gopher-lua"
	"github.com/yuin/gopher-lua/parse"
)

func init() {
	subcmds["c07-dump"] = c07Dump
	subcmds["c07-trace"] = c07Trace
}

type c07In struct {
	ID    int    `json:"id"`
	Src   string `json:"src"`
	Probe []int  `json:"probe,omitempty"` // c07-trace: the chunk returns a table; read these keys
}

// c07Dig is what the real run left in the table the chunk returned (plain reads, nothing judged)
type c07Dig struct {
	Count  int     `json:"cnt"`    // entries seen by a full next() traversal
	Border int     `json:"border"` // #t
	MaxKey int     `json:"maxkey"` // largest integer key seen by the traversal (0: none)
	Other  int     `json:"other"`  // keys that are not positive integers
	Probes [][]int `json:"probes"` // [key, value]; value -1: nil, -2: not an integer number
}

type c07Proto struct {
	T     string   `json:"t"`
	Sid   int      `json:"sid"`
	Path  string   `json:"path"`
	Np    int      `json:"np"`            // NumParameters
	Nup   int      `json:"nup"`           // NumUpvalues
	Nreg  int      `json:"nreg"`          // NumUsedRegisters
	Va    int      `json:"va"`            // IsVarArg
	Nline int      `json:"nline"`         // len(DbgSourcePositions)
	Hi    []int    `json:"hi"`            // Code[i] >> 16
	Lo    []int    `json:"lo"`            // Code[i] & 0xffff
	Kt    []int    `json:"kt"`            // type of Constants[i]: 0 nil, 1 bool, 2 number, 3 string, 4 other
	Ks    []string `json:"ks"`            // Constants[i] if it is a string (encoded), else ""
	Sk    []string `json:"sk"`            // VerifStringConstants()[i] (encoded)
	Pnup  []int    `json:"pnup"`          // NumUpvalues of FunctionPrototypes[i]
	Ndbg  int      `json:"ndbgup"`        // len(DbgUpvalues): only labels a wrapped NumUpvalues
	Ls    []int    `json:"ls"`            // DbgLocals[i].StartPc
	Dpc   []int    `json:"dpc,omitempty"` // c07-trace: the distinct pcs the real VM dispatched in this prototype
	Le    []int    `json:"le"`            // DbgLocals[i].EndPc (first pc at which the local is out of scope)
}

type c07Src struct {
	T   string  `json:"t"`
	Sid int     `json:"sid"`
	St  string  `json:"st"`
	Msg string  `json:"msg"`
	Np  int     `json:"np"`
	Dig *c07Dig `json:"dig,omitempty"`
}

// c07Enc keeps short identifier-like strings readable and replaces everything
// else by a digest, the same way for Constants and stringConstants, so that
// the TLA+ side compares them by plain string equality.
func c07Enc(s string) string {
	if s == "" {
		return ""
	}
	ok := len(s) <= 24
	if ok {
		for i := 0; i < len(s); i++ {
			c := s[i]
			if !(c == '_' || c == ' ' || (c >= '0' && c <= '9') || (c >= 'a' && c <= 'z') || (c >= 'A' && c <= 'Z')) {
				ok = false
				break
			}
		}
	}
	if ok {
		return s
	}
	h := sha1.Sum([]byte(s))
	return "#" + hex.EncodeToString(h[:8])
}

func c07Walk(sid int, path string, p *lua.FunctionProto, out *[]c07Proto) {
	r := c07Proto{T: "p", Sid: sid, Path: path, Np: int(p.NumParameters), Nup: int(p.NumUpvalues),
		Nreg: int(p.NumUsedRegisters), Va: int(p.IsVarArg), Nline: len(p.DbgSourcePositions), Ndbg: len(p.DbgUpvalues),
		Hi: make([]int, len(p.Code)), Lo: make([]int, len(p.Code)),
		Kt: make([]int, len(p.Constants)), Ks: make([]string, len(p.Constants)),
		Sk: []string{}, Pnup: make([]int, len(p.FunctionPrototypes))}
	r.Ls = make([]int, len(p.DbgLocals))
	r.Le = make([]int, len(p.DbgLocals))
	for i, l := range p.DbgLocals {
		r.Ls[i] = l.StartPc
		r.Le[i] = l.EndPc
	}
	for i, w := range p.Code {
		r.Hi[i] = int(w >> 16)
		r.Lo[i] = int(w & 0xffff)
	}
	for i, k := range p.Constants {
		switch v := k.(type) {
		case *lua.LNilType:
			r.Kt[i] = 0
		case lua.LBool:
			r.Kt[i] = 1
		case lua.LNumber:
			r.Kt[i] = 2
		case lua.LString:
			r.Kt[i] = 3
			r.Ks[i] = c07Enc(string(v))
		default:
			r.Kt[i] = 4
		}
	}
	for _, s := range p.VerifStringConstants() {
		r.Sk = append(r.Sk, c07Enc(s))
	}
	for i, c := range p.FunctionPrototypes {
		r.Pnup[i] = int(c.NumUpvalues)
	}
	*out = append(*out, r)
	for i, c := range p.FunctionPrototypes {
		c07Walk(sid, fmt.Sprintf("%s.%d", path, i), c, out)
	}
}

func c07One(in c07In) (st c07Src, protos []c07Proto) {
	st = c07Src{T: "src", Sid: in.ID}
	defer func() {
		if r := recover(); r != nil {
			st.St = "panic"
			st.Msg = fmt.Sprint(r)
			if len(st.Msg) > 300 {
				st.Msg = st.Msg[:300]
			}
			protos = nil
		}
	}()
	name := fmt.Sprintf("c07_%d", in.ID)
	chunk, err := parse.Parse(strings.NewReader(in.Src), name)
	if err != nil {
		st.St = "parse-error"
		st.Msg = err.Error()
		if len(st.Msg) > 300 {
			st.Msg = st.Msg[:300]
		}
		return
	}
	proto, err := lua.Compile(chunk, name)
	if err != nil {
		st.St = "compile-error"
		st.Msg = err.Error()
		if len(st.Msg) > 300 {
			st.Msg = st.Msg[:300]
		}
		return
	}
	c07Walk(in.ID, "0", proto, &protos)
	st.St = "ok"
	st.Np = len(protos)
	return
}

func c07Dump(args []string) int {
	fs := flag.NewFlagSet("c07-dump", flag.ExitOnError)
	inPath := fs.String("in", "", "ndjson of {id,src}")
	outPath := fs.String("out", "", "ndjson of source status lines and prototype dumps")
	jobs := fs.Int("j", 8, "parallel compilations")
	fs.Parse(args)
	// deeply nested sources recurse deeply in the compiler; let the Go stack grow
	debug.SetMaxStack(2 << 30)
	inf, err := os.Open(*inPath)
	if err != nil {
		fmt.Fprintln(os.Stderr, err)
		return 2
	}
	defer inf.Close()
	var ins []c07In
	sc := bufio.NewScanner(inf)
	sc.Buffer(make([]byte, 1<<20), 1<<30)
	for sc.Scan() {
		if len(sc.Bytes()) == 0 {
			continue
		}
		var in c07In
		if err := json.Unmarshal(sc.Bytes(), &in); err != nil {
			fmt.Fprintln(os.Stderr, "bad input line:", err)
			return 2
		}
		ins = append(ins, in)
	}
	if err := sc.Err(); err != nil {
		fmt.Fprintln(os.Stderr, err)
		return 2
	}
	type res struct {
		st     c07Src
		protos []c07Proto
	}
	results := make([]res, len(ins))
	var wg sync.WaitGroup
	next := make(chan int, len(ins))
	for i := range ins {
		next <- i
	}
	close(next)
	for w := 0; w < *jobs; w++ {
		wg.Add(1)
		go func() {
			defer wg.Done()
			for i := range next {
				fmt.Fprintf(os.Stderr, "begin %d\n", ins[i].ID)
				st, ps := c07One(ins[i])
				results[i] = res{st, ps}
			}
		}()
	}
	wg.Wait()
	outf, err := os.Create(*outPath)
	if err != nil {
		fmt.Fprintln(os.Stderr, err)
		return 2
	}
	bw := bufio.NewWriterSize(outf, 1<<20)
	enc := json.NewEncoder(bw)
	for _, r := range results {
		if err := enc.Encode(r.st); err != nil {
			fmt.Fprintln(os.Stderr, err)
			return 2
		}
		for _, p := range r.protos {
			if err := enc.Encode(p); err != nil {
				fmt.Fprintln(os.Stderr, err)
				return 2
			}
		}
	}
	if err := bw.Flush(); err != nil {
		fmt.Fprintln(os.Stderr, err)
		return 2
	}
	outf.Close()
	return 0
}

// ---- c07-trace: run a few programs on the REAL VM and record, per prototype, which code words
// the main loop dispatched as instructions.  mainLoopWithContext polls ctx.Done() once per
// dispatched instruction, after cf.Pc++: the word being dispatched is Pc-1 of the top frame.

type c07Ctx struct {
	L      *lua.LState
	seen   map[*lua.FunctionProto]map[int]bool
	polls  int
	budget int
	closed chan struct{}
}

func (c *c07Ctx) Deadline() (time.Time, bool)       { return time.Time{}, false }
func (c *c07Ctx) Value(key interface{}) interface{} { return nil }
func (c *c07Ctx) Err() error {
	if c.polls > c.budget {
		return errors.New("c07-trace budget")
	}
	return nil
}
func (c *c07Ctx) Done() <-chan struct{} {
	c.polls++
	if c.polls > c.budget {
		return c.closed
	}
	fr := c.L.VerifSnapshot().Frames
	if n := len(fr); n > 0 && !fr[n-1].IsG && fr[n-1].Proto != nil {
		m := c.seen[fr[n-1].Proto]
		if m == nil {
			m = map[int]bool{}
			c.seen[fr[n-1].Proto] = m
		}
		m[fr[n-1].Pc-1] = true
	}
	return nil
}

func c07TraceOne(in c07In) (st c07Src, protos []c07Proto) {
	st = c07Src{T: "src", Sid: in.ID}
	name := fmt.Sprintf("c07_%d", in.ID)
	chunk, err := parse.Parse(strings.NewReader(in.Src), name)
	if err != nil {
		st.St, st.Msg = "parse-error", err.Error()
		return
	}
	proto, err := lua.Compile(chunk, name)
	if err != nil {
		st.St, st.Msg = "compile-error", err.Error()
		return
	}
	L := lua.NewState()
	defer L.Close()
	ctx := &c07Ctx{L: L, seen: map[*lua.FunctionProto]map[int]bool{}, budget: 3000000, closed: make(chan struct{})}
	close(ctx.closed)
	L.SetContext(ctx)
	L.Push(L.NewFunctionFromProto(proto))
	st.St = "ok"
	nret := lua.MultRet
	if len(in.Probe) > 0 {
		nret = 1
	}
	if err := L.PCall(0, nret, nil); err != nil {
		st.Msg = err.Error() // how the run ended is not judged here, only what was dispatched
		if len(st.Msg) > 200 {
			st.Msg = st.Msg[:200]
		}
	} else if tb, ok := L.Get(-1).(*lua.LTable); ok && len(in.Probe) > 0 {
		d := &c07Dig{Border: tb.Len(), Probes: [][]int{}}
		toInt := func(v lua.LValue) int {
			if v == lua.LNil {
				return -1
			}
			if n, ok := v.(lua.LNumber); ok && float64(n) == float64(int(n)) {
				return int(n)
			}
			return -2
		}
		k, v := tb.Next(lua.LNil)
		for k != lua.LNil {
			d.Count++
			if n := toInt(k); n > 0 {
				if n > d.MaxKey {
					d.MaxKey = n
				}
			} else {
				d.Other++
			}
			_ = v
			k, v = tb.Next(k)
		}
		for _, key := range in.Probe {
			d.Probes = append(d.Probes, []int{key, toInt(tb.RawGetInt(key))})
		}
		st.Dig = d
	}
	c07Walk(in.ID, "0", proto, &protos)
	var walk func(p *lua.FunctionProto, path string)
	byPath := map[string]*lua.FunctionProto{}
	walk = func(p *lua.FunctionProto, path string) {
		byPath[path] = p
		for i, c := range p.FunctionPrototypes {
			walk(c, fmt.Sprintf("%s.%d", path, i))
		}
	}
	walk(proto, "0")
	for i := range protos {
		protos[i].Dpc = []int{}
		for pc := range ctx.seen[byPath[protos[i].Path]] {
			protos[i].Dpc = append(protos[i].Dpc, pc)
		}
		sort.Ints(protos[i].Dpc)
	}
	st.Np = len(protos)
	return
}

func c07Trace(args []string) int {
	fs := flag.NewFlagSet("c07-trace", flag.ExitOnError)
	inPath := fs.String("in", "", "ndjson of {id,src}")
	outPath := fs.String("out", "", "ndjson of source status lines and prototype dumps with dpc")
	fs.Parse(args)
	data, err := os.ReadFile(*inPath)
	if err != nil {
		fmt.Fprintln(os.Stderr, err)
		return 2
	}
	outf, err := os.Create(*outPath)
	if err != nil {
		fmt.Fprintln(os.Stderr, err)
		return 2
	}
	defer outf.Close()
	bw := bufio.NewWriterSize(outf, 1<<20)
	enc := json.NewEncoder(bw)
	for _, line := range strings.Split(string(data), "\n") {
		if strings.TrimSpace(line) == "" {
			continue
		}
		var in c07In
		if err := json.Unmarshal([]byte(line), &in); err != nil {
			fmt.Fprintln(os.Stderr, "bad input line:", err)
			return 2
		}
		fmt.Fprintf(os.Stderr, "begin %d\n", in.ID)
		st, ps := c07TraceOne(in)
		enc.Encode(st)
		for _, p := range ps {
			enc.Encode(p)
		}
	}
	bw.Flush()
	return 0
}
