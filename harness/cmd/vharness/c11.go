package main

// c11-chan: blocking channel operations under cancellation (real context, bounded wait).

import (
	"context"
	"encoding/json"
	"fmt"
	"os"
	"time"

	lua "github.com/yuin/gopher-lua"
)

func init() { subcmds["c11-chan"] = c11Chan }

var c11Scripts = map[string]string{
	"receive":                   `local ch = channel.make() emit("before") local ok, v = ch:receive() emit("after", ok, v) while true do end`,
	"receive_pcall":             `local ch = channel.make() emit("before") while true do pcall(function() ch:receive() end) end`,
	"select_recv":               `local ch = channel.make() emit("before") local i, v, ok = channel.select({"|<-", ch}) emit("after", i) while true do end`,
	"send":                      `local ch = channel.make() emit("before") ch:send(1) emit("after") while true do end`,
	"select_send":               `local ch = channel.make() emit("before") channel.select({"<-|", ch, 1}) emit("after") while true do end`,
	"in_coroutine":              `local ch = channel.make() emit("before") local co = coroutine.wrap(function() ch:receive() while true do end end) co() emit("after")`,
	"busy_loop":                 `emit("before") while true do end`,
	"send_buffered_full":        `local ch = channel.make(2) ch:send(1) ch:send(2) emit("before") ch:send(3) emit("after") while true do end`,
	"select_send_buffered_full": `local ch = channel.make(1) ch:send(1) emit("before") channel.select({"<-|", ch, 2}) emit("after") while true do end`,
	"receive_buffered_empty":    `local ch = channel.make(3) emit("before") ch:receive() emit("after") while true do end`,
}

func c11Chan(args []string) int {
	out := []map[string]interface{}{}
	for name, src := range c11Scripts {
		L := lua.NewState()
		ctx, cancel := context.WithCancel(context.Background())
		L.SetContext(ctx)
		emits := 0
		L.SetGlobal("emit", L.NewFunction(func(L *lua.LState) int { emits++; return 0 }))
		done := make(chan error, 1)
		go func() {
			defer func() {
				if r := recover(); r != nil {
					done <- fmt.Errorf("gopanic: %v", r)
				}
			}()
			done <- L.DoString(src)
		}()
		time.Sleep(60 * time.Millisecond)
		t0 := time.Now()
		cancel()
		rec := map[string]interface{}{"op": name}
		select {
		case err := <-done:
			rec["returned"] = true
			rec["elapsed_ms"] = time.Since(t0).Milliseconds()
			if err != nil {
				rec["err"] = err.Error()
			} else {
				rec["err"] = ""
			}
		case <-time.After(15 * time.Second):
			rec["returned"] = false
		}
		rec["emits"] = emits
		out = append(out, rec)
	}
	json.NewEncoder(os.Stdout).Encode(out)
	return 0
}
