package main

// C13: concurrent states never interfere; channels deliver once, in order.
//
//   c13-chan    N real LStates (one goroutine each) run generated channel
//               scripts on shared channels; every state logs call and return
//               of each channel operation in its own log (no cross-thread
//               clock).  When all scripts are done - or nothing has moved for
//               a quiescence window - the logs are frozen, a drainer state
//               empties every channel through the Lua API, and the per-process
//               logs are written out for ChannelTrace.tla (witness search).
//   c13-shared  N states created from ONE shared FunctionProto run corpus
//               programs concurrently while other goroutines create, compile,
//               run and close states; per-state traces, the trace of the same
//               prototype run alone and a deep snapshot of the prototype
//               before/after are written out.
//
// The binary is built with -race for this check; race reports go to stderr and
// are parsed by lib/checks/c13.py.

import (
	"context"
	"crypto/sha1"
	"encoding/hex"
	"encoding/json"
	"flag"
	"fmt"
	"math"
	"os"
	"runtime"
	"sort"
	"strings"
	"sync"
	"sync/atomic"
	"time"

	lua "github.com/yuin/gopher-lua"
	"github.com/yuin/gopher-lua/parse"
)

func init() {
	subcmds["c13-chan"] = c13Chan
	subcmds["c13-shared"] = c13Shared
	subcmds["c13-own"] = c13Own
}

// ---- channel scenarios ------------------------------------------------------

type c13Scen struct {
	ID      int      `json:"id"`
	Caps    []int    `json:"caps"`
	Ctx     bool     `json:"ctx"`   // states get a context (receive/select take the reflect.Select path)
	MkLua   bool     `json:"mklua"` // channels are made by channel.make in a Lua state
	Scripts []string `json:"scripts"`
	Drain   string   `json:"drain"`
}

type c13Entry struct {
	K string        `json:"k"`
	A []interface{} `json:"a"`
}

type c13ScenOut struct {
	ID     int          `json:"id"`
	Logs   [][]c13Entry `json:"logs"`
	Drain  []c13Entry   `json:"drain"`
	Frozen bool         `json:"frozen"` // frozen by quiescence (some script was still blocked)
	Done   []bool       `json:"done"`
	Errs   []string     `json:"errs"`
	Leaked int          `json:"leaked"`
	Ms     float64      `json:"ms"`
}

// c13Tok describes a Lua value as a token of module Channel.
func c13Tok(v lua.LValue) interface{} {
	switch x := v.(type) {
	case *lua.LNilType:
		return []interface{}{"nil"}
	case lua.LBool:
		return []interface{}{"b", bool(x)}
	case lua.LNumber:
		f := float64(x)
		if f == math.Trunc(f) && math.Abs(f) < 2147483648 {
			return []interface{}{"n", int(f)}
		}
		return []interface{}{"x", fmt.Sprint(f)}
	case lua.LString:
		return []interface{}{"s", string(x)}
	case *lua.LTable:
		if x.Metatable != lua.LNil {
			return []interface{}{"tm"}
		}
		if n, ok := x.RawGetInt(1).(lua.LNumber); ok {
			return []interface{}{"T", int(n)}
		}
		return []interface{}{"T", 0}
	case *lua.LFunction:
		return []interface{}{"fn"}
	case *lua.LUserData:
		return []interface{}{"ud"}
	case *lua.LState:
		return []interface{}{"th"}
	case lua.LChannel:
		return []interface{}{"ch"}
	}
	return []interface{}{"other", v.Type().String()}
}

type c13Run struct {
	mu     sync.Mutex
	frozen bool
	logs   [][]c13Entry
	moves  int64 // number of log entries so far (activity indicator)
}

const c13FrozenMsg = "c13-frozen"

// logger returns the host function c13log(kind, ...) of process p.
func (r *c13Run) logger(p int) lua.LGFunction {
	return func(L *lua.LState) int {
		n := L.GetTop()
		e := c13Entry{K: L.CheckString(1), A: make([]interface{}, 0, n-1)}
		for i := 2; i <= n; i++ {
			e.A = append(e.A, c13Tok(L.Get(i)))
		}
		r.mu.Lock()
		if r.frozen {
			r.mu.Unlock()
			L.RaiseError(c13FrozenMsg)
			return 0
		}
		r.logs[p] = append(r.logs[p], e)
		r.mu.Unlock()
		atomic.AddInt64(&r.moves, 1)
		return 0
	}
}

func c13Setup(L *lua.LState, chans []lua.LChannel, logf lua.LGFunction) {
	ct := L.NewTable()
	for i, ch := range chans {
		ct.RawSetInt(i+1, ch)
	}
	L.SetGlobal("C", ct)
	L.SetGlobal("c13log", L.NewFunction(logf))
	L.SetGlobal("c13ud", L.NewFunction(func(L *lua.LState) int {
		L.Push(L.NewUserData())
		return 1
	}))
	L.SetGlobal("c13yield", L.NewFunction(func(L *lua.LState) int {
		k := L.OptInt(1, 0)
		if k <= 0 {
			runtime.Gosched()
		} else {
			time.Sleep(time.Duration(k) * 20 * time.Microsecond)
		}
		return 0
	}))
}

func c13MakeChans(sc *c13Scen) ([]lua.LChannel, error) {
	chans := make([]lua.LChannel, len(sc.Caps))
	if !sc.MkLua {
		for i, c := range sc.Caps {
			chans[i] = lua.LChannel(make(chan lua.LValue, c))
		}
		return chans, nil
	}
	L := lua.NewState()
	defer L.Close()
	for i, c := range sc.Caps {
		src := fmt.Sprintf("return channel.make(%d)", c)
		if c == 0 && i%2 == 0 {
			src = "return channel.make()"
		}
		if err := L.DoString(src); err != nil {
			return nil, err
		}
		ch, ok := L.Get(-1).(lua.LChannel)
		if !ok {
			return nil, fmt.Errorf("channel.make returned %s", L.Get(-1).Type())
		}
		L.Pop(1)
		chans[i] = ch
	}
	return chans, nil
}

func c13RunScen(sc *c13Scen, quiet time.Duration) (out c13ScenOut) {
	t0 := time.Now()
	out.ID = sc.ID
	np := len(sc.Scripts)
	out.Errs = make([]string, np)
	out.Done = make([]bool, np)
	chans, err := c13MakeChans(sc)
	if err != nil {
		out.Errs = append(out.Errs, "make: "+err.Error())
		return
	}
	run := &c13Run{logs: make([][]c13Entry, np)}
	ctx, cancel := context.WithCancel(context.Background())
	defer cancel()
	states := make([]*lua.LState, np)
	fns := make([]*lua.LFunction, np)
	for p := 0; p < np; p++ {
		L := lua.NewState()
		if sc.Ctx {
			L.SetContext(ctx)
		}
		c13Setup(L, chans, run.logger(p))
		fn, err := L.LoadString(sc.Scripts[p])
		if err != nil {
			out.Errs[p] = "load: " + err.Error()
		}
		states[p], fns[p] = L, fn
	}
	start := make(chan struct{})
	var ndone int64
	fin := make([]chan struct{}, np)
	scriptErr := make([]string, np) // written by goroutine p, read after <-fin[p]
	for p := 0; p < np; p++ {
		fin[p] = make(chan struct{})
		go func(p int) {
			defer close(fin[p])
			defer atomic.AddInt64(&ndone, 1)
			<-start
			if fns[p] == nil {
				return
			}
			L := states[p]
			L.Push(fns[p])
			if err := L.PCall(0, 0, nil); err != nil {
				scriptErr[p] = err.Error()
			}
		}(p)
	}
	close(start)
	// wait: all done, or no log entry for a whole quiescence window
	last := int64(-1)
	lastMove := time.Now()
	for {
		if atomic.LoadInt64(&ndone) == int64(np) {
			break
		}
		m := atomic.LoadInt64(&run.moves) + atomic.LoadInt64(&ndone)<<32
		if m != last {
			last = m
			lastMove = time.Now()
		} else if time.Since(lastMove) > quiet {
			out.Frozen = true
			break
		}
		time.Sleep(500 * time.Microsecond)
	}
	run.mu.Lock()
	run.frozen = true
	out.Logs = make([][]c13Entry, np)
	for p := 0; p < np; p++ {
		out.Logs[p] = append([]c13Entry{}, run.logs[p]...)
	}
	run.mu.Unlock()
	for p := 0; p < np; p++ {
		select {
		case <-fin[p]:
			out.Done[p] = true
		default:
		}
	}
	// the drainer: one more state, after everything that returned
	drun := &c13Run{logs: make([][]c13Entry, 1)}
	DL := lua.NewState()
	c13Setup(DL, chans, drun.logger(0))
	if err := DL.DoString(sc.Drain); err != nil {
		out.Errs = append(out.Errs, "drain: "+err.Error())
	}
	DL.Close()
	out.Drain = drun.logs[0]
	// cleanup: wake whatever is still blocked (no close here: the race detector treats a
	// close concurrent with a send as a race of its own); a woken script stops at its
	// next log call because the logs are frozen
	cancel()
	stopWake := make(chan struct{})
	wakeDone := make(chan struct{})
	go func() {
		defer close(wakeDone)
		for {
			for _, ch := range chans {
				c := (chan lua.LValue)(ch)
				select {
				case <-c:
				default:
				}
				func() {
					defer func() { recover() }()
					select {
					case c <- lua.LNil:
					default:
					}
				}()
			}
			select {
			case <-stopWake:
				return
			case <-time.After(200 * time.Microsecond):
			}
		}
	}()
	defer func() { close(stopWake); <-wakeDone }()
	deadline := time.After(3 * time.Second)
	for p := 0; p < np; p++ {
		select {
		case <-fin[p]:
			if e := scriptErr[p]; e != "" && !strings.Contains(e, c13FrozenMsg) && out.Errs[p] == "" {
				out.Errs[p] = e
			}
			states[p].Close()
		case <-deadline:
			out.Leaked++
			deadline = time.After(time.Millisecond)
		}
	}
	out.Ms = float64(time.Since(t0).Microseconds()) / 1000
	return
}

func c13Chan(args []string) int {
	fs := flag.NewFlagSet("c13-chan", flag.ExitOnError)
	in := fs.String("in", "", "scenarios (json)")
	outp := fs.String("out", "", "logs (ndjson)")
	par := fs.Int("par", 8, "scenarios in flight")
	quietMs := fs.Int("quiet-ms", 100, "quiescence window")
	fs.Parse(args)
	var scens []c13Scen
	readJSONFile(*in, &scens)
	outs := make([]c13ScenOut, len(scens))
	var wg sync.WaitGroup
	var next int64 = -1
	for w := 0; w < *par; w++ {
		wg.Add(1)
		go func() {
			defer wg.Done()
			for {
				i := int(atomic.AddInt64(&next, 1))
				if i >= len(scens) {
					return
				}
				outs[i] = c13RunScen(&scens[i], time.Duration(*quietMs)*time.Millisecond)
			}
		}()
	}
	wg.Wait()
	w := newNdWriter(*outp)
	for i := range outs {
		w.write(outs[i])
	}
	w.close()
	return 0
}

// ---- shared prototype ---------------------------------------------------------

type c13Prog struct {
	ID  int    `json:"id"`
	Src string `json:"src"`
}

type c13Trace struct {
	Emits   []interface{} `json:"emits"`
	Outcome []interface{} `json:"outcome"`
}

type c13Variant struct {
	Ph    string   `json:"ph"` // "alone-shared", "concurrent", "lockstep"
	W     int      `json:"w"`  // the value of the global c13_which these states were given
	N     int      `json:"n"`  // how many states produced exactly this trace
	Trace c13Trace `json:"trace"`
}

type c13SharedOut struct {
	ID        int          `json:"id"`
	CompileEr string       `json:"compile_err,omitempty"`
	Seqs      []c13Trace   `json:"seqs"` // reference: c13_which = w, run alone on a PRIVATE compilation
	Conc      []c13Variant `json:"conc"` // states on the SHARED prototype (first alone, then all at once)
	NStates   int          `json:"nstates"`
	// observations of the shared prototype tree: per observation, per prototype (pre-order), one
	// fingerprint per field; validated by SharedProtoTrace.tla
	Obs       [][][]string `json:"obs"`
	ObsNames  []string     `json:"obs_names"`
	ProtoDiff string       `json:"proto_diff,omitempty"` // first difference in clear text (message only)
	ProtoSize int          `json:"proto_size"`           // prototypes in the snapshot
}

var c13ProtoFields = []string{"path", "SourceName", "LineDefined", "LastLineDefined", "NumUpvalues", "NumParameters",
	"IsVarArg", "NumUsedRegisters", "Code", "Constants", "len(FunctionPrototypes)", "DbgSourcePositions", "DbgLocals",
	"DbgCalls", "DbgUpvalues", "stringConstants", "cap(Code)", "cap(Constants)"}

// c13Snapshot is a deep, order-preserving description of a prototype tree: for every
// prototype reachable from the chunk (pre-order) the JSON text of every exported field
// and of the unexported string-constant table (hook).
func c13Snapshot(p *lua.FunctionProto, out *[][]string, path string) {
	consts := make([]string, len(p.Constants))
	for i, c := range p.Constants {
		consts[i] = c.Type().String() + ":" + c.String()
	}
	locals := make([]string, len(p.DbgLocals))
	for i, l := range p.DbgLocals {
		locals[i] = fmt.Sprintf("%s/%d/%d", l.Name, l.StartPc, l.EndPc)
	}
	calls := make([]string, len(p.DbgCalls))
	for i, c := range p.DbgCalls {
		calls[i] = fmt.Sprintf("%s/%d", c.Name, c.Pc)
	}
	fields := []interface{}{path, p.SourceName, p.LineDefined, p.LastLineDefined, p.NumUpvalues,
		p.NumParameters, p.IsVarArg, p.NumUsedRegisters, p.Code, consts, len(p.FunctionPrototypes),
		p.DbgSourcePositions, locals, calls, p.DbgUpvalues, p.VerifStringConstants(),
		cap(p.Code), cap(p.Constants)}
	row := make([]string, len(fields))
	for i, f := range fields {
		b, _ := json.Marshal(f)
		row[i] = string(b)
	}
	*out = append(*out, row)
	for i, c := range p.FunctionPrototypes {
		c13Snapshot(c, out, fmt.Sprintf("%s.%d", path, i))
	}
}

func c13Fingerprint(snap [][]string) [][]string {
	out := make([][]string, len(snap))
	for i, row := range snap {
		out[i] = make([]string, len(row))
		for j, f := range row {
			h := sha1.Sum([]byte(f))
			out[i][j] = hex.EncodeToString(h[:6])
		}
	}
	return out
}

func c13SnapDiff(before, after [][]string) string {
	if len(before) != len(after) {
		return fmt.Sprintf("prototype count %d -> %d", len(before), len(after))
	}
	for i := range before {
		for j := range before[i] {
			if j >= len(after[i]) || before[i][j] != after[i][j] {
				return fmt.Sprintf("prototype %s field %s: before %s after %s", before[i][0], c13ProtoFields[j], before[i][j], after[i][j])
			}
		}
	}
	return ""
}

// c13RunProto runs a fresh state on a function made from the shared prototype
// and records the observable trace exactly as lua-run does for a source text.
func c13RunProto(proto *lua.FunctionProto, budget int, minimize bool, which int, turn func()) (tr c13Trace) {
	res := progOut{Emits: []interface{}{}}
	// minimize: auto-growing call stack whose segments come from the package-level segmentPool
	L := lua.NewState(lua.Options{MinimizeStackMemory: minimize})
	defer L.Close()
	tk := &tokenizer{ids: map[lua.LValue]int{}}
	ctx := newDetCtx(budget, nil)
	L.SetContext(ctx)
	L.SetGlobal("c13_which", lua.LNumber(which))
	// c13_turn(): in a lock-step schedule the state hands the baton to the next state here and
	// waits for its next turn; alone (and in the free-running phase) it does nothing
	L.SetGlobal("c13_turn", L.NewFunction(func(L *lua.LState) int {
		if turn != nil {
			turn()
		}
		return 0
	}))
	L.SetGlobal("emit", L.NewFunction(func(L *lua.LState) int {
		n := L.GetTop()
		vs := make([]lua.LValue, n)
		for i := 1; i <= n; i++ {
			vs[i-1] = L.Get(i)
		}
		res.Emits = append(res.Emits, tk.toks(vs))
		return 0
	}))
	defer func() {
		if r := recover(); r != nil {
			res.Outcome = []interface{}{"gopanic", fmt.Sprint(r)}
		}
		tr = c13Trace{res.Emits, res.Outcome}
	}()
	base := L.GetTop()
	L.Push(L.NewFunctionFromProto(proto))
	err := L.PCall(0, lua.MultRet, nil)
	if err != nil {
		if ctx.fired && ctx.reason != nil && ctx.reason.Error() == "verif-budget" {
			res.Outcome = []interface{}{"budget"}
			return
		}
		if ae, ok := err.(*lua.ApiError); ok {
			if ae.Object != nil && ae.Object != lua.LNil || ae.Type == lua.ApiErrorRun {
				obj := ae.Object
				if obj == nil {
					obj = lua.LNil
				}
				res.Outcome = []interface{}{"err", tk.tok(obj), fmt.Sprint(int(ae.Type))}
				return
			}
			res.Outcome = []interface{}{"err", tk.tok(lua.LString(ae.Error())), fmt.Sprint(int(ae.Type))}
			return
		}
		res.Outcome = []interface{}{"err", tk.tok(lua.LString(err.Error())), "other"}
		return
	}
	n := L.GetTop() - base
	vs := make([]lua.LValue, n)
	for i := 0; i < n; i++ {
		vs[i] = L.Get(base + 1 + i)
	}
	res.Outcome = []interface{}{"ok", tk.toks(vs)}
	return
}

// c13Baton: exactly one of n goroutines runs at a time; the baton moves round-robin.
type c13Baton struct {
	mu    sync.Mutex
	cond  *sync.Cond
	cur   int
	alive []bool
}

func newC13Baton(n int) *c13Baton {
	b := &c13Baton{alive: make([]bool, n)}
	for i := range b.alive {
		b.alive[i] = true
	}
	b.cond = sync.NewCond(&b.mu)
	return b
}

func (b *c13Baton) next(k int) {
	for d := 1; d <= len(b.alive); d++ {
		j := (k + d) % len(b.alive)
		if b.alive[j] {
			b.cur = j
			return
		}
	}
}

func (b *c13Baton) wait(k int) {
	b.mu.Lock()
	for b.cur != k {
		b.cond.Wait()
	}
	b.mu.Unlock()
}

func (b *c13Baton) turn(k int) {
	b.mu.Lock()
	b.next(k)
	b.cond.Broadcast()
	for b.cur != k {
		b.cond.Wait()
	}
	b.mu.Unlock()
}

func (b *c13Baton) finish(k int) {
	b.mu.Lock()
	b.alive[k] = false
	b.next(k)
	b.cond.Broadcast()
	b.mu.Unlock()
}

func c13Compile(src string) (*lua.FunctionProto, error) {
	chunk, err := parse.Parse(strings.NewReader(src), "c")
	if err != nil {
		return nil, err
	}
	return lua.Compile(chunk, "c")
}

func c13TraceKey(t c13Trace) string {
	b, _ := json.Marshal(t)
	return string(b)
}

// c13Shared: programs are processed in groups; within a group every program is
// compiled ONCE, run once alone, then all programs of the group run at the same
// time, each in n states made from its one shared prototype, while churn
// goroutines create states, parse+compile+run other corpus sources and close them.
func c13Shared(args []string) int {
	fs := flag.NewFlagSet("c13-shared", flag.ExitOnError)
	in := fs.String("in", "", "programs (ndjson: id, src)")
	outp := fs.String("out", "", "results (ndjson)")
	n := fs.Int("n", 6, "states per shared prototype")
	group := fs.Int("group", 4, "programs running at the same time")
	churn := fs.Int("churn", 3, "goroutines creating/compiling/closing states meanwhile")
	budget := fs.Int("budget", 2000000, "instruction budget per run")
	fs.Parse(args)
	var progs []c13Prog
	{
		var raw []json.RawMessage
		c13ReadNdjson(*in, &raw)
		for _, r := range raw {
			var p c13Prog
			if err := json.Unmarshal(r, &p); err != nil {
				panic(err)
			}
			progs = append(progs, p)
		}
	}
	w := newNdWriter(*outp)
	defer w.close()
	for g := 0; g < len(progs); g += *group {
		hi := g + *group
		if hi > len(progs) {
			hi = len(progs)
		}
		grp := progs[g:hi]
		outs := make([]c13SharedOut, len(grp))
		protos := make([]*lua.FunctionProto, len(grp))
		snaps := make([][][][]string, len(grp)) // per program: observations of the shared prototype tree
		alone := make([]c13Trace, len(grp))
		const nwhich = 2
		// phase 1 (nothing else is running): the reference runs, each alone on a PRIVATE
		// compilation; then compile the shared prototype once, observe it, run it alone, observe
		for i, p := range grp {
			outs[i].ID = p.ID
			outs[i].NStates = *n + 1 + 4
			outs[i].ObsNames = []string{"compiled", "after the run alone", "after the concurrent runs"}
			for w := 0; w < nwhich; w++ {
				priv, err := c13Compile(p.Src)
				if err != nil {
					outs[i].CompileEr = err.Error()
					break
				}
				outs[i].Seqs = append(outs[i].Seqs, c13RunProto(priv, *budget, false, w, nil))
			}
			if outs[i].CompileEr != "" {
				continue
			}
			proto, err := c13Compile(p.Src)
			if err != nil {
				outs[i].CompileEr = err.Error()
				continue
			}
			protos[i] = proto
			var s0, s1 [][]string
			c13Snapshot(proto, &s0, "f")
			alone[i] = c13RunProto(proto, *budget, false, 0, nil)
			c13Snapshot(proto, &s1, "f")
			snaps[i] = [][][]string{s0, s1}
			outs[i].ProtoSize = len(s0)
		}
		// phase 2: everything at once; state k is given c13_which = k mod 2
		start := make(chan struct{})
		var wg sync.WaitGroup
		traces := make([][]c13Trace, len(grp))
		for i := range grp {
			if protos[i] == nil {
				continue
			}
			traces[i] = make([]c13Trace, *n)
			for k := 0; k < *n; k++ {
				wg.Add(1)
				go func(i, k int) {
					defer wg.Done()
					<-start
					if k%2 == 1 {
						runtime.Gosched()
					}
					traces[i][k] = c13RunProto(protos[i], *budget, (k/2)%2 == 1, k%nwhich, nil)
				}(i, k)
			}
		}
		var stop int32
		var cwg sync.WaitGroup
		for c := 0; c < *churn; c++ {
			cwg.Add(1)
			go func(c int) {
				defer cwg.Done()
				<-start
				for j := 0; atomic.LoadInt32(&stop) == 0; j++ {
					src := progs[(g+c*7+j)%len(progs)].Src
					switch j % 3 {
					case 0: // create + close
						L := lua.NewState(lua.Options{MinimizeStackMemory: j%2 == 0})
						L.Close()
					case 1: // compile only
						c13Compile(src)
					default: // load in a state of its own, run, close
						if proto, err := c13Compile(src); err == nil {
							c13RunProto(proto, *budget/10, j%2 == 0, j%nwhich, nil)
						}
					}
				}
			}(c)
		}
		close(start)
		wg.Wait()
		atomic.StoreInt32(&stop, 1)
		cwg.Wait()
		// phase 2b: a deterministic schedule - the states of one program run in lock step, the
		// baton moves round-robin at every c13_turn() of the script (and when a state ends)
		const nlock = 4
		lock := make([][]c13Trace, len(grp))
		for i := range grp {
			if protos[i] == nil {
				continue
			}
			lock[i] = make([]c13Trace, nlock)
			b := newC13Baton(nlock)
			var lwg sync.WaitGroup
			for k := 0; k < nlock; k++ {
				lwg.Add(1)
				go func(i, k int) {
					defer lwg.Done()
					b.wait(k)
					defer b.finish(k)
					lock[i][k] = c13RunProto(protos[i], *budget, false, k%nwhich, func() { b.turn(k) })
				}(i, k)
			}
			lwg.Wait()
		}
		// phase 3: observe the shared prototypes again, fold identical traces
		for i := range grp {
			if protos[i] == nil {
				w.write(outs[i])
				continue
			}
			var s2 [][]string
			c13Snapshot(protos[i], &s2, "f")
			snaps[i] = append(snaps[i], s2)
			for _, sn := range snaps[i] {
				outs[i].Obs = append(outs[i].Obs, c13Fingerprint(sn))
			}
			for k := 1; k < len(snaps[i]) && outs[i].ProtoDiff == ""; k++ {
				if d := c13SnapDiff(snaps[i][0], snaps[i][k]); d != "" {
					outs[i].ProtoDiff = outs[i].ObsNames[k] + ": " + d
				}
			}
			type wk struct {
				ph string
				w  int
				k  string
			}
			count := map[wk]int{}
			first := map[wk]c13Trace{}
			note := func(ph string, w int, t c13Trace) {
				k := wk{ph, w, c13TraceKey(t)}
				count[k]++
				first[k] = t
			}
			note("alone-shared", 0, alone[i])
			for k, t := range traces[i] {
				note("concurrent", k%nwhich, t)
			}
			for k, t := range lock[i] {
				note("lockstep", k%nwhich, t)
			}
			keys := make([]wk, 0, len(count))
			for k := range count {
				keys = append(keys, k)
			}
			sort.Slice(keys, func(a, b int) bool {
				if keys[a].ph != keys[b].ph {
					return keys[a].ph < keys[b].ph
				}
				if keys[a].w != keys[b].w {
					return keys[a].w < keys[b].w
				}
				return keys[a].k < keys[b].k
			})
			for _, k := range keys {
				outs[i].Conc = append(outs[i].Conc, c13Variant{k.ph, k.w, count[k], first[k]})
			}
			w.write(outs[i])
		}
	}
	return 0
}

func c13ReadNdjson(path string, out *[]json.RawMessage) {
	var lines []string
	b, err := os.ReadFile(path)
	if err != nil {
		panic(err)
	}
	lines = strings.Split(string(b), "\n")
	for _, l := range lines {
		if strings.TrimSpace(l) != "" {
			*out = append(*out, json.RawMessage(l))
		}
	}
}

// ---- ownership: which objects can a script reach? ------------------------------------

type c13OwnIn struct {
	Probe  string `json:"probe"`
	States int    `json:"states"`
}

type c13OwnObj struct {
	Path string `json:"path"`
	ID   int    `json:"id"` // identity of the Go object behind the Lua value, numbered per process
	Type string `json:"type"`
}

// c13Own runs the probe script in several states of one process.  The script walks everything
// it can reach (globals, metatables, environments, upvalues, what package.loaded holds while a
// module is loading, ...) and reports each table/function/userdata/thread through
// c13_own(path, value); the identities are written out for PerStateTrace.tla, which requires the
// states to own pairwise disjoint sets of objects.
func c13Own(args []string) int {
	fs := flag.NewFlagSet("c13-own", flag.ExitOnError)
	in := fs.String("in", "", "probe (json)")
	outp := fs.String("out", "", "identities (ndjson)")
	fs.Parse(args)
	var inp c13OwnIn
	readJSONFile(*in, &inp)
	ids := map[lua.LValue]int{}
	var keep []*lua.LState // every state stays alive so that no address is reused
	out := struct {
		States [][]c13OwnObj `json:"states"`
		Errs   []string      `json:"errs"`
	}{}
	for k := 0; k < inp.States; k++ {
		L := lua.NewState()
		keep = append(keep, L)
		var objs []c13OwnObj
		L.SetGlobal("c13_which", lua.LNumber(k))
		L.SetGlobal("c13_own", L.NewFunction(func(L *lua.LState) int {
			path := L.CheckString(1)
			v := L.Get(2)
			switch v.(type) {
			case *lua.LTable, *lua.LUserData, *lua.LFunction, *lua.LState:
				id, ok := ids[v]
				if !ok {
					id = len(ids) + 1
					ids[v] = id
				}
				objs = append(objs, c13OwnObj{path, id, v.Type().String()})
			}
			return 0
		}))
		if err := L.DoString(inp.Probe); err != nil {
			out.Errs = append(out.Errs, err.Error())
		}
		out.States = append(out.States, objs)
	}
	w := newNdWriter(*outp)
	w.write(out)
	w.close()
	for _, L := range keep {
		L.Close()
	}
	return 0
}
