package main

// lua-run: execute generated Lua programs on the real interpreter and record
// the observable trace (emit events + outcome) for validation by LuaSemTrace.
//
// Cases run in child processes (one JSON line in, one JSON line out): a Go
// fatal error (e.g. stack overflow) cannot be recovered, so the parent
// attributes a dead child to the case it had begun and restarts it.

import (
	"bufio"
	"context"
	"encoding/base64"
	"encoding/json"
	"flag"
	"fmt"
	"io"
	"math"
	"os"
	"os/exec"
	"runtime"
	"strings"
	"sync"
	"time"

	lua "github.com/yuin/gopher-lua"
)

func init() {
	subcmds["lua-run"] = luaRun
	subcmds["lua-run-child"] = luaRunChild
}

type progFault struct {
	Mode string `json:"mode"` // "oneshot": Done() is closed exactly at poll K; "cancel": from poll K on
	K    int    `json:"k"`
}

type progOpts struct {
	CallStackSize       int  `json:"css"`
	RegistrySize        int  `json:"rs"`
	RegistryMaxSize     int  `json:"rms"`
	RegistryGrowStep    int  `json:"rgs"`
	MinimizeStackMemory bool `json:"msm"`
	NoContext           bool `json:"noctx"`
	File                bool `json:"file"`    // load the source from a file named "c" (LoadFile) instead of from a string
	ParentCtx           bool `json:"parentctx"` // with thread: the creating state has a context of its own (never done) before NewThread
	Thread              bool `json:"thread"`  // run the program in a state made by NewThread, the context attached to THAT state
	Fresh               bool `json:"fresh"`   // no library is opened: running the program is the very first call on the state
	Foot                bool `json:"foot"`    // record the per-instruction register footprint of the main thread (FramesStep)
	Resumed             bool `json:"resumed"` // the program is the body of a thread that alone has the context; a context-less state drives it with Resume
}

type progIn struct {
	ID     int        `json:"id"`
	Src    string     `json:"src"`
	Budget int        `json:"budget"`
	Fault  *progFault `json:"fault,omitempty"`
	Opts   *progOpts  `json:"opts,omitempty"`
	Snap   bool       `json:"snap,omitempty"`
	// load-only mode (C08): the source is given as base64 (arbitrary bytes), loaded twice, never run
	LoadB64 string `json:"loadb64,omitempty"`
	// per-case wall-clock deadline of the parent (0: the command-line default)
	DeadlineMs int `json:"deadline_ms,omitempty"`
}

type progOut struct {
	ID          int           `json:"id"`
	Emits       []interface{} `json:"emits"`
	Outcome     []interface{} `json:"outcome"`
	Polls       int           `json:"polls"`
	Snaps       []interface{} `json:"snaps,omitempty"`
	Steps       []interface{} `json:"steps,omitempty"`       // distinct per-instruction footprint steps (opts.foot)
	After       int           `json:"after,omitempty"`       // polls observed after the fault/cancel point
	CancelSp    int           `json:"cancelsp,omitempty"`    // call depth (main thread) at the cancelling poll
	CancelEmits int           `json:"cancelemits,omitempty"` // emit events before the cancelling poll
}

// ---- deterministic context -------------------------------------------------

type detCtx struct {
	mu        sync.Mutex
	polls     int
	budget    int
	fault     *progFault
	fired     bool
	after     int
	closed    chan struct{}
	open      chan struct{}
	cancelled bool
	timedOut  bool
	onCancel  func()
	reason    error
	callback  []func()
	onPoll    func(n int)
	gen       int             // generation of the context currently attached (gswap replaces it)
	stale     []chan struct{} // Done channels of replaced generations: a replaced context is never done
	openDone  bool            // c.open has been closed
}

// ctxHandle is the context of generation gen > 0: what the host attaches with
// SetContext while the script is running.  Only the generation currently attached
// is counted, faulted and cancelled; a replaced context never becomes done.
type ctxHandle struct {
	c   *detCtx
	gen int
}

func (h *ctxHandle) Deadline() (time.Time, bool)       { return time.Time{}, false }
func (h *ctxHandle) Value(key interface{}) interface{} { return nil }
func (h *ctxHandle) Err() error                        { return h.c.errOf(h.gen) }
func (h *ctxHandle) AfterFunc(f func()) func() bool    { return h.c.AfterFunc(f) }
func (h *ctxHandle) Done() <-chan struct{} {
	ch, cbs := h.c.poll(h.gen)
	for _, f := range cbs {
		f()
	}
	return ch
}

// swap detaches the current generation and returns the context of the next one.
func (c *detCtx) swap() *ctxHandle {
	c.mu.Lock()
	defer c.mu.Unlock()
	if c.cancelled {
		return &ctxHandle{c, c.gen}
	}
	c.stale = append(c.stale, c.open)
	c.open = make(chan struct{})
	c.gen++
	return &ctxHandle{c, c.gen}
}

// closeOpen makes the attached generation's Done channel (always the same channel,
// as the context.Context contract demands) closed.  c.mu held.
func (c *detCtx) closeOpen() <-chan struct{} {
	if !c.openDone {
		c.openDone = true
		close(c.open)
	}
	return c.open
}

func (c *detCtx) errOf(gen int) error {
	c.mu.Lock()
	defer c.mu.Unlock()
	if gen != c.gen {
		return nil
	}
	return c.reason
}

type detErr struct{ msg string }

func (e detErr) Error() string { return e.msg }

func newDetCtx(budget int, fault *progFault) *detCtx {
	c := &detCtx{budget: budget, fault: fault, closed: make(chan struct{}), open: make(chan struct{})}
	close(c.closed)
	return c
}

func (c *detCtx) Deadline() (time.Time, bool)       { return time.Time{}, false }
func (c *detCtx) Value(key interface{}) interface{} { return nil }
func (c *detCtx) Err() error                        { return c.errOf(0) }

// fire marks the context done for good; it returns the callbacks registered by
// child contexts, which the caller must run AFTER releasing c.mu (they call Err()).
func (c *detCtx) fire(reason string) []func() {
	// c.mu held
	if c.reason == nil {
		c.reason = detErr{reason}
	}
	c.closeOpen()
	cbs := c.callback
	c.callback = nil
	return cbs
}

// AfterFunc lets context.WithCancel(parent) register synchronously (no goroutine).
func (c *detCtx) AfterFunc(f func()) func() bool {
	c.mu.Lock()
	defer c.mu.Unlock()
	if c.cancelled {
		f()
		return func() bool { return false }
	}
	c.callback = append(c.callback, f)
	return func() bool { return true }
}

func (c *detCtx) Done() <-chan struct{} {
	ch, cbs := c.poll(0)
	for _, f := range cbs {
		f()
	}
	return ch
}

func (c *detCtx) poll(gen int) (<-chan struct{}, []func()) {
	c.mu.Lock()
	defer c.mu.Unlock()
	if gen != c.gen {
		return c.stale[gen], nil // a replaced context: not attached any more, never done (the watchdog aside)
	}
	// Only the dispatch poll of the VM main loop is a fault/cancel point and is
	// counted; other callers (context.WithCancel in NewThread, channel
	// operations) just observe the current cancellation state.
	if pc, _, _, ok := runtime.Caller(2); !ok || !strings.HasSuffix(runtime.FuncForPC(pc).Name(), "mainLoopWithContext") {
		return c.open, nil // closed once the context is done
	}
	c.polls++
	if c.onPoll != nil {
		c.onPoll(c.polls)
	}
	if c.cancelled && (c.fault == nil || c.fault.Mode != "cancel" || c.polls < c.fault.K) {
		c.after++ // cancelled by the host (gcancel) or the watchdog
		return c.closeOpen(), nil
	}
	if c.fault != nil {
		switch c.fault.Mode {
		case "oneshot":
			if c.polls == c.fault.K {
				c.fired = true
				c.reason = detErr{"verif-fault"}
				return c.closed, nil
			}
		case "cancel":
			if c.polls >= c.fault.K {
				if c.fired {
					c.after++
				} else if c.onCancel != nil {
					c.onCancel()
				}
				c.fired = true
				c.cancelled = true
				cbs := c.fire("verif-cancel")
				return c.open, cbs
			}
		}
	}
	if c.budget > 0 && c.polls > c.budget {
		c.fired = true
		c.cancelled = true
		cbs := c.fire("verif-budget")
		return c.open, cbs
	}
	return c.open, nil
}

// ---- value tokens with first-appearance identity ------------------------------

type tokenizer struct {
	ids map[lua.LValue]int
}

func (t *tokenizer) tok(v lua.LValue) interface{} {
	switch x := v.(type) {
	case *lua.LNilType:
		return []interface{}{"nil"}
	case lua.LBool:
		return []interface{}{"b", bool(x)}
	case lua.LNumber:
		f := float64(x)
		if f == math.Trunc(f) && math.Abs(f) < 2147483648 {
			return []interface{}{"n", int(f)}
		}
		return []interface{}{"x", fmt.Sprint(f)}
	case lua.LString:
		b := []byte(string(x))
		a := make([]int, len(b))
		for i, c := range b {
			a[i] = int(c)
		}
		return []interface{}{"s", a}
	}
	id, ok := t.ids[v]
	if !ok {
		id = len(t.ids) + 1
		t.ids[v] = id
	}
	return []interface{}{"o", v.Type().String(), id}
}

func (t *tokenizer) toks(vs []lua.LValue) []interface{} {
	out := make([]interface{}, len(vs))
	for i, v := range vs {
		out[i] = t.tok(v)
	}
	return out
}

// ---- running one program --------------------------------------------------------

// loadOnly classifies what loading the bytes does: "ok" (a function), "syntax" (an
// error classified as syntax/compile error), or anything else, which no reading of C08 admits.
func loadOnly(p progIn) (res progOut) {
	res.ID = p.ID
	res.Emits = []interface{}{}
	src, err := base64.StdEncoding.DecodeString(p.LoadB64)
	if err != nil {
		res.Outcome = []interface{}{"load", "badinput", ""}
		return
	}
	one := func() (class string, msg string) {
		defer func() {
			if r := recover(); r != nil {
				class, msg = "gopanic", fmt.Sprint(r)
			}
		}()
		L := lua.NewState(lua.Options{SkipOpenLibs: true})
		defer L.Close()
		fn, err := L.LoadString(string(src))
		if err == nil {
			if fn == nil {
				return "nil-function", ""
			}
			return "ok", ""
		}
		if ae, ok := err.(*lua.ApiError); ok && ae.Type == lua.ApiErrorSyntax {
			return "syntax", ae.Error()
		}
		return "other-error", err.Error()
	}
	c1, m1 := one()
	c2, m2 := one()
	same := c1 == c2 && m1 == m2
	if len(m1) > 200 {
		m1 = m1[:200]
	}
	res.Outcome = []interface{}{"load", c1, m1, same}
	return
}

func runProgram(p progIn) (res progOut) {
	if p.LoadB64 != "" || p.Src == "" && p.Budget == -1 {
		return loadOnly(p)
	}
	res.ID = p.ID
	res.Emits = []interface{}{}
	opts := lua.Options{}
	if p.Opts != nil {
		opts.CallStackSize = p.Opts.CallStackSize
		opts.RegistrySize = p.Opts.RegistrySize
		opts.RegistryMaxSize = p.Opts.RegistryMaxSize
		opts.RegistryGrowStep = p.Opts.RegistryGrowStep
		opts.MinimizeStackMemory = p.Opts.MinimizeStackMemory
		opts.SkipOpenLibs = p.Opts.Fresh
	}
	L := lua.NewState(opts)
	defer L.Close()
	tk := &tokenizer{ids: map[lua.LValue]int{}}
	budget := p.Budget
	if budget == 0 {
		budget = 2000000
	}
	ctx := newDetCtx(budget, p.Fault)
	R := L // the state that runs the program
	if p.Opts != nil && (p.Opts.Thread || p.Opts.Resumed) {
		if p.Opts.ParentCtx {
			// the thread inherits a base context from its creator and then gets one of its own: from then on only
			// its own context counts, for itself and for every coroutine it creates
			L.SetContext(context.Background())
		}
		R, _ = L.NewThread()
	}
	if p.Opts == nil || !p.Opts.NoContext {
		R.SetContext(ctx)
	}
	// wall-clock safety net (loops inside coroutines are not seen by the poll budget)
	wd := time.AfterFunc(6*time.Second, func() {
		ctx.mu.Lock()
		ctx.timedOut = true
		ctx.fired = true
		ctx.cancelled = true
		cbs := ctx.fire("verif-budget")
		for i, ch := range ctx.stale { // whatever still listens to a replaced context must end too
			close(ch)
			ctx.stale[i] = ctx.closed
		}
		ctx.mu.Unlock()
		for _, f := range cbs {
			f()
		}
	})
	defer wd.Stop()
	if p.Opts != nil && p.Opts.Foot {
		ft := newFootTracker(R)
		ctx.onPoll = func(n int) { ft.step() }
		defer func() { res.Steps = ft.steps }()
	}
	ctx.onCancel = func() {
		res.CancelSp = R.VerifSnapshot().Sp
		res.CancelEmits = len(res.Emits)
	}
	L.SetGlobal("emit", L.NewFunction(func(L *lua.LState) int {
		n := L.GetTop()
		vs := make([]lua.LValue, n)
		for i := 1; i <= n; i++ {
			vs[i-1] = L.Get(i)
		}
		res.Emits = append(res.Emits, tk.toks(vs))
		if len(res.Emits) > 4000 {
			// runaway program: stop it (the run is reported as "budget", i.e. inconclusive)
			ctx.mu.Lock()
			ctx.timedOut = true
			ctx.fired = true
			ctx.cancelled = true
			cbs := ctx.fire("verif-budget")
			ctx.mu.Unlock()
			for _, f := range cbs {
				f()
			}
			L.RaiseError("verif-budget: too many events")
		}
		return 0
	}))
	L.SetGlobal("gret", L.NewFunction(func(L *lua.LState) int {
		k := L.CheckInt(1)
		n := L.GetTop()
		for i := 0; i < k; i++ {
			if 2+i <= n {
				L.Push(L.Get(2 + i))
			} else {
				L.Push(lua.LNil)
			}
		}
		return k
	}))
	L.SetGlobal("gcall", L.NewFunction(func(L *lua.LState) int {
		n := L.GetTop()
		if n == 0 {
			L.RaiseError("gcall: function expected")
		}
		base := L.GetTop()
		for i := 1; i <= n; i++ {
			L.Push(L.Get(i))
		}
		L.Call(n-1, lua.MultRet)
		return L.GetTop() - base
	}))
	L.SetGlobal("gcancel", L.NewFunction(func(L *lua.LState) int {
		// the host cancels the context while the script is running (possibly inside a coroutine)
		ctx.mu.Lock()
		first := !ctx.cancelled
		ctx.fired = true
		ctx.cancelled = true
		cbs := ctx.fire("verif-cancel")
		ctx.mu.Unlock()
		if first && ctx.onCancel != nil {
			ctx.onCancel()
		}
		for _, f := range cbs {
			f()
		}
		return 0
	}))
	L.SetGlobal("gswap", L.NewFunction(func(L *lua.LState) int {
		// the host replaces the context attached to the running state (a tighter deadline, say):
		// from now on only the new context can become done
		if p.Opts == nil || !p.Opts.NoContext {
			R.SetContext(ctx.swap())
		}
		return 0
	}))
	// glimit(n): the specification's call-depth limit; the real limit is Options.CallStackSize, and programs that use
	// glimit recurse without bound, so they meet whichever limit is in force
	L.SetGlobal("glimit", L.NewFunction(func(L *lua.LState) int { L.CheckNumber(1); return 0 }))
	L.SetGlobal("ghuge", lua.LNumber(math.Inf(1))) // the specification's name for "more than any run gets to count"
	L.SetGlobal("gerr", L.NewFunction(func(L *lua.LState) int {
		L.RaiseError("%s", L.CheckString(1)) // a host function failing the ordinary way
		return 0
	}))
	L.SetGlobal("gpanic", L.NewFunction(func(L *lua.LState) int {
		panic(L.CheckString(1)) // a Go panic inside a host function
	}))
	L.SetGlobal("snap", L.NewFunction(func(L *lua.LState) int {
		if len(res.Snaps) < 120 { // loops: the first iterations are enough
			res.Snaps = append(res.Snaps, snapRecord(L, L.OptInt(1, 0), "lua"))
		}
		return 0
	}))
	registerHostFunctions(L, &res, tk, ctx)
	defer func() {
		res.Polls = ctx.polls
		res.After = ctx.after
		if r := recover(); r != nil {
			res.Outcome = []interface{}{"gopanic", fmt.Sprint(r)}
		}
	}()
	var fn *lua.LFunction
	var err error
	if p.Opts != nil && p.Opts.File {
		dir, derr := os.MkdirTemp("", "verif-c17-")
		if derr != nil {
			panic(derr)
		}
		defer os.RemoveAll(dir)
		if werr := os.WriteFile(dir+"/c", []byte(p.Src), 0o644); werr != nil {
			panic(werr)
		}
		cwd, _ := os.Getwd()
		os.Chdir(dir)
		fn, err = R.LoadFile("c")
		os.Chdir(cwd)
	} else {
		fn, err = R.Load(strings.NewReader(p.Src), "c")
	}
	if err != nil {
		res.Outcome = []interface{}{"loaderr", err.Error()}
		return
	}
	base := R.GetTop()
	if p.Snap {
		res.Snaps = append(res.Snaps, snapRecord(R, -1, "go-before"))
	}
	if p.Opts != nil && p.Opts.Resumed {
		// L (no context) resumes R (the only state with the context) until the body has finished
		if p.Snap {
			res.Snaps = append(res.Snaps, snapRecord(L, -1, "go-before"))
		}
		st, rerr, vals := L.Resume(R, fn)
		if p.Snap { // the resumer after a resume that ended in a yield (or at once): nothing of the transfer may stay on its stack
			res.Snaps = append(res.Snaps, snapRecord(L, -1, "go-after"))
		}
		nyield := 0
		for rerr == nil && st == lua.ResumeYield {
			nyield++
			res.Emits = append(res.Emits, tk.toks(append([]lua.LValue{lua.LString("yielded")}, vals...)))
			st, rerr, vals = L.Resume(R, fn, lua.LNumber(100+nyield), lua.LNumber(200+nyield))
			if p.Snap && nyield < 40 {
				res.Snaps = append(res.Snaps, snapRecord(L, 7, "lua"))
			}
		}
		if rerr == nil {
			res.Outcome = []interface{}{"ok", tk.toks(vals)}
			return
		}
		err = rerr
		goto failed
	}
	R.Push(fn)
	err = R.PCall(0, lua.MultRet, nil)
	if p.Snap {
		res.Snaps = append(res.Snaps, snapRecord(R, -1, "go-after"))
	}
failed:
	if err != nil {
		if ctx.timedOut || (ctx.fired && ctx.reason != nil && ctx.reason.Error() == "verif-budget") {
			// "cancelled": the planned/host cancellation had made the context done before the
			// safety net ended the run; "never-done": the script was merely long-running
			why := "never-done"
			if ctx.reason != nil && ctx.reason.Error() == "verif-cancel" {
				why = "cancelled"
			}
			res.Outcome = []interface{}{"budget", why}
			return
		}
		if ae, ok := err.(*lua.ApiError); ok {
			if ae.Object != nil && ae.Object != lua.LNil || ae.Type == lua.ApiErrorRun {
				obj := ae.Object
				if obj == nil {
					obj = lua.LNil
				}
				res.Outcome = []interface{}{"err", tk.tok(obj), fmt.Sprint(int(ae.Type))}
				return
			}
			res.Outcome = []interface{}{"err", tk.tok(lua.LString(ae.Error())), fmt.Sprint(int(ae.Type))}
			return
		}
		res.Outcome = []interface{}{"err", tk.tok(lua.LString(err.Error())), "other"}
		return
	}
	n := R.GetTop() - base
	vs := make([]lua.LValue, n)
	for i := 0; i < n; i++ {
		vs[i] = R.Get(base + 1 + i)
	}
	res.Outcome = []interface{}{"ok", tk.toks(vs)}
	return
}

// snapRecord copies the control skeleton of L (accessor built with -tags verif).
func snapRecord(L *lua.LState, tag int, where string) map[string]interface{} {
	s := L.VerifSnapshot()
	frames := []interface{}{}
	for _, f := range s.Frames {
		frames = append(frames, []int{f.Base, f.LocalBase, f.ReturnBase, f.NArgs, f.NRet, boolInt(f.IsG), f.TailCall})
	}
	open := []int{}
	for _, u := range s.Open {
		if !u.Closed {
			open = append(open, u.Index)
		}
	}
	return map[string]interface{}{"tag": tag, "at": where, "sp": s.Sp, "top": s.Top, "frames": frames, "open": open,
		"panicdflt": s.PanicIsDflt, "herr": s.HasErrorFunc, "dead": s.Dead, "cur": s.IsCurrent, "parent": s.HasParent}
}

func boolInt(b bool) int {
	if b {
		return 1
	}
	return 0
}

// registerHostFunctions is extended by other drivers (snapshots, host faults).
var hostRegistrars []func(L *lua.LState, res *progOut, tk *tokenizer, ctx *detCtx)

func registerHostFunctions(L *lua.LState, res *progOut, tk *tokenizer, ctx *detCtx) {
	for _, f := range hostRegistrars {
		f(L, res, tk, ctx)
	}
}

// ---- child: one JSON program per line in, one JSON result per line out ------------

func luaRunChild(args []string) int {
	// an input that makes the interpreter allocate without end must not take the machine down: the child gives up
	// (the parent records the case as 'crash')
	go func() {
		var ms runtime.MemStats
		for {
			time.Sleep(200 * time.Millisecond)
			runtime.ReadMemStats(&ms)
			if ms.HeapAlloc > 8<<30 {
				os.Exit(3)
			}
		}
	}()
	// a child whose parent is gone (the check was killed or timed out while a program of a broken tree spins for ever)
	// must not stay behind and eat a core: it ends as soon as it has been re-parented
	parent := os.Getppid()
	go func() {
		for {
			time.Sleep(2 * time.Second)
			if os.Getppid() != parent {
				os.Exit(4)
			}
		}
	}()
	in := bufio.NewReaderSize(os.Stdin, 1<<20)
	out := bufio.NewWriter(os.Stdout)
	for {
		line, err := in.ReadBytes('\n')
		if len(line) > 0 {
			var p progIn
			if e := json.Unmarshal(line, &p); e != nil {
				fmt.Fprintln(os.Stderr, "bad input:", e)
				return 2
			}
			r := runProgram(p)
			b, _ := json.Marshal(r)
			out.Write(b)
			out.WriteByte('\n')
			out.Flush()
		}
		if err != nil {
			return 0
		}
	}
}

// ---- parent -------------------------------------------------------------------------

type childProc struct {
	cmd    *exec.Cmd
	stdin  io.WriteCloser
	stdout *bufio.Reader
}

func caseDeadline(p progIn, dflt time.Duration) time.Duration {
	if p.DeadlineMs > 0 {
		return time.Duration(p.DeadlineMs) * time.Millisecond
	}
	return dflt
}

func startChild() *childProc {
	cmd := exec.Command(os.Args[0], "lua-run-child")
	stdin, _ := cmd.StdinPipe()
	stdout, _ := cmd.StdoutPipe()
	cmd.Stderr = io.Discard
	if err := cmd.Start(); err != nil {
		panic(err)
	}
	return &childProc{cmd, stdin, bufio.NewReaderSize(stdout, 1<<20)}
}

func (c *childProc) kill() {
	c.stdin.Close()
	c.cmd.Process.Kill()
	c.cmd.Wait()
}

func luaRun(args []string) int {
	fs := flag.NewFlagSet("lua-run", flag.ExitOnError)
	in := fs.String("in", "", "programs (ndjson)")
	outp := fs.String("out", "", "results (ndjson)")
	par := fs.Int("p", 12, "parallel children")
	deadline := fs.Duration("deadline", 20*time.Second, "per-case wall-clock deadline")
	fs.Parse(args)
	f, err := os.Open(*in)
	if err != nil {
		panic(err)
	}
	defer f.Close()
	var lines [][]byte
	rd := bufio.NewReaderSize(f, 1<<20)
	for {
		line, err := rd.ReadBytes('\n')
		if len(strings.TrimSpace(string(line))) > 0 {
			lines = append(lines, line)
		}
		if err != nil {
			break
		}
	}
	results := make([][]byte, len(lines))
	var wg sync.WaitGroup
	next := 0
	var mu sync.Mutex
	for w := 0; w < *par; w++ {
		wg.Add(1)
		go func() {
			defer wg.Done()
			var ch *childProc
			defer func() {
				if ch != nil {
					ch.kill()
				}
			}()
			for {
				mu.Lock()
				i := next
				next++
				mu.Unlock()
				if i >= len(lines) {
					return
				}
				if ch == nil {
					ch = startChild()
				}
				line := lines[i]
				if line[len(line)-1] != '\n' {
					line = append(line, '\n')
				}
				type rr struct {
					b   []byte
					err error
				}
				done := make(chan rr, 1)
				go func(c *childProc) {
					if _, err := c.stdin.Write(line); err != nil {
						done <- rr{nil, err}
						return
					}
					b, err := c.stdout.ReadBytes('\n')
					done <- rr{b, err}
				}(ch)
				var p progIn
				json.Unmarshal(line, &p)
				select {
				case r := <-done:
					if r.err != nil || len(r.b) == 0 {
						ch.kill()
						ch = nil
						b, _ := json.Marshal(progOut{ID: p.ID, Emits: []interface{}{}, Outcome: []interface{}{"crash"}})
						results[i] = append(b, '\n')
					} else {
						results[i] = r.b
					}
				case <-time.After(caseDeadline(p, *deadline)):
					ch.kill()
					ch = nil
					b, _ := json.Marshal(progOut{ID: p.ID, Emits: []interface{}{}, Outcome: []interface{}{"hang"}})
					results[i] = append(b, '\n')
				}
			}
		}()
	}
	wg.Wait()
	o, err := os.Create(*outp)
	if err != nil {
		panic(err)
	}
	w := bufio.NewWriterSize(o, 1<<20)
	for _, r := range results {
		w.Write(r)
	}
	w.Flush()
	o.Close()
	return 0
}

var _ = context.Background
