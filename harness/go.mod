module verif/harness

go 1.23

require github.com/yuin/gopher-lua v0.0.0

replace github.com/yuin/gopher-lua => /repo
